// Generates the property-module list from src/props/*.rs so that adding a property is add-only.
use std::{env, fs, path::Path};
fn main() {
    let dir = Path::new("src/props");
    let mut names: Vec<String> = fs::read_dir(dir)
        .unwrap()
        .filter_map(|e| {
            let p = e.unwrap().path();
            if p.extension().map(|x| x == "rs").unwrap_or(false) {
                Some(p.file_stem().unwrap().to_string_lossy().into_owned())
            } else {
                None
            }
        })
        .collect();
    names.sort();
    let manifest = env::var("CARGO_MANIFEST_DIR").unwrap();
    let mut s = String::new();
    for n in &names {
        s += &format!("#[path = \"{}/src/props/{}.rs\"] pub mod {};\n", manifest, n, n);
    }
    s += "pub fn dispatch(id: &str, c: &mut crate::ctx::Ctx) -> bool {\n    match id {\n";
    for n in &names {
        s += &format!("        \"{}\" => {{ {}::run(c); true }}\n", n, n);
    }
    s += "        _ => false,\n    }\n}\n";
    s += &format!("pub const ALL: &[&str] = &[{}];\n", names.iter().map(|n| format!("\"{}\"", n)).collect::<Vec<_>>().join(", "));
    let out = env::var("OUT_DIR").unwrap();
    fs::write(Path::new(&out).join("props.rs"), s).unwrap();
    println!("cargo:rerun-if-changed=src/props");
}
