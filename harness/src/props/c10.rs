//! C10 — RFC 3339 output is conformant and input acceptance is exact.
//!
//! Correspondence (implementation vs Lean model, ops `r3.*`):
//!   * renderings: `DateTime::to_rfc3339_opts` / `to_rfc3339` on value x offset x precision x use_z
//!     (text compared byte for byte), and write-then-parse (`r3.rt`);
//!   * strings: `DateTime::parse_from_rfc3339` on grammar-generated strings, single-edit mutations of
//!     valid strings at every position, hand-written near misses, arbitrary Unicode (ok/err + value).
//!   * the other instantiations of `DateTime<Tz>::to_rfc3339{,_opts}` (audit 2, M2): `DateTime<Utc>` whenever the
//!     offset is 0 and `DateTime<Local>` under whole-minute `TZ` values (fresh thread per zone) must print the
//!     text of the `DateTime<FixedOffset>` carrying the same instant and offset (`Utc::fix`, `FixedOffset::fix`,
//!     `Local`'s offset are all `self.offset.fix()` in the writer); the text is then judged like any other;
//!   * `SecondsFormat::__NonExhaustive` (doc-hidden, outside "the five precision options"): the documented
//!     `unreachable!()` panic is confirmed under `catch_unwind` and counted, not reported as a failure.
//! Direct oracles (implementation vs property, no model involved):
//!   * every rendering with wall-clock year 0-9999 and whole-minute offset is accepted by an independent,
//!     regex-free grammar checker written here, shows exactly the wall-clock fields (computed with an
//!     independent civil-from-days calendar), the truncated sub-second digits for the requested
//!     precision, `Z` iff requested and offset zero, and parses back to the same instant and offset;
//!   * every string is accepted by the implementation iff the checker says it matches the grammar and
//!     its fields are valid, and then the returned value is the denoted one.
use super::c01::{day_num, month_len, yof};
use crate::ctx::*;
use chrono::{DateTime, FixedOffset, Local, NaiveDate, NaiveDateTime, NaiveTime, Offset, SecondsFormat, TimeZone, Timelike, Utc};

const EPOCH_DAY: i64 = 719163;
const SFS: [SecondsFormat; 5] =
    [SecondsFormat::Secs, SecondsFormat::Millis, SecondsFormat::Micros, SecondsFormat::Nanos, SecondsFormat::AutoSi];

// ------------------------------------------------------------------------------------------------
// the independent reading of the property: grammar, validity, denotation
// ------------------------------------------------------------------------------------------------

#[derive(Debug, Clone, PartialEq)]
pub struct Fields {
    y: i64,
    mo: i64,
    d: i64,
    h: i64,
    mi: i64,
    s: i64,
    frac: Vec<u8>, // digits after '.', empty = no fraction part
    zulu: bool,
    neg: bool,
    oh: i64,
    om: i64,
}

fn digits(b: &[u8], i: &mut usize, n: usize) -> Option<i64> {
    if b.len() < *i + n {
        return None;
    }
    let mut v = 0i64;
    for k in 0..n {
        let c = b[*i + k];
        if !(b'0'..=b'9').contains(&c) {
            return None;
        }
        v = v * 10 + (c - b'0') as i64;
    }
    *i += n;
    Some(v)
}
fn lit(b: &[u8], i: &mut usize, c: u8) -> Option<()> {
    if b.get(*i) == Some(&c) {
        *i += 1;
        Some(())
    } else {
        None
    }
}

/// RFC 3339 section 5.6 `date-time` with the documented latitude; `None` = not in the grammar
pub fn grammar(b: &[u8]) -> Option<Fields> {
    let mut i = 0usize;
    let y = digits(b, &mut i, 4)?;
    lit(b, &mut i, b'-')?;
    let mo = digits(b, &mut i, 2)?;
    lit(b, &mut i, b'-')?;
    let d = digits(b, &mut i, 2)?;
    match b.get(i) {
        Some(b'T') | Some(b't') | Some(b' ') => i += 1,
        _ => return None,
    }
    let h = digits(b, &mut i, 2)?;
    lit(b, &mut i, b':')?;
    let mi = digits(b, &mut i, 2)?;
    lit(b, &mut i, b':')?;
    let s = digits(b, &mut i, 2)?;
    let mut frac = vec![];
    if b.get(i) == Some(&b'.') {
        i += 1;
        while i < b.len() && b[i].is_ascii_digit() {
            frac.push(b[i]);
            i += 1;
        }
        if frac.is_empty() {
            return None;
        }
    }
    let (zulu, neg, oh, om);
    match b.get(i) {
        Some(b'Z') | Some(b'z') => {
            i += 1;
            zulu = true;
            neg = false;
            oh = 0;
            om = 0;
        }
        Some(c) => {
            if *c == b'+' {
                neg = false;
                i += 1;
            } else if *c == b'-' {
                neg = true;
                i += 1;
            } else if b[i..].starts_with(&[0xE2, 0x88, 0x92]) {
                neg = true;
                i += 3;
            } else {
                return None;
            }
            zulu = false;
            oh = digits(b, &mut i, 2)?;
            lit(b, &mut i, b':')?;
            om = digits(b, &mut i, 2)?;
        }
        None => return None,
    }
    if i != b.len() {
        return None;
    }
    Some(Fields { y, mo, d, h, mi, s, frac, zulu, neg, oh, om })
}

pub fn valid(f: &Fields) -> bool {
    (1..=12).contains(&f.mo) && f.d >= 1 && f.d <= month_len(f.y, f.mo) && f.h < 24 && f.mi < 60 && f.s <= 60 && f.oh < 24 && f.om < 60
}

/// (UTC seconds since the epoch, nanosecond field incl. the leap-second 10^9, offset in seconds)
pub fn denote(f: &Fields) -> (i64, i64, i64) {
    let off = (f.oh * 3600 + f.om * 60) * if f.neg { -1 } else { 1 };
    let sec = if f.s == 60 { 59 } else { f.s };
    let wall = (day_num(f.y, f.mo, f.d) - EPOCH_DAY) * 86400 + f.h * 3600 + f.mi * 60 + sec;
    let mut nanos = 0i64;
    for k in 0..9 {
        nanos = nanos * 10 + f.frac.get(k).map(|c| (c - b'0') as i64).unwrap_or(0);
    }
    if f.s == 60 {
        nanos += 1_000_000_000;
    }
    (wall - off, nanos, off)
}

/// Howard Hinnant's `civil_from_days`, on day numbers with 0001-01-01 = day 1 (independent of chrono
/// and of `day_num`'s closed form)
fn civil_from_day_num(n: i64) -> (i64, i64, i64) {
    let z = n - EPOCH_DAY + 719468;
    let era = z.div_euclid(146097);
    let doe = z.rem_euclid(146097);
    let yoe = (doe - doe / 1460 + doe / 36524 - doe / 146096) / 365;
    let y = yoe + era * 400;
    let doy = doe - (365 * yoe + yoe / 4 - yoe / 100);
    let mp = (5 * doy + 2) / 153;
    let d = doy - (153 * mp + 2) / 5 + 1;
    let m = if mp < 10 { mp + 3 } else { mp - 9 };
    (if m <= 2 { y + 1 } else { y }, m, d)
}

// ------------------------------------------------------------------------------------------------
// generators
// ------------------------------------------------------------------------------------------------

fn gen_ymd(c: &mut Ctx) -> (i64, i64, i64) {
    let y: i64 = match c.rng.below(10) {
        0 => *c.rng.pick(&[0i64, 1, 9999, 9998, 4, 100, 400, 1900, 1970, 2000, 2024, 1600, 999, 1000]),
        1..=5 => c.rng.range(0, 9999),
        6 => *c.rng.pick(&[-1i64, 10000, -9999, 10001, 99999, -99999, 262142, -262143, 262141, -262142, 100000, -1000]),
        7 => c.rng.range(-262143, 262142),
        _ => c.rng.range(1900, 2100),
    };
    let m = match c.rng.below(4) {
        0 => *c.rng.pick(&[1i64, 2, 12, 3]),
        _ => c.rng.range(1, 12),
    };
    let ml = month_len(y, m);
    let d = match c.rng.below(3) {
        0 => *c.rng.pick(&[1i64, ml, ml - 1, 2, 28.min(ml), 10, 9]),
        _ => c.rng.range(1, ml),
    };
    (y, m, d)
}

fn gen_secs(c: &mut Ctx) -> u32 {
    match c.rng.below(4) {
        0 => *c.rng.pick(&[0u32, 1, 59, 60, 61, 3599, 3600, 3601, 86399, 86398, 86340, 43200, 43199, 35999, 36000, 599, 600, 9 * 3600 + 9 * 60 + 9]),
        1 => (c.rng.below(1440) * 60 + 59) as u32,
        _ => c.rng.below(86400) as u32,
    }
}

/// nanosecond field below 10^9, by digit class
fn gen_nano(c: &mut Ctx) -> u32 {
    match c.rng.below(12) {
        0 => 0,
        1 => *c.rng.pick(&[1u32, 9, 10, 999, 1000, 1001, 999_999, 1_000_000, 1_000_001, 999_999_999, 999_999_000, 999_000_000, 500_000_000, 100_000_000, 99_999_999, 1_999_999, 900_000_000]),
        2 => (c.rng.below(1000) * 1_000_000) as u32,
        3 => (c.rng.below(1_000_000) * 1000) as u32,
        4 => (c.rng.below(1000) * 1_000_000 + c.rng.below(2) * 999_999) as u32,
        5 => (c.rng.below(1_000_000) * 1000 + c.rng.below(2) * 999) as u32,
        6 => (c.rng.below(10) * 100_000_000) as u32,
        7 => (c.rng.below(100)) as u32,
        _ => c.rng.nanos(),
    }
}

fn gen_off(c: &mut Ctx) -> i32 {
    match c.rng.below(16) {
        0 => 0,
        1 => *c.rng.pick(&[60i32, -60, 3600, -3600, 86340, -86340, 86280, -86280, 35940, 36000, 34200, -34200, 19800, 20700, -12600, 600, -600, 540, 32400, 32340]),
        // not a whole minute: outside the property's quantifier, text still compared with the model
        2 => *c.rng.pick(&[1i32, -1, 29, 30, 31, -29, -30, -31, 59, -59, 86399, -86399, 86370, 86369, -86370, 3599, 3629, 3630, 45296, -45296, 89]),
        3 => c.rng.range(-86399, 86399) as i32,
        _ => (c.rng.range(-1439, 1439) * 60) as i32,
    }
}

struct Val {
    dt: DateTime<FixedOffset>,
    utc: NaiveDateTime,
    ts: i64, // independent: seconds since the epoch of the UTC reading
    nano: u32,
    off: i32,
}

fn gen_val(c: &mut Ctx) -> Val {
    loop {
        let (y, m, d) = gen_ymd(c);
        let secs = gen_secs(c);
        let mut nano = gen_nano(c);
        let off = gen_off(c);
        let Some(date) = NaiveDate::from_ymd_opt(y as i32, m as u32, d as u32) else { continue };
        let leap = c.rng.below(12);
        let time = if leap == 0 && secs % 60 == 59 {
            nano += 1_000_000_000;
            NaiveTime::from_num_seconds_from_midnight_opt(secs, nano).unwrap()
        } else if leap == 1 {
            // a leap-second representation on an arbitrary second (reachable through `with_nanosecond`)
            nano += 1_000_000_000;
            NaiveTime::from_num_seconds_from_midnight_opt(secs, 0).unwrap().with_nanosecond(nano).unwrap()
        } else {
            NaiveTime::from_num_seconds_from_midnight_opt(secs, nano).unwrap()
        };
        let utc = date.and_time(time);
        let dt = FixedOffset::east_opt(off).unwrap().from_utc_datetime(&utc);
        let ts = (day_num(y, m, d) - EPOCH_DAY) * 86400 + secs as i64;
        return Val { dt, utc, ts, nano, off };
    }
}

fn val_args(v: &Val) -> String {
    format!("{} {} {} {}", yof(&v.utc.date()), v.utc.time().num_seconds_from_midnight(), v.utc.time().nanosecond(), v.off)
}

fn show_parse(r: &Result<Result<DateTime<FixedOffset>, chrono::ParseError>, ()>) -> String {
    match r {
        Ok(Ok(dt)) => {
            let u = dt.naive_utc();
            format!("ok {} {} {} {}", yof(&u.date()), u.time().num_seconds_from_midnight(), u.time().nanosecond(), dt.offset().local_minus_utc())
        }
        Ok(Err(_)) => "err".into(),
        Err(()) => "panic".into(),
    }
}

// ------------------------------------------------------------------------------------------------
// part A: renderings
// ------------------------------------------------------------------------------------------------

fn trunc_for(sf: usize, n: i64) -> (usize, i64) {
    match sf {
        0 => (0, 0),
        1 => (3, n / 1_000_000),
        2 => (6, n / 1000),
        3 => (9, n),
        _ => {
            if n == 0 {
                (0, 0)
            } else if n % 1_000_000 == 0 {
                (3, n / 1_000_000)
            } else if n % 1000 == 0 {
                (6, n / 1000)
            } else {
                (9, n)
            }
        }
    }
}

fn check_rendering(c: &mut Ctx, v: &Val, sf: usize, use_z: bool, text: &str) {
    let what = format!("{} sf={} z={} -> {:?}", val_args(v), sf, use_z, text);
    // independent wall clock
    let wall = v.ts + v.off as i64;
    let (wy, wm, wd) = civil_from_day_num(wall.div_euclid(86400) + EPOCH_DAY);
    if !(0..=9999).contains(&wy) {
        c.count("render:year-outside-0-9999");
        return;
    }
    if v.off % 60 != 0 {
        c.count("render:offset-not-whole-minute");
        return;
    }
    c.count("render:in-scope");
    let sod = wall.rem_euclid(86400);
    let leap = v.nano >= 1_000_000_000;
    let sub = (v.nano % 1_000_000_000) as i64;
    let Some(f) = grammar(text.as_bytes()) else {
        c.fail("rendering is not in the RFC 3339 grammar", &what);
        return;
    };
    if !valid(&f) {
        c.fail("rendering shows invalid fields", &what);
        return;
    }
    // fields shown are the wall-clock fields (a leap-second representation shows the next second: 60 after :59)
    let shown_sec = sod % 60 + if leap { 1 } else { 0 };
    if (f.y, f.mo, f.d) != (wy, wm, wd) || f.h != sod / 3600 || f.mi != sod / 60 % 60 || f.s != shown_sec {
        c.fail("rendering does not show the wall-clock fields", &format!("{} expected {:04}-{:02}-{:02} {:02}:{:02}:{:02}", what, wy, wm, wd, sod / 3600, sod / 60 % 60, shown_sec));
    }
    if text.as_bytes()[10] != b'T' {
        c.fail("rendering does not use the T separator", &what);
    }
    // sub-seconds: requested number of digits, truncated value
    let (nd, want) = trunc_for(sf, sub);
    let got: i64 = f.frac.iter().fold(0, |a, ch| a * 10 + (ch - b'0') as i64);
    if f.frac.len() != nd || got != want {
        c.fail("sub-second digits are not the truncated value at the requested precision", &format!("{} want {} digits value {}", what, nd, want));
    }
    c.count(&format!("render:frac-digits={}", nd));
    // Z only on request and only for offset zero
    if f.zulu != (use_z && v.off == 0) {
        c.fail("Z used although not requested / offset not zero, or not used although requested", &what);
    }
    if f.zulu && !text.ends_with('Z') {
        // the grammar (and the reader) take `z` too; the writer must print the upper-case letter (audit 2, L3)
        c.fail("rendering does not end in the upper-case Z", &what);
    }
    if !f.zulu {
        let a = (v.off as i64).abs();
        if f.neg != (v.off < 0) || f.oh != a / 3600 || f.om != a / 60 % 60 {
            c.fail("offset shown differs from the value's offset", &what);
        }
        if text.contains('\u{2212}') {
            c.fail("writer produced U+2212", &what);
        }
    }
    c.count(if f.zulu { "render:Z" } else if v.off == 0 { "render:+00:00" } else if v.off < 0 { "render:negative-offset" } else { "render:positive-offset" });
    if leap {
        c.count(if f.s == 60 { "render:leap-second-60" } else { "render:leap-representation-on-other-second" });
    }
    // round trip on the implementation: same instant (up to the requested truncation), same offset
    match guard(|| DateTime::parse_from_rfc3339(text)) {
        Ok(Ok(back)) => {
            let inst = |ts: i64, n: i64| ts as i128 * 1_000_000_000 + n as i128;
            let scale = [1i64, 1_000_000, 1000, 1][[0usize, 3, 6, 9].iter().position(|x| *x == nd).unwrap()];
            let want_ns = inst(v.ts, if leap { 1_000_000_000 } else { 0 } + if nd == 0 { 0 } else { want * scale });
            let got_ns = inst(back.timestamp(), back.timestamp_subsec_nanos() as i64);
            if want_ns != got_ns || back.offset().local_minus_utc() != v.off {
                c.fail("rendering parses back to a different instant or offset", &format!("{} back {:?}", what, back));
            }
            // exact value for what the public constructors build (leap second only on :59), full precision
            if (nd == 9 || sub == want * scale) && (!leap || sod % 60 == 59) && back != v.dt {
                c.fail("rendering parses back to a different value", &format!("{} back {:?}", what, back));
            }
            if (nd == 9 || sub == want * scale) && (!leap || sod % 60 == 59) && back.naive_utc() != v.utc {
                c.fail("rendering parses back to a different representation", &format!("{} back {:?}", what, back));
            }
            c.count("render:roundtrip-ok");
        }
        Ok(Err(e)) => c.fail("rendering is rejected by parse_from_rfc3339", &format!("{} {:?}", what, e)),
        Err(()) => c.fail("parse_from_rfc3339 panicked on a rendering", &what),
    }
}


/// `DateTime<Utc>` must print what `DateTime<FixedOffset>` with offset 0 prints (audit 2, M2): both go through
/// `self.offset.fix()`; `Utc::fix` is `FixedOffset::east_opt(0)`
fn check_utc_instantiation(c: &mut Ctx, v: &Val, sf: usize, use_z: bool, fixed_text: &str) {
    if v.off != 0 {
        return;
    }
    let u: DateTime<Utc> = Utc.from_utc_datetime(&v.utc);
    if Utc.fix().local_minus_utc() != 0 || u.offset().fix() != *v.dt.offset() {
        c.fail("Utc::fix is not the zero offset", &val_args(v));
    }
    match guard(|| (u.to_rfc3339_opts(SFS[sf], use_z), u.to_rfc3339())) {
        Ok((t, plain)) => {
            if t != fixed_text {
                c.fail("DateTime<Utc> renders differently from DateTime<FixedOffset> with offset 0", &format!("{} sf={} z={}: {:?} vs {:?}", val_args(v), sf, use_z, t, fixed_text));
            }
            check_rendering(c, v, sf, use_z, &t);
            match guard(|| v.dt.to_rfc3339()) {
                Ok(p) if p == plain => check_rendering(c, v, 4, false, &plain),
                other => c.fail("DateTime<Utc>::to_rfc3339 differs from DateTime<FixedOffset>::to_rfc3339 with offset 0", &format!("{} {:?} vs {:?}", val_args(v), plain, other)),
            }
            c.count("render:DateTime<Utc>");
        }
        Err(()) => c.fail("to_rfc3339_opts panicked on a DateTime<Utc>", &val_args(v)),
    }
}

/// whole-minute zones for the `DateTime<Local>` stream: POSIX strings (constant or with a DST rule) and zone files
/// with :30 / :45 / :00 offsets, east and west, including a half-hour DST shift (Lord Howe) and ±hh:mm extremes
const LOCAL_TZS: &[&str] = &[
    "UTC0", "IST-5:30", "NPT-5:45", "NST3:30NDT,M3.2.0,M11.1.0", "<+1245>-12:45<+1345>,M9.5.0/2:45,M4.1.0/3:45", "<-1159>11:59", "<+2359>-23:59",
    "Asia/Kathmandu", "America/St_Johns", "Australia/Lord_Howe", "Europe/London", "Pacific/Chatham", "America/Caracas",
];

type LocalRow = (usize, usize, bool, Result<(i32, String, String, String), ()>);

/// `DateTime<Local>::to_rfc3339_opts` / `to_rfc3339` under `TZ=tz` on a fresh thread (fresh zone cache): for each
/// value the offset `Local` chose, its text, the text of `fixed_offset()` and the plain `to_rfc3339()`
fn local_rows(tz: &str, vals: Vec<(NaiveDateTime, usize, bool)>) -> Option<Vec<LocalRow>> {
    let old = std::env::var("TZ").ok();
    std::env::set_var("TZ", tz);
    let out = std::thread::spawn(move || {
        vals.iter()
            .enumerate()
            .map(|(i, (utc, sf, z))| {
                let r = guard(|| {
                    let l: DateTime<Local> = Local.from_utc_datetime(utc);
                    let fx = l.fixed_offset();
                    (l.offset().fix().local_minus_utc(), l.to_rfc3339_opts(SFS[*sf], *z), fx.to_rfc3339_opts(SFS[*sf], *z), l.to_rfc3339())
                });
                (i, *sf, *z, r)
            })
            .collect::<Vec<LocalRow>>()
    })
    .join()
    .ok();
    match old {
        Some(v) => std::env::set_var("TZ", v),
        None => std::env::remove_var("TZ"),
    }
    out
}

fn local_instantiation(c: &mut Ctx) {
    let per_zone = c.n(600, 6_000) as usize;
    for tz in LOCAL_TZS {
        let mut vs: Vec<Val> = vec![];
        while vs.len() < per_zone {
            let v = gen_val(c);
            // keep the wall clock inside the supported range whatever the zone adds (|offset| < 24 h)
            if v.utc.date() > NaiveDate::MIN.succ_opt().unwrap() && v.utc.date() < NaiveDate::MAX.pred_opt().unwrap() {
                vs.push(v);
            }
        }
        let args: Vec<(NaiveDateTime, usize, bool)> = vs.iter().map(|v| (v.utc, c.rng.below(5) as usize, c.rng.chance(1, 2))).collect();
        let Some(rows) = local_rows(tz, args) else {
            c.fail("the DateTime<Local> batch died", tz);
            continue;
        };
        let mut whole = 0u64;
        let mut offs: std::collections::BTreeSet<i32> = Default::default();
        for (i, sf, z, r) in rows {
            let v0 = &vs[i];
            match r {
                Err(()) => c.fail("DateTime<Local>: from_utc_datetime / to_rfc3339_opts panicked", &format!("TZ={} {:?}", tz, v0.utc)),
                Ok((off, lt, ft, plain)) => {
                    let Some(fo) = FixedOffset::east_opt(off) else {
                        c.fail("Local chose an offset FixedOffset refuses", &format!("TZ={} {}", tz, off));
                        continue;
                    };
                    let v = Val { dt: fo.from_utc_datetime(&v0.utc), utc: v0.utc, ts: v0.ts, nano: v0.nano, off };
                    if lt != ft {
                        c.fail("DateTime<Local> renders differently from its fixed_offset()", &format!("TZ={} {} sf={} z={}: {:?} vs {:?}", tz, val_args(&v), sf, z, lt, ft));
                    }
                    // the model is asked about exactly the zone-aware value `Local` built
                    c.op(&format!("r3.opts {} {} {}", val_args(&v), sf, b01(z)), &hex(lt.as_bytes()));
                    c.op(&format!("r3.to {}", val_args(&v)), &hex(plain.as_bytes()));
                    check_rendering(c, &v, sf, z, &lt);
                    check_rendering(c, &v, 4, false, &plain);
                    if off % 60 == 0 {
                        whole += 1;
                    }
                    offs.insert(off);
                    c.count("render:DateTime<Local>");
                }
            }
        }
        c.count(&format!("render:DateTime<Local>:TZ={} offsets met {:?}", tz, offs));
        // the constant zones must really have been in force (a `Local` that fell back to UTC would make the stream vacuous)
        let stated = [("IST-5:30", 19800), ("NPT-5:45", 20700), ("<-1159>11:59", -43140), ("<+2359>-23:59", 86340)];
        if let Some((_, want)) = stated.iter().find(|(n, _)| n == tz) {
            if offs.iter().any(|o| o != want) || offs.is_empty() {
                c.fail("harness: Local did not apply the constant offset the TZ string states (stream is vacuous)", &format!("TZ={} {:?}", tz, offs));
            }
        }
        if whole == 0 {
            c.fail("harness: a zone of the DateTime<Local> stream never gave a whole-minute offset (stream is vacuous)", tz);
        }
    }
}

/// `SecondsFormat::__NonExhaustive` is a doc-hidden variant a caller can name; `write_rfc3339` answers it with
/// `unreachable!()`.  It is outside "the five precision options" of the property (declared in props/C10.json):
/// the panic is confirmed and counted as the documented case, never reported as a failure; should a later
/// version print something instead, that is counted too.
fn non_exhaustive_variant(c: &mut Ctx) {
    for _ in 0..8 {
        let v = gen_val(c);
        let z = c.rng.chance(1, 2);
        let r = guard(|| v.dt.to_rfc3339_opts(SecondsFormat::__NonExhaustive, z));
        c.count(match r {
            Err(()) => "render:__NonExhaustive:documented-panic (outside the five precisions)",
            Ok(_) => "render:__NonExhaustive:printed-something (outside the five precisions)",
        });
    }
}

fn renderings(c: &mut Ctx) {
    let n = c.n(300_000, 2_400_000);
    for i in 0..n {
        let v = gen_val(c);
        let sf = c.rng.below(5) as usize;
        let z = c.rng.chance(1, 2);
        match c.rng.below(8) {
            0 => {
                let r = guard(|| v.dt.to_rfc3339());
                c.op(&format!("r3.to {}", val_args(&v)), &match &r {
                    Ok(s) => hex(s.as_bytes()),
                    Err(()) => "panic".into(),
                });
                match r {
                    Ok(s) => check_rendering(c, &v, 4, false, &s),
                    Err(()) => c.fail("to_rfc3339 panicked", &val_args(&v)),
                }
            }
            2 if i % 4 == 0 => {
                // the `%+` item: `DateTime::format("%+")` is `to_rfc3339()`; on a `NaiveDateTime` (no offset) it is
                // a formatting error, never a text
                use std::fmt::Write as _;
                let r = guard(|| {
                    let mut s = String::new();
                    write!(s, "{}", v.dt.format("%+")).map(|_| s)
                });
                c.op(&format!("r3.plus {}", val_args(&v)), &match &r {
                    Ok(Ok(s)) => hex(s.as_bytes()),
                    Ok(Err(_)) => "err".into(),
                    Err(()) => "panic".into(),
                });
                match (&r, guard(|| v.dt.to_rfc3339())) {
                    (Ok(Ok(a)), Ok(b)) => {
                        if *a != b {
                            c.fail("format(\"%+\") differs from to_rfc3339()", &format!("{} {:?} vs {:?}", val_args(&v), a, b));
                        }
                        check_rendering(c, &v, 4, false, a);
                    }
                    _ => c.fail("format(\"%+\") of a DateTime<FixedOffset> failed", &val_args(&v)),
                }
                let rn = guard(|| {
                    let mut s = String::new();
                    write!(s, "{}", v.utc.format("%+")).map(|_| s)
                });
                c.op(&format!("r3.plusn {} {} {}", yof(&v.utc.date()), v.utc.time().num_seconds_from_midnight(), v.utc.time().nanosecond()), &match &rn {
                    Ok(Ok(s)) => hex(s.as_bytes()),
                    Ok(Err(_)) => "err".into(),
                    Err(()) => "panic".into(),
                });
                if !matches!(rn, Ok(Err(_))) {
                    c.fail("format(\"%+\") of a NaiveDateTime is not a formatting error", &format!("{:?} -> {:?}", v.utc, rn));
                }
                c.count("render:%+");
            }
            1 => {
                // write, then parse, both sides
                let r = guard(|| DateTime::parse_from_rfc3339(&v.dt.to_rfc3339_opts(SFS[sf], z)));
                c.op(&format!("r3.rt {} {} {}", val_args(&v), sf, b01(z)), &show_parse(&r));
                c.count("render:rt-op");
            }
            _ => {
                let r = guard(|| v.dt.to_rfc3339_opts(SFS[sf], z));
                c.op(&format!("r3.opts {} {} {}", val_args(&v), sf, b01(z)), &match &r {
                    Ok(s) => hex(s.as_bytes()),
                    Err(()) => "panic".into(),
                });
                match r {
                    Ok(s) => {
                        if i < 4 {
                            c.sample(&format!("to_rfc3339_opts({}, {:?}, {}) = {}", val_args(&v), SFS[sf], z, s));
                        }
                        check_rendering(c, &v, sf, z, &s);
                        check_utc_instantiation(c, &v, sf, z, &s)
                    }
                    Err(()) => c.fail("to_rfc3339_opts panicked", &format!("{} {} {}", val_args(&v), sf, z)),
                }
            }
        }
    }
    // the range ends seen through offsets that push the wall clock out of the supported range
    for utc in [NaiveDateTime::MIN, NaiveDateTime::MAX] {
        for off in [0, 60, -60, 3600, -3600, 86340, -86340, 1, -1] {
            let dt = FixedOffset::east_opt(off).unwrap().from_utc_datetime(&utc);
            for (k, sf) in SFS.iter().enumerate() {
                let r = gs(|| dt.to_rfc3339_opts(*sf, true), |s| hex(s.as_bytes()));
                if r == "panic" {
                    c.fail("to_rfc3339_opts panicked at a range end", &format!("{:?} {}", utc, off));
                }
                c.op(&format!("r3.opts {} {} {} {} {} 1", yof(&utc.date()), utc.time().num_seconds_from_midnight(), utc.time().nanosecond(), off, k), &r);
                c.count("render:range-end");
            }
        }
    }
}

// ------------------------------------------------------------------------------------------------
// part B: strings
// ------------------------------------------------------------------------------------------------

fn two(c: &mut Ctx, lo: i64, hi: i64, edges: &[i64]) -> String {
    let v = if c.rng.chance(1, 3) { *c.rng.pick(edges) } else { c.rng.range(lo, hi) };
    format!("{:02}", v)
}

/// a string built field by field; `wild` = how likely a field leaves its valid range
fn gen_string(c: &mut Ctx, wild: u64) -> String {
    let w = |c: &mut Ctx| c.rng.below(100) < wild;
    let mut s = String::new();
    let y = if w(c) { *c.rng.pick(&[0i64, 9999, 1, 10000, 999, 99999]) } else { c.rng.range(0, 9999) };
    s.push_str(&format!("{:04}", y));
    s.push('-');
    let mo: i64 = if w(c) { *c.rng.pick(&[0i64, 13, 12, 1, 19, 99]) } else { c.rng.range(1, 12) };
    s.push_str(&format!("{:02}", mo));
    s.push('-');
    let ml = if (1..=12).contains(&mo) { month_len(y, mo) } else { 31 };
    let d: i64 = if w(c) || c.rng.chance(1, 6) { *c.rng.pick(&[0i64, 1, ml, ml + 1, 28, 29, 30, 31, 32, 99]) } else { c.rng.range(1, ml) };
    s.push_str(&format!("{:02}", d));
    s.push(if w(c) { *c.rng.pick(&['T', 't', ' ', '_', 'Z', '\t', ':']) } else { *c.rng.pick(&['T', 'T', 't', ' ']) });
    let h = if w(c) { two(c, 0, 99, &[23, 24, 25, 0, 12]) } else { two(c, 0, 23, &[0, 23, 12, 11]) };
    s.push_str(&h);
    s.push(':');
    let mi = if w(c) { two(c, 0, 99, &[59, 60, 61, 0]) } else { two(c, 0, 59, &[0, 59]) };
    s.push_str(&mi);
    s.push(':');
    let se = if w(c) { two(c, 0, 99, &[59, 60, 61, 0, 99]) } else { two(c, 0, 59, &[0, 59, 60, 60]) };
    s.push_str(&se);
    match c.rng.below(8) {
        0..=2 => {}
        3 => {
            if w(c) {
                s.push('.')
            }
        }
        _ => {
            s.push('.');
            // occasionally far more digits than any fixed buffer: the digit-skipping loop is unbounded
            let nd = match c.rng.below(2000) {
                0 => 5000,
                1..=5 => 200,
                _ => match c.rng.below(5) {
                    0 => *c.rng.pick(&[1u64, 3, 6, 9, 10, 12, 18, 19, 20, 30]),
                    _ => 1 + c.rng.below(12),
                },
            };
            for k in 0..nd {
                let ch = if k >= 9 && c.rng.chance(1, 2) { b'9' } else { b'0' + c.rng.below(10) as u8 };
                s.push(ch as char);
            }
        }
    }
    match c.rng.below(10) {
        0 => s.push('Z'),
        1 => s.push('z'),
        _ => {
            s.push_str(*c.rng.pick(&["+", "+", "-", "-", "\u{2212}"]));
            let oh = if w(c) { two(c, 0, 99, &[23, 24, 25, 99, 0]) } else { two(c, 0, 23, &[0, 23, 14, 12]) };
            s.push_str(&oh);
            if !(w(c) && c.rng.chance(1, 2)) {
                s.push(':');
            }
            let om = if w(c) { two(c, 0, 99, &[59, 60, 61, 99, 0]) } else { two(c, 0, 59, &[0, 59, 30, 45]) };
            s.push_str(&om);
        }
    }
    s
}

const ALPHABET: &[char] = &['0', '1', '2', '4', '5', '6', '9', 'T', 't', ' ', 'Z', 'z', '+', '-', ':', '.', ',', '\u{2212}', 'a', 'é', '\u{3000}', '/', '\t', '\u{a0}', '\u{ff10}', '٣'];

/// characters of every UTF-8 length around the bytes of U+2212 (E2 88 92) and at the ends of each length class
const BOUNDARY_CHARS: &[char] = &[
    '\u{2212}', '\u{2213}', '\u{2211}', '\u{2200}', '\u{223f}', '\u{2252}', '\u{2012}', '\u{3212}', '\u{1212}', '\u{e2}', '\u{88}', '\u{92}',
    '\u{80}', '\u{e9}', '\u{7ff}', '\u{800}', '\u{ffff}', '\u{10000}', '\u{1f600}', '\u{10ffff}', '\u{ff10}', '\u{ff1a}', '\u{ff0d}',
];

const NEAR_MISSES: &[&str] = &[
    "2015-01-20T17:35:20-08:00", "2015-01-20t17:35:20z", "2015-01-20 17:35:20Z", "2015-01-20T17:35:20.5+00:00",
    "2015-1-20T17:35:20Z", "2015-01-2T17:35:20Z", "2015-01-20T7:35:20Z", "2015-01-20T17:5:20Z", "2015-01-20T17:35:2Z",
    "215-01-20T17:35:20Z", "02015-01-20T17:35:20Z", "+2015-01-20T17:35:20Z", "-2015-01-20T17:35:20Z", "12015-01-20T17:35:20Z",
    "2015-01-20T24:00:00Z", "2015-01-20T23:59:60Z", "2015-01-20T23:59:61Z", "2015-01-20T12:30:60Z", "2015-01-20T00:60:00Z",
    "2015-01-20T17:35:20.Z", "2015-01-20T17:35:20.+00:00", "2015-01-20T17:35:20.", "2015-01-20T17:35:20", "2015-01-20T17:35:20.5",
    "2015-01-20T17:35:20Z ", " 2015-01-20T17:35:20Z", "2015-01-20T17:35:20Zx", "2015-01-20T17:35:20Z0", "2015-01-20T17:35:20ZZ",
    "2015-01-20T17:35:20+24:00", "2015-01-20T17:35:20-24:00", "2015-01-20T17:35:20+23:59", "2015-01-20T17:35:20-23:59",
    "2015-01-20T17:35:20+23:60", "2015-01-20T17:35:20+00:60", "2015-01-20T17:35:20+99:99", "2015-01-20T17:35:20+0800",
    "2015-01-20T17:35:20+08", "2015-01-20T17:35:20+8:00", "2015-01-20T17:35:20+08:0", "2015-01-20T17:35:20+08:000",
    "2015-01-20T17:35:20+08:00:00", "2015-01-20T17:35:20+08 00", "2015-01-20T17:35:20 +08:00", "2015-01-20T17:35:20+ 08:00",
    "2015-01-20T17:35:20\u{2212}08:00", "2015-01-20T17:35:20\u{2212}00:00", "2015-01-20T17:35:20\u{2010}08:00", "2015-01-20T17:35:20\u{2013}08:00",
    "2015-01-20T17:35:20\u{ff0b}08:00", "2015-01-20T17:35:20UTC", "2015-01-20T17:35:20utc", "2015-01-20T17:35:20GMT", "2015-01-20T17:35:20 Z",
    "2015-01-20T17:35:20-00:00", "2015-01-20T17:35:20+00:00", "2015-01-20T17:35:20.123456789012345678901234567890Z",
    "2015-01-20T17:35:20.999999999999Z", "2015-01-20T17:35:20.0000000009Z", "2015-01-20T17:35:20.1234567891Z", "2015-01-20T17:35:20,5Z",
    "2015-01-20T17:35:20.5.5Z", "2015-01-20T17:35:20.5e3Z", "2015-01-20T17:35:20.-5Z", "2015-01-20T17:35:20.٣Z", "2015-01-20T17:35:２0Z",
    "2015-02-29T00:00:00Z", "2016-02-29T00:00:00Z", "1900-02-29T00:00:00Z", "2000-02-29T00:00:00Z", "2015-04-31T00:00:00Z",
    "2015-00-10T00:00:00Z", "2015-13-10T00:00:00Z", "2015-01-00T00:00:00Z", "2015-01-32T00:00:00Z", "0000-01-01T00:00:00Z",
    "9999-12-31T23:59:60.999999999-23:59", "0000-01-01T00:00:00+23:59", "9999-12-31T23:59:59-23:59", "0000-02-29T12:00:00Z",
    "2015/01/20T17:35:20Z", "2015-01-20T17.35.20Z", "2015-01-20T17-35-20Z", "20150120T173520Z", "2015-01-20", "17:35:20Z", "",
    "2015-01-20TT17:35:20Z", "2015-01-20T 17:35:20Z", "2015-01-20  17:35:20Z", "2015-01-20\t17:35:20Z", "2015-01-20_17:35:20Z",
    "2015-01-20\u{a0}17:35:20Z", "2015-01-20\u{3000}17:35:20Z", "2015 -01-20T17:35:20Z", "2015- 01-20T17:35:20Z", "2015-01-20T17 :35:20Z",
    "2015-01-20T17: 35:20Z", "2015-01-20T+7:35:20Z", "2015-01--2T17:35:20Z", "2015-+1-20T17:35:20Z", "Z", "T", "-", "+00:00", "é", "\u{2212}",
    // audit 2, L1: shapes the generators did not produce - NUL / control bytes, cuts after U+2212, a multi-byte
    // character inside the offset digits, non-ASCII digits after nine ASCII ones
    "2015-01-20T17:35:20Z\0", "\02015-01-20T17:35:20Z", "2015-01-20T17:35:20\0Z", "2015-01-20\017:35:20Z", "2015-01-20T17:35:20Z\n", "2015-01-20T17:35:20Z\r\n",
    "2015-01-20\u{b}17:35:20Z", "2015-01-20\r17:35:20Z", "2015-01-20\n17:35:20Z", "2015-01-20\u{7f}17:35:20Z", "2015-01-20\u{c}17:35:20Z", "2015-01-20\u{2003}17:35:20Z",
    "2015-01-20T17:35:20.5\u{200b}Z", "2015-01-20T17:35:20zz", "2015-01-20T17:35:20+08:00\u{2212}",
    "2015-01-20T17:35:20\u{2212}", "2015-01-20T17:35:20\u{2212}0", "2015-01-20T17:35:20\u{2212}08", "2015-01-20T17:35:20\u{2212}08:", "2015-01-20T17:35:20\u{2212}08:0",
    "2015-01-20T17:35:20\u{2212}08:0é", "2015-01-20T17:35:20+0é:00", "2015-01-20T17:35:20+é0:00", "2015-01-20T17:35:20+08\u{ff1a}00", "2015-01-20T17:35:20\u{2212}\u{2212}08:00",
    "2015-01-20T17:35:20+-08:00", "2015-01-20T17:35:20\u{2213}08:00", "2015-01-20T17:35:20\u{2212}24:00", "2015-01-20T17:35:20\u{2212}23:59", "2015-01-20T17:35:20+00:99",
    "2015-01-20T17:35:20.٠Z", "2015-01-20T17:35:20.1٠Z", "2015-01-20T17:35:20.123456789١Z", "2015-01-20T17:35:20.1234567890١Z", "２015-01-20T17:35:20Z", "201٥-01-20T17:35:20Z",
    "0000-02-30T00:00:00Z", "0100-02-29T00:00:00Z", "0400-02-29 24:00:00Z", "0400-02-29 23:60:00Z", "0000-02-29t00:00:60z", "9999-12-31T23:59:60.999999999999-23:59",
];

/// near misses too long for a literal (audit 2, L1): fractions far beyond any fixed digit budget - a reader that
/// bounds the digit-skipping loop, or overflows while skipping, fails here
fn long_probes() -> Vec<String> {
    let mut v = vec![];
    for n in [31usize, 64, 255, 256, 257, 1000, 4096, 65_536, 100_000] {
        v.push(format!("2015-01-20T17:35:20.{}Z", "9".repeat(n)));
        v.push(format!("2015-01-20T17:35:20.{}1\u{2212}23:59", "0".repeat(n)));
        v.push(format!("2015-01-20T17:35:60.{}+23:59", "123456789".repeat(n / 9 + 1)));
        v.push(format!("2015-01-20T17:35:20.{}", "5".repeat(n)));
        v.push(format!("2015-01-20T17:35:20.{}\0Z", "5".repeat(n)));
        v.push(format!("2015-01-20T17:35:20.{}٣Z", "5".repeat(n)));
    }
    v
}

fn judge_string(c: &mut Ctx, class: &str, text: &str) {
    let r = guard(|| DateTime::parse_from_rfc3339(text));
    c.op(&format!("r3.parse {}", hex(text.as_bytes())), &show_parse(&r));
    let g = grammar(text.as_bytes());
    let want = match &g {
        Some(f) if valid(f) => Some(denote(f)),
        _ => None,
    };
    match (&r, &want) {
        (Err(()), _) => c.fail("parse_from_rfc3339 panicked", &format!("{:?}", text)),
        (Ok(Ok(dt)), Some((ts, nanos, off))) => {
            if dt.timestamp() != *ts || dt.timestamp_subsec_nanos() as i64 != *nanos || dt.offset().local_minus_utc() as i64 != *off {
                c.fail("accepted string parsed to a value other than the one it denotes", &format!("{:?} -> {:?}, denoted ts={} nanos={} off={}", text, dt, ts, nanos, off));
            }
            c.count(&format!("{}:accepted", class));
            let f = g.as_ref().unwrap();
            if f.s == 60 {
                c.count("string:accepted:second-60");
            }
            if f.frac.len() > 9 {
                c.count("string:accepted:more-than-9-fraction-digits");
            }
            if text.contains('\u{2212}') {
                c.count("string:accepted:U+2212");
            }
            if f.zulu {
                c.count("string:accepted:zulu");
            }
        }
        (Ok(Ok(dt)), None) => {
            let why = if g.is_none() { "accepted a string outside the RFC 3339 grammar" } else { "accepted a string whose fields are invalid" };
            c.fail(why, &format!("{:?} -> {:?}", text, dt));
        }
        (Ok(Err(e)), Some(_)) => c.fail("rejected a string that matches the grammar with valid fields", &format!("{:?}: {:?}", text, e)),
        (Ok(Err(e)), None) => {
            c.count(&format!("{}:rejected", class));
            c.count(&format!("string:error-kind:{}", super::c13::err_kind(e)));
            c.count(if g.is_none() { "string:rejected:not-in-grammar" } else { "string:rejected:invalid-fields" });
        }
    }
}

fn mutations(c: &mut Ctx, base: &str, all_positions: bool, budget: usize) {
    let cs: Vec<char> = base.chars().collect();
    let n = cs.len();
    let mut done = 0usize;
    let positions: Vec<usize> = if all_positions { (0..=n).collect() } else { (0..budget).map(|_| c.rng.below(n as u64 + 1) as usize).collect() };
    for k in positions {
        // drop
        if k < n {
            let t: String = cs.iter().enumerate().filter(|(i, _)| *i != k).map(|(_, ch)| *ch).collect();
            judge_string(c, "mutation:drop", &t);
        }
        // insert
        let reps = if all_positions { ALPHABET.len() } else { 1 };
        for r in 0..reps {
            let ch = if all_positions { ALPHABET[r] } else { *c.rng.pick(ALPHABET) };
            let mut t: Vec<char> = cs.clone();
            t.insert(k, ch);
            judge_string(c, "mutation:insert", &t.into_iter().collect::<String>());
            if k < n {
                let mut t: Vec<char> = cs.clone();
                t[k] = ch;
                judge_string(c, "mutation:replace", &t.into_iter().collect::<String>());
            }
        }
        // bit neighbours of the character at this position: case-folding tricks such as `c | 32`,
        // `c & !32`, `c ^ 32` (and the same with bit 4 / bit 6 / bit 7) accept exactly these
        if k < n && (cs[k] as u32) < 128 {
            for mask in [0x20u8, 0x10, 0x40, 0x01, 0x80] {
                let b = cs[k] as u8;
                for nb in [b ^ mask, b & !mask, b | mask] {
                    if nb != b && nb < 128 {
                        let mut t: Vec<char> = cs.clone();
                        t[k] = nb as char;
                        judge_string(c, "mutation:bit-neighbour", &t.into_iter().collect::<String>());
                    }
                }
            }
        }
        // duplicate / swap with neighbour
        if k + 1 < n {
            let mut t: Vec<char> = cs.clone();
            t.swap(k, k + 1);
            judge_string(c, "mutation:swap", &t.into_iter().collect::<String>());
        }
        done += 1;
        if !all_positions && done >= budget {
            break;
        }
    }
    // truncations
    if all_positions {
        for k in 0..n {
            judge_string(c, "mutation:truncate", &cs[..k].iter().collect::<String>());
        }
    }
}

fn strings(c: &mut Ctx) {
    for s in NEAR_MISSES {
        judge_string(c, "near-miss", s);
        judge_string(c, "near-miss:upper", &s.to_uppercase());
        judge_string(c, "near-miss:lower", &s.to_lowercase());
    }
    for s in long_probes() {
        judge_string(c, "near-miss:long-fraction", &s);
    }
    // every single edit of a few valid strings of each shape, at every position
    for base in ["2015-01-20T17:35:20-08:00", "1996-12-19t16:39:57.5z", "0000-02-29 23:59:60.123456789\u{2212}23:59", "9999-12-31T00:00:00.000000000001+00:00", "2024-02-29T12:00:00Z"] {
        mutations(c, base, true, 0);
    }
    // char boundaries (audit gap G1, theorem reader_consumes_whole_chars): at every position of the base strings a
    // character of every UTF-8 length is inserted / put in place of the character there - in particular
    // characters sharing one or two leading bytes with U+2212 (E2 88 92), Latin-1 characters whose code point
    // equals one of its bytes, and the first / last character of each length - so that every `&s[1..]`,
    // `&s[2..]`, `&s[len_utf8..]` of the scanner is tried right before, inside and right after a multi-byte
    // character. A slice off a char boundary is a panic, reported by judge_string.
    for base in ["2015-01-20T17:35:20-08:00", "1996-12-19t16:39:57.5z", "0000-02-29 23:59:60.123456789\u{2212}23:59", "2024-02-29T12:00:00.123456789012+00:00"] {
        let cs: Vec<char> = base.chars().collect();
        for k in 0..=cs.len() {
            for ch in BOUNDARY_CHARS {
                let mut t = cs.clone();
                t.insert(k, *ch);
                judge_string(c, "boundary:insert", &t.into_iter().collect::<String>());
                if k < cs.len() {
                    let mut t = cs.clone();
                    t[k] = *ch;
                    judge_string(c, "boundary:replace", &t.iter().collect::<String>());
                    // the text cut right after the multi-byte character
                    judge_string(c, "boundary:cut", &t[..=k].iter().collect::<String>());
                }
            }
        }
    }
    // grammar-generated: mostly valid
    for i in 0..c.n(80_000, 700_000) {
        let s = gen_string(c, 2);
        if i < 3 {
            c.sample(&format!("parse_from_rfc3339({:?}) = {}", s, show_parse(&guard(|| DateTime::parse_from_rfc3339(&s)))));
        }
        judge_string(c, "generated:mostly-valid", &s);
    }
    // grammar-generated: fields at and beyond their bounds
    for _ in 0..c.n(60_000, 500_000) {
        let s = gen_string(c, 25);
        judge_string(c, "generated:boundary", &s);
    }
    // random single edits of generated valid strings
    for _ in 0..c.n(30_000, 250_000) {
        let s = gen_string(c, 0);
        mutations(c, &s, false, 2);
    }
    // renderings of the implementation itself, mutated (years outside 0-9999 included: signed years must be rejected)
    for _ in 0..c.n(8_000, 80_000) {
        let v = gen_val(c);
        let sf = c.rng.below(5) as usize;
        if let Ok(s) = guard(|| v.dt.to_rfc3339_opts(SFS[sf], c.rng.chance(1, 2))) {
            judge_string(c, "rendering", &s);
            mutations(c, &s, false, 1);
        }
    }
    // arbitrary Unicode / arbitrary short texts over the alphabet
    for _ in 0..c.n(20_000, 200_000) {
        let len = c.rng.below(34);
        let s: String = (0..len)
            .map(|_| match c.rng.below(12) {
                0 => char::from_u32(c.rng.range(0x80, 0x2FFF) as u32).unwrap_or('x'),
                1 => char::from_u32(c.rng.range(0x10000, 0x10FFFF) as u32).unwrap_or('y'),
                2 => (c.rng.range(0x20, 0x7e) as u8) as char,
                _ => *c.rng.pick(ALPHABET),
            })
            .collect();
        judge_string(c, "arbitrary", &s);
    }
}

pub fn run(c: &mut Ctx) {
    // the independent calendar used by the oracles agrees with itself (day_num vs civil_from_days)
    for n in [1i64, 0, -1, EPOCH_DAY, 730119, 3652059, -95746129, 95745399] {
        let (y, m, d) = civil_from_day_num(n);
        if day_num(y, m, d) != n {
            c.fail("harness calendars disagree (oracle self-check)", &format!("{} -> {}-{}-{}", n, y, m, d));
        }
    }
    renderings(c);
    local_instantiation(c);
    non_exhaustive_variant(c);
    strings(c);
}
