//! C07 — NaiveTime: validity, field replacement, wrap-around arithmetic with leap-second operands.
//!
//! Correspondence ops (prefix `tm.`) are answered by lean/Chrono/Drv/Time.lean.  Direct oracles
//! (i128 arithmetic, no chrono code) check the property statement on the implementation itself:
//! the extended-line closed form for `overflowing_add_signed`, sub = add∘neg, carry ≡ 0 (mod 86400),
//! antisymmetry and closed form of the difference, the constructor acceptance rule, single-field
//! replacement, offset shifts keeping the fraction, and the date-time carry.
//! The date-time operations are sent twice: as `tm.dtadd/dtsub/dtdiff` (day-number model,
//! Model/TimeCarry.lean) and as `ar.dtadd/dtsub/dtdiff` (the packed `NaiveDateTime` model of
//! Model/DateTime.lean, answered by lean/Chrono/Drv/DateArith.lean; date = packed word `yof`) — the
//! latter is the model `datetime_leap_carry` / `datetime_diff` are about.
//! Operator impls (`+ - += -=` with `TimeDelta`, `core::time::Duration`, `FixedOffset`; `NaiveTime -
//! NaiveTime`; `NaiveTime::MIN`) have their own ops (prefix `tmo.`, lean/Chrono/Drv/TimeOps.lean) and their
//! own oracles (wrap around, never panic, = time component of the extended-line closed form).
//! Date-time difference after date-time addition (audit G1): `(a + d) - a` is checked against `d` plus the
//! error term of `Spec.diffAddErr` re-derived here in i128, every date-time difference against the
//! extended-line distance of date-times plus the two cross terms (`Spec.dtDiffLine`, `Spec.crossErr`);
//! inputs on which the error is not zero are COUNTED under `observation:` (documented behaviour of the
//! crate, asserted by its own doc test; the property statement asks antisymmetry of differences only).
use super::c01::yof;
use crate::ctx::*;
use chrono::{Datelike, FixedOffset, NaiveDate, NaiveDateTime, NaiveTime, TimeDelta, Timelike};
use std::collections::BTreeMap;
use std::time::Duration;

const NS: i128 = 1_000_000_000;
const DAY: i128 = 86_400 * NS;
const P: i128 = 2_147_483_647;
const FRAC_CLASSES: [u32; 6] = [0, 1, 999_999_999, 1_000_000_000, 1_500_000_000, 1_999_999_999];

fn mk(secs: u32, frac: u32) -> NaiveTime {
    // leap representation on any second is reachable through with_nanosecond
    NaiveTime::from_num_seconds_from_midnight_opt(secs, 0).unwrap().with_nanosecond(frac).unwrap()
}
fn raw(t: &NaiveTime) -> (u32, u32) {
    (t.num_seconds_from_midnight(), t.nanosecond())
}
fn show_t(t: &NaiveTime) -> String {
    let (s, f) = raw(t);
    format!("{s} {f}")
}
fn show_ot(o: Option<NaiveTime>) -> String {
    match o {
        Some(t) => show_t(&t),
        None => "none".into(),
    }
}
/// `yof secs frac` as printed by `showRODT` of lean/Chrono/Drv/DateArith.lean
fn show_packed(o: Option<NaiveDateTime>) -> String {
    match o {
        Some(r) => format!("{} {}", yof(&r.date()), show_t(&r.time())),
        None => "none".into(),
    }
}
fn td_ns(d: &TimeDelta) -> i128 {
    d.num_seconds() as i128 * NS + d.subsec_nanos() as i128
}
/// (secs, nanos) with 0 <= nanos < 10^9 (the internal representation)
fn td_raw_of_ns(n: i128) -> (i64, u32) {
    (n.div_euclid(NS) as i64, n.rem_euclid(NS) as u32)
}
fn td_of_ns(n: i128) -> TimeDelta {
    let (s, f) = td_raw_of_ns(n);
    TimeDelta::new(s, f).unwrap()
}
fn show_td(d: &TimeDelta) -> String {
    let (s, f) = td_raw_of_ns(td_ns(d));
    format!("{s} {f}")
}

/// the property's closed form (DESIGN.md Appendix A, `Spec.addLeap`), in i128
fn spec_add(secs: u32, frac: u32, delta: i128) -> (u32, u32, i128) {
    let s = secs as i128;
    let p = s * NS + frac as i128 + delta;
    let l = (s + 1) * NS;
    let leap = frac as i128 >= NS;
    if leap && l <= p && p < l + NS {
        return (secs, (p - s * NS) as u32, 0);
    }
    let p2 = if leap && p >= l + NS { p - NS } else { p };
    let q = p2.div_euclid(NS);
    let sid = q.rem_euclid(86_400);
    (sid as u32, p2.rem_euclid(NS) as u32, q - sid)
}
/// position on the line that contains exactly the two operands' leap seconds
fn line_pos(x: (u32, u32), o: (u32, u32)) -> i128 {
    x.0 as i128 * NS + x.1 as i128 + if o.1 as i128 >= NS && o.0 < x.0 { NS } else { 0 }
}
fn spec_diff(a: (u32, u32), b: (u32, u32)) -> i128 {
    line_pos(a, b) - line_pos(b, a)
}

/// `Spec.diffAddErr` re-derived: the error of `(t + delta) - t` (carry included) against `delta`
fn spec_diff_add_err(secs: u32, frac: u32, delta: i128) -> i128 {
    let s = secs as i128;
    let p = s * NS + frac as i128 + delta;
    let l = (s + 1) * NS;
    if (frac as i128) < NS {
        return 0;
    }
    let r = spec_add(secs, frac, delta);
    if p < l && secs < r.0 {
        NS
    } else if p >= l + NS && r.0 <= secs {
        -NS
    } else {
        0
    }
}
/// `Spec.dtDiffLine`: distance on the line of all date-times holding exactly the operands' leap seconds
fn spec_dt_line_diff(a: (i64, u32, u32), b: (i64, u32, u32)) -> i128 {
    let inst = |x: (i64, u32, u32)| x.0 as i128 * 86_400 + x.1 as i128;
    let lp = |x: (i64, u32, u32), o: (i64, u32, u32)| inst(x) * NS + x.2 as i128 + if o.2 as i128 >= NS && inst(o) < inst(x) { NS } else { 0 };
    lp(a, b) - lp(b, a)
}
/// `Spec.crossErr x o` by its case form (theorem datetime_diff_vs_line)
fn spec_cross_err(x: (i64, u32, u32), o: (i64, u32, u32)) -> i128 {
    if (o.2 as i128) < NS {
        0
    } else if o.0 < x.0 && x.1 <= o.1 {
        -NS
    } else if x.0 < o.0 && o.1 < x.1 {
        NS
    } else {
        0
    }
}

/// same list, same order as `boundaryNs` in lean/Chrono/Drv/Time.lean
fn boundary_ns(secs: u32, frac: u32, ns_max: i128, ns_min: i128) -> Vec<i128> {
    let pos = secs as i128 * NS + frac as i128;
    let f = frac as i128;
    let mut v = vec![0];
    for x in [1, 999_999_999, NS, NS + 1, 500_000_000, 1_999_999_999, 2 * NS, 60 * NS, 61 * NS, DAY, DAY - 1, DAY + 1, DAY - NS, 2 * DAY] {
        v.push(x);
        v.push(-x);
    }
    v.extend([ns_max, ns_min, ns_max - 1, ns_min + 1]);
    v.extend([-f - 1, -f, -f + 1, NS - f - 1, NS - f, NS - f + 1, 2 * NS - f - 1, 2 * NS - f, 2 * NS - f + 1, -f - NS - 1, -f - NS, -f - NS + 1]);
    v.extend([DAY - pos - 1, DAY - pos, DAY - pos + 1, DAY - pos + NS, -pos - 1, -pos, -pos + 1]);
    v
}
/// (audit2 L3) the operand-relative boundaries (reach :60.0 / :61.0, start of the second, previous second, each ±1 ns)
/// combined with ±1 and ±2 whole days; same list, same order as `dayBoundaryDeltas` in lean/Chrono/Drv/Time.lean
fn day_boundary_ns(frac: u32) -> Vec<i128> {
    let f = frac as i128;
    let mut v = vec![];
    for k in [-2i128, -1, 1, 2] {
        for b in [NS - f, 2 * NS - f, -f, -f - NS] {
            for e in [-1i128, 0, 1] {
                v.push(k * DAY + b + e);
            }
        }
    }
    v
}
/// (audit2 M2) the std Duration seconds run on every second with a leap operand; same list, same order as `stdSecs`
const STD_SECS: [u64; 14] = [86_399, 86_400, 86_401, 172_799, 172_800, 172_801, 259_199, 259_200, 259_201, 86_399_999, 86_400_000, 86_400_001, u64::MAX, i64::MAX as u64 + 1];
fn mix(m: i128, h: i128, x: i128) -> i128 {
    (h * m + x.rem_euclid(P)).rem_euclid(P)
}
fn mix_tc(h: (i128, i128), r: &Result<(NaiveTime, i64), ()>) -> (i128, i128) {
    match r {
        Err(()) => (mix(48271, h.0, -1), mix(69621, h.1, -1)),
        Ok((t, c)) => {
            let (s, f) = raw(t);
            let (s, f, c) = (s as i128, f as i128, *c as i128);
            (mix(48271, mix(48271, mix(48271, h.0, s), f), c), mix(69621, mix(69621, mix(69621, h.1, s), f), c))
        }
    }
}

/// oracle failures are capped per kind so that a broken build does not write millions of lines
struct Fails(BTreeMap<String, u32>);
impl Fails {
    fn hit(&mut self, c: &mut Ctx, what: &str, detail: &str) {
        let n = self.0.entry(what.to_string()).or_insert(0);
        *n += 1;
        if *n <= 8 {
            c.fail(what, detail);
        }
    }
}

struct Tally(BTreeMap<&'static str, u64>);
impl Tally {
    fn add(&mut self, k: &'static str) {
        *self.0.entry(k).or_insert(0) += 1;
    }
}

/// all oracles for one (time, duration) addition; returns the implementation's add and sub results
fn check_add(
    c: &mut Ctx, fl: &mut Fails, tl: &mut Tally, secs: u32, frac: u32, dn: i128,
) -> (Result<(NaiveTime, i64), ()>, Result<(NaiveTime, i64), ()>) {
    let t = mk(secs, frac);
    let d = td_of_ns(dn);
    let add = guard(|| t.overflowing_add_signed(d));
    let sub = guard(|| t.overflowing_sub_signed(d));
    let (ds, df) = td_raw_of_ns(dn);
    let desc = || format!("tm.add {secs} {frac} {ds} {df}");
    // branch / class tally (derived from the inputs, so that a thin slice cannot hide)
    let leap = frac as i128 >= NS;
    let l = (secs as i128 + 1) * NS;
    let p = secs as i128 * NS + frac as i128 + dn;
    tl.add(if !leap {
        "add:operand-nonleap"
    } else if l <= p && p < l + NS {
        "add:leap-stays-inside"
    } else if p >= l + NS {
        "add:leap-left-forwards(second skipped)"
    } else {
        "add:leap-left-backwards"
    });
    if leap && (p == l || p == l - 1) {
        tl.add("add:leap-exactly-at-:60.0-or-1ns-before");
    }
    if leap && (p == l + NS || p == l + NS - 1) {
        tl.add("add:leap-exactly-at-:61.0-or-1ns-before");
    }
    if !leap && (p == l || p == l - 1) {
        tl.add("add:nonleap-exactly-reaching-next-second-or-1ns-before");
    }
    if dn < 0 && dn.rem_euclid(NS) != 0 {
        tl.add("add:negative-fractional-step");
    }
    match &add {
        Ok((r, carry)) => {
            let (rs, rf) = raw(r);
            let exp = spec_add(secs, frac, dn);
            tl.add(if *carry < 0 { "add:carry-negative" } else if *carry == 0 { "add:carry-zero" } else { "add:carry-positive" });
            if (rs, rf, *carry as i128) != exp {
                fl.hit(c, "overflowing_add_signed differs from the documented leap-second rules (extended-line closed form)",
                    &format!("{} -> {rs} {rf} {carry}, expected {} {} {}", desc(), exp.0, exp.1, exp.2));
            }
            if carry % 86_400 != 0 {
                fl.hit(c, "overflowing_add_signed: carry is not a whole number of days", &format!("{} -> carry {carry}", desc()));
            }
            if rs >= 86_400 || rf >= 2_000_000_000 || (!leap && rf >= 1_000_000_000) {
                fl.hit(c, "overflowing_add_signed built an invalid time (or a leap second out of nothing)", &format!("{} -> {rs} {rf}", desc()));
            }
            // the difference rules against the addition rules (theorems diff_inverts_add_same_day / diff_after_add):
            // (t + d) - t, plus the carry, is d — up to the one-second term of a leap operand left across midnight
            match guard(|| r.signed_duration_since(t)) {
                Ok(x) => {
                    let err = if *carry == 0 { 0 } else { spec_diff_add_err(secs, frac, dn) };
                    if td_ns(&x) + *carry as i128 * NS != dn + err {
                        fl.hit(c, "(t + d) - t plus the carry is not d (difference rules inconsistent with the addition rules)",
                            &format!("{} -> {rs} {rf} {carry}; difference back {} ns, expected error term {err}", desc(), td_ns(&x)));
                    }
                    if err != 0 {
                        tl.add("add:(t+d)-t off by one second (leap operand left across midnight, time of day)");
                    }
                }
                Err(()) => fl.hit(c, "signed_duration_since panicked", &desc()),
            }
        }
        Err(()) => fl.hit(c, "overflowing_add_signed panicked", &desc()),
    }
    // subtraction = addition of the negated duration (negation done here, in i128)
    let neg = guard(|| t.overflowing_add_signed(td_of_ns(-dn)));
    match (&sub, &neg) {
        (Ok((a, ca)), Ok((b, cb))) => {
            if raw(a) != raw(b) || *ca as i128 != -(*cb as i128) {
                fl.hit(c, "overflowing_sub_signed is not addition of the negated duration",
                    &format!("tm.sub {secs} {frac} {ds} {df} -> {} {ca}; add of negation -> {} {cb}", show_t(a), show_t(b)));
            }
        }
        _ => fl.hit(c, "overflowing_sub_signed / add of negation panicked", &desc()),
    }
    (add, sub)
}

fn show_tc(r: &Result<(NaiveTime, i64), ()>) -> String {
    match r {
        Ok((t, c)) => format!("{} {c}", show_t(t)),
        Err(()) => "panic".into(),
    }
}

fn gen_frac(c: &mut Ctx) -> u32 {
    match c.rng.below(4) {
        0 => *c.rng.pick(&FRAC_CLASSES),
        1 => c.rng.nanos(),
        2 => 1_000_000_000 + c.rng.nanos(),
        _ => *c.rng.pick(&[0u32, 1, 2, 499_999_999, 500_000_000, 999_999_998, 999_999_999, 1_000_000_000, 1_000_000_001, 1_999_999_998, 1_999_999_999]),
    }
}
fn gen_secs(c: &mut Ctx) -> u32 {
    match c.rng.below(4) {
        0 => *c.rng.pick(&[0u32, 1, 58, 59, 60, 61, 3599, 3600, 3601, 43199, 43200, 86339, 86340, 86398, 86399]),
        1 => (c.rng.below(1440) * 60 + *c.rng.pick(&[0u64, 1, 58, 59])) as u32,
        _ => c.rng.below(86_400) as u32,
    }
}
/// a duration in ns: anything from 1 ns to the full TimeDelta range, both signs
fn gen_delta_ns(c: &mut Ctx, ns_max: i128, ns_min: i128) -> i128 {
    let v = match c.rng.below(5) {
        0 => c.rng.log_i64() as i128,
        1 => c.rng.range(-200_000, 200_000) as i128 * NS + c.rng.range(-1, 1) as i128 * c.rng.below(1_000_000_000) as i128,
        2 => c.rng.log_i64() as i128 * NS + c.rng.below(1_000_000_000) as i128,
        3 => c.rng.range(-3, 3) as i128 * DAY + c.rng.range(-2, 2) as i128 * NS + c.rng.range(-2, 2) as i128,
        _ => c.rng.range(-2_000_000_000, 2_000_000_000) as i128,
    };
    v.clamp(ns_min, ns_max)
}

pub fn run(c: &mut Ctx) {
    crate::aliases::c07(c);
    let mut fl = Fails(BTreeMap::new());
    let mut tl = Tally(BTreeMap::new());
    let ns_max = td_ns(&TimeDelta::MAX);
    let ns_min = td_ns(&TimeDelta::MIN);
    let thorough = c.tier == Tier::Thorough;

    // ======== constructors: argument tuples at the u32 extremes and around every constant ======
    let hs: Vec<u32> = vec![0, 1, 11, 12, 23, 24, 25, 255, 256, 1_193_046, 1_193_047, u32::MAX / 3600, u32::MAX / 3600 + 1, i32::MAX as u32, u32::MAX - 1, u32::MAX];
    let ms: Vec<u32> = vec![0, 1, 58, 59, 60, 61, 71_582_788, 71_582_789, i32::MAX as u32, u32::MAX];
    let ss: Vec<u32> = vec![0, 1, 58, 59, 60, 61, 119, i32::MAX as u32, u32::MAX];
    let nn: Vec<u32> = vec![
        0, 1, 999_999_998, 999_999_999, 1_000_000_000, 1_000_000_001, 1_500_000_000, 1_999_999_999, 2_000_000_000, 2_000_000_001,
        i32::MAX as u32, i32::MAX as u32 + 1, u32::MAX - 1, u32::MAX,
    ];
    let accept = |h: u32, m: u32, s: u32, n: u64| h < 24 && m < 60 && s < 60 && (n < 1_000_000_000 || (s == 59 && n < 2_000_000_000));
    let ctor_case = |c: &mut Ctx, fl: &mut Fails, tl: &mut Tally, h: u32, m: u32, s: u32, n: u32| {
        let got = guard(|| NaiveTime::from_hms_nano_opt(h, m, s, n));
        c.op(&format!("tm.hmsn {h} {m} {s} {n}"), &match &got { Ok(o) => show_ot(*o), Err(()) => "panic".into() });
        let want = accept(h, m, s, n as u64);
        tl.add(if want { if n >= 1_000_000_000 { "ctor:accepted-leap" } else { "ctor:accepted" } } else { "ctor:rejected" });
        match got {
            Ok(Some(t)) => {
                if !want || raw(&t) != (h * 3600 + m * 60 + s, n) || (t.hour(), t.minute(), t.second(), t.nanosecond()) != (h, m, s, n) {
                    fl.hit(c, "from_hms_nano_opt accepted an invalid tuple or built the wrong time", &format!("tm.hmsn {h} {m} {s} {n} -> {}", show_t(&t)));
                }
            }
            Ok(None) => {
                if want {
                    fl.hit(c, "from_hms_nano_opt rejected a valid tuple", &format!("tm.hmsn {h} {m} {s} {n}"));
                }
            }
            Err(()) => fl.hit(c, "from_hms_nano_opt panicked", &format!("tm.hmsn {h} {m} {s} {n}")),
        }
    };
    for &h in &hs {
        for &m in &ms {
            for &s in &ss {
                for &n in &nn {
                    ctor_case(c, &mut fl, &mut tl, h, m, s, n);
                }
            }
        }
    }
    let n_ctor = c.n(20_000, 400_000);
    for _ in 0..n_ctor {
        // mostly valid, each field pushed over its limit now and then
        let h = if c.rng.chance(1, 8) { *c.rng.pick(&hs) } else { c.rng.below(24) as u32 };
        let m = if c.rng.chance(1, 8) { *c.rng.pick(&ms) } else { c.rng.below(60) as u32 };
        let s = if c.rng.chance(1, 8) { *c.rng.pick(&ss) } else if c.rng.chance(1, 3) { 59 } else { c.rng.below(60) as u32 };
        let n = if c.rng.chance(1, 8) { *c.rng.pick(&nn) } else { gen_frac(c) };
        ctor_case(c, &mut fl, &mut tl, h, m, s, n);
        match c.rng.below(4) {
            0 => {
                c.op(&format!("tm.hms {h} {m} {s}"), &gs(|| NaiveTime::from_hms_opt(h, m, s), show_ot));
                if let Ok(o) = guard(|| NaiveTime::from_hms_opt(h, m, s)) {
                    if o.is_some() != accept(h, m, s, 0) {
                        fl.hit(c, "from_hms_opt acceptance differs from the rule", &format!("tm.hms {h} {m} {s}"));
                    }
                }
            }
            1 => {
                let x: u32 = match c.rng.below(3) {
                    0 => *c.rng.pick(&[0u32, 1, 999, 1000, 1001, 1999, 2000, 2001, 4294, 4295, 4296, 6294, 6295, u32::MAX / 1_000_000, u32::MAX, u32::MAX - 1, 1 << 31]),
                    1 => c.rng.below(2100) as u32,
                    _ => c.rng.next() as u32,
                };
                c.op(&format!("tm.milli {h} {m} {s} {x}"), &gs(|| NaiveTime::from_hms_milli_opt(h, m, s, x), show_ot));
                if let Ok(o) = guard(|| NaiveTime::from_hms_milli_opt(h, m, s, x)) {
                    let want = accept(h, m, s, x as u64 * 1_000_000);
                    if o.is_some() != want || o.map(|t| t.nanosecond() as u64 != x as u64 * 1_000_000).unwrap_or(false) {
                        fl.hit(c, "from_hms_milli_opt acceptance/value differs from the rule", &format!("tm.milli {h} {m} {s} {x}"));
                    }
                }
            }
            2 => {
                let x: u32 = match c.rng.below(3) {
                    0 => *c.rng.pick(&[0u32, 1, 999_999, 1_000_000, 1_000_001, 1_999_999, 2_000_000, 2_000_001, 4_294_967, 4_294_968, 6_294_967, 6_294_968, u32::MAX, u32::MAX - 1, 1 << 31]),
                    1 => c.rng.below(2_100_000) as u32,
                    _ => c.rng.next() as u32,
                };
                c.op(&format!("tm.micro {h} {m} {s} {x}"), &gs(|| NaiveTime::from_hms_micro_opt(h, m, s, x), show_ot));
                if let Ok(o) = guard(|| NaiveTime::from_hms_micro_opt(h, m, s, x)) {
                    let want = accept(h, m, s, x as u64 * 1000);
                    if o.is_some() != want || o.map(|t| t.nanosecond() as u64 != x as u64 * 1000).unwrap_or(false) {
                        fl.hit(c, "from_hms_micro_opt acceptance/value differs from the rule", &format!("tm.micro {h} {m} {s} {x}"));
                    }
                }
            }
            _ => {
                let secs: u32 = match c.rng.below(3) {
                    0 => *c.rng.pick(&[0u32, 58, 59, 60, 119, 86_339, 86_398, 86_399, 86_400, 86_401, 86_459, u32::MAX, u32::MAX - 36, i32::MAX as u32]),
                    1 => gen_secs(c),
                    _ => (c.rng.below(1441) * 60 + 59) as u32,
                };
                c.op(&format!("tm.nsfm {secs} {n}"), &gs(|| NaiveTime::from_num_seconds_from_midnight_opt(secs, n), show_ot));
                if let Ok(o) = guard(|| NaiveTime::from_num_seconds_from_midnight_opt(secs, n)) {
                    let want = secs < 86_400 && (n < 1_000_000_000 || (secs % 60 == 59 && n < 2_000_000_000));
                    if o.is_some() != want || o.map(|t| raw(&t) != (secs, n)).unwrap_or(false) {
                        fl.hit(c, "from_num_seconds_from_midnight_opt acceptance/value differs from the rule", &format!("tm.nsfm {secs} {n}"));
                    }
                }
            }
        }
    }

    // ======== NaiveTime::MIN; the audit-G1 witnesses on the real crate ===========================
    {
        c.op("tmo.min", &show_t(&NaiveTime::MIN));
        if raw(&NaiveTime::MIN) != (0, 0) || NaiveTime::MIN != NaiveTime::from_hms_opt(0, 0, 0).unwrap() {
            fl.hit(&mut *c, "NaiveTime::MIN is not 00:00:00", &show_t(&NaiveTime::MIN));
        }
        let d31 = NaiveDate::from_ymd_opt(2016, 12, 31).unwrap();
        let d01 = NaiveDate::from_ymd_opt(2017, 1, 1).unwrap();
        // (a, duration in ns): leap second at the end of a day + 0.5 s, + 1 day; leap representation after 00:00:00 - 2 s
        for (a, dn) in [
            (NaiveDateTime::new(d31, mk(86_399, 1_500_000_000)), 500_000_000i128),
            (NaiveDateTime::new(d31, mk(86_399, 1_500_000_000)), DAY),
            (NaiveDateTime::new(d01, mk(0, 1_500_000_000)), -2 * NS),
            (NaiveDateTime::new(d31, mk(86_399, 1_500_000_000)), -3600 * NS),
        ] {
            let (ts, frac) = raw(&a.time());
            let (ds, df) = td_raw_of_ns(dn);
            let got = guard(|| a.checked_add_signed(td_of_ns(dn)));
            c.op(&format!("ar.dtadd {} {ts} {frac} {ds} {df}", yof(&a.date())), &match &got { Ok(o) => show_packed(*o), Err(()) => "panic".into() });
            if let Ok(Some(b)) = got {
                let back = guard(|| b.signed_duration_since(a));
                c.op(&format!("ar.dtdiff {} {} {} {ts} {frac}", yof(&b.date()), show_t(&b.time()), yof(&a.date())), &match &back { Ok(x) => show_td(x), Err(()) => "panic".into() });
                let err = spec_diff_add_err(ts, frac, dn);
                match back {
                    Ok(x) if td_ns(&x) == dn + err => {
                        tl.add(if err != 0 { "observation:G1 witness: (a+d)-a differs from d by one second" } else { "dt:G1 control: (a+d)-a = d" });
                        c.sample(&format!("{a:?} + {dn} ns = {b:?}; difference back = {} ns (cmp {:?})", td_ns(&x), b.cmp(&a)));
                    }
                    Ok(x) => fl.hit(&mut *c, "date-time difference after addition is not the duration plus the one-second error term of a leap operand left across midnight",
                        &format!("{a:?} + {dn} ns = {b:?}; difference back {} ns, expected {dn} + {err}", td_ns(&x))),
                    Err(()) => fl.hit(&mut *c, "date-time difference after addition panicked", &format!("{a:?} + {dn} ns")),
                }
            } else {
                fl.hit(&mut *c, "date-time addition refused or panicked on an audit-G1 witness", &format!("{a:?} + {dn} ns"));
            }
        }
    }

    // ======== the sweep over all 86 400 seconds ===============================================
    let lo_day = NaiveDate::MIN.num_days_from_ce() as i64;
    let hi_day = NaiveDate::MAX.num_days_from_ce() as i64;
    let mid = NaiveDate::from_ymd_opt(2015, 6, 30).unwrap();
    let with_vals: Vec<u32> = vec![0, 1, 11, 12, 23, 24, 25, 58, 59, 60, 61, 1_193_046, 71_582_788, 71_582_789, i32::MAX as u32, u32::MAX];
    let n_diff_per_sec = c.n(3, 24);
    let n_addx_per_sec = c.n(1, 6);
    // ======== (audit2 L3) date-time differences spanning the whole range (both `expect`s of signed_duration_since) ====
    {
        let dates = [NaiveDate::MIN, NaiveDate::MIN + chrono::Days::new(1), mid, NaiveDate::MAX - chrono::Days::new(1), NaiveDate::MAX];
        let times: [(u32, u32); 7] = [(0, 0), (0, 1_000_000_000), (0, 1_999_999_999), (43_200, 500_000_000), (86_399, 999_999_999), (86_399, 1_000_000_000), (86_399, 1_999_999_999)];
        for da in dates {
            for ta in times {
                for db in dates {
                    for tb in times {
                        let (a, b) = (NaiveDateTime::new(da, mk(ta.0, ta.1)), NaiveDateTime::new(db, mk(tb.0, tb.1)));
                        let (day, day2) = (da.num_days_from_ce() as i64, db.num_days_from_ce() as i64);
                        let got = guard(|| a.signed_duration_since(b));
                        let line = format!("{} {} {} {} {} {}", yof(&da), ta.0, ta.1, yof(&db), tb.0, tb.1);
                        c.op(&format!("ar.dtdiff {line}"), &match &got { Ok(x) => show_td(x), Err(()) => "panic".into() });
                        c.op(&format!("tm.dtdiff {day} {} {} {day2} {} {}", ta.0, ta.1, tb.0, tb.1), &match &got { Ok(x) => show_td(x), Err(()) => "panic".into() });
                        tl.add("dtdiff:range-spanning fixed pair");
                        match (&got, guard(|| b.signed_duration_since(a)), guard(|| a - b)) {
                            (Ok(x), Ok(y), Ok(z)) => {
                                if td_ns(x) != -td_ns(&y) || *x != z || td_ns(x) != (day - day2) as i128 * DAY + spec_diff(ta, tb) {
                                    fl.hit(c, "range-spanning date-time difference is not antisymmetric / not days + time-of-day difference / differs from the `-` operator", &format!("ar.dtdiff {line} -> {}", show_td(x)));
                                }
                            }
                            _ => fl.hit(c, "range-spanning date-time difference panicked (an `expect` of signed_duration_since fired)", &format!("ar.dtdiff {line}")),
                        }
                    }
                }
            }
        }
    }
    for secs in 0u32..86_400 {
        // ---- digest lines: every boundary duration, add and sub ---------------------------------
        let near = matches!(secs % 60, 0 | 1 | 58 | 59) || secs < 120 || secs >= 86_280;
        let mut fracs: Vec<u32> = if thorough || near {
            FRAC_CLASSES.to_vec()
        } else {
            // quick: one non-leap and two leap classes per ordinary second, rotating
            let (a, b) = ((secs % 3) as usize, ((secs / 3) % 3) as usize);
            vec![FRAC_CLASSES[a], FRAC_CLASSES[3 + b], FRAC_CLASSES[3 + (b + 1) % 3]]
        };
        if thorough {
            fracs.push(c.rng.nanos());
            fracs.push(1_000_000_000 + c.rng.nanos());
        }
        for &frac in &fracs {
            let mut h = (1i128, 1i128);
            for dn in boundary_ns(secs, frac, ns_max, ns_min) {
                let (add, sub) = check_add(c, &mut fl, &mut tl, secs, frac, dn);
                h = mix_tc(mix_tc(h, &add), &sub);
            }
            c.op(&format!("tm.addb {secs} {frac}"), &format!("{} {}", h.0, h.1));
        }
        // ---- (audit2 L3 / M2) per second: the operand-relative boundaries combined with whole days, and the fixed
        // std Duration list on a leap-second operand — NOT gated on `secs % 8` ------------------------------------
        {
            let sel: Vec<u32> = if thorough {
                fracs.clone()
            } else {
                // quick: one leap class on every second (rotating), a non-leap class next to minute / day boundaries
                let mut v = vec![FRAC_CLASSES[3 + (secs % 3) as usize]];
                if near {
                    v.push(FRAC_CLASSES[((secs / 2) % 3) as usize]);
                }
                v
            };
            for &frac in &sel {
                let mut h = (1i128, 1i128);
                for dn in day_boundary_ns(frac) {
                    let (add, sub) = check_add(c, &mut fl, &mut tl, secs, frac, dn);
                    h = mix_tc(mix_tc(h, &add), &sub);
                }
                c.op(&format!("tm.addk {secs} {frac}"), &format!("{} {}", h.0, h.1));
                tl.add(if (frac as i128) >= NS { "addk:whole days + operand-relative boundary, leap operand" } else { "addk:whole days + operand-relative boundary, non-leap operand" });
                if (frac as i128) < NS {
                    continue;
                }
                let t = mk(secs, frac);
                let df = [0u32, 1, 500_000_000, 999_999_999][((secs / 3) % 4) as usize];
                let mut h = (1i128, 1i128);
                for ds in STD_SECS {
                    let dur = Duration::new(ds, df);
                    let dn = ds as i128 * NS + df as i128;
                    let (x, x2) = (guard(|| t + dur), guard(|| t - dur));
                    let (e, e2) = (spec_add(secs, frac, dn), spec_add(secs, frac, -dn));
                    match (&x, &x2) {
                        (Ok(a), Ok(b)) => {
                            if raw(a) != (e.0, e.1) || raw(b) != (e2.0, e2.1) {
                                fl.hit(c, "NaiveTime +/- std Duration on a leap-second operand is not the extended-line sum with the full amount (fixed list k days, k days +- 1 s, u64 extremes)",
                                    &format!("tm.addstd/substd {secs} {frac} {ds} {df} -> {} / {}, expected {} {} / {} {}", show_t(a), show_t(b), e.0, e.1, e2.0, e2.1));
                            }
                        }
                        _ => fl.hit(c, "NaiveTime +/- std Duration on a leap-second operand panicked (fixed list)", &format!("tm.addstd {secs} {frac} {ds} {df}")),
                    }
                    h = mix_tc(mix_tc(h, &x.map(|t| (t, 0i64))), &x2.map(|t| (t, 0i64)));
                    tl.add("std:fixed list (k days, k days +- 1 s, u64 extremes) on a leap operand, every second");
                }
                c.op(&format!("tm.stdb {secs} {frac} {df}"), &format!("{} {}", h.0, h.1));
            }
        }
        // ---- explicit additions (pinpointed on disagreement) ------------------------------------
        for k in 0..n_addx_per_sec {
            let frac = if k == 0 { FRAC_CLASSES[(secs % 6) as usize] } else { gen_frac(c) };
            let s2 = if k == 0 { secs } else { gen_secs(c) };
            let dn = if c.rng.chance(1, 2) {
                *c.rng.pick(&boundary_ns(s2, frac, ns_max, ns_min))
            } else {
                gen_delta_ns(c, ns_max, ns_min)
            };
            let (add, sub) = check_add(c, &mut fl, &mut tl, s2, frac, dn);
            let (ds, df) = td_raw_of_ns(dn);
            c.op(&format!("tm.add {s2} {frac} {ds} {df}"), &show_tc(&add));
            c.op(&format!("tm.sub {s2} {frac} {ds} {df}"), &show_tc(&sub));
            if secs % 8640 == 0 && k == 0 {
                c.sample(&format!("tm.add {s2} {frac} {ds} {df} -> {}", show_tc(&add)));
            }
        }
        // ---- operator forms + - += -= with TimeDelta: wrap around, never panic -------------------------
        {
            let frac = gen_frac(c);
            let dn = if c.rng.chance(1, 2) { *c.rng.pick(&boundary_ns(secs, frac, ns_max, ns_min)) } else { gen_delta_ns(c, ns_max, ns_min) };
            let t = mk(secs, frac);
            let d = td_of_ns(dn);
            let (ds, df) = td_raw_of_ns(dn);
            let forms: [(&str, Result<NaiveTime, ()>, i128); 2] = if secs % 2 == 0 {
                [("+", guard(|| t + d), dn), ("-=", guard(|| { let mut m = t; m -= d; m }), -dn)]
            } else {
                [("-", guard(|| t - d), -dn), ("+=", guard(|| { let mut m = t; m += d; m }), dn)]
            };
            for (w, got, eff) in forms {
                c.op(&format!("tmo.td {w} {secs} {frac} {ds} {df}"), &match &got { Ok(x) => show_t(x), Err(()) => "panic".into() });
                tl.add(if (frac as i128) >= NS { "op:TimeDelta operator form, leap operand" } else { "op:TimeDelta operator form, non-leap operand" });
                match got {
                    Ok(x) => {
                        let e = spec_add(secs, frac, eff);
                        if raw(&x) != (e.0, e.1) {
                            fl.hit(c, "NaiveTime operator with TimeDelta is not the time of the extended-line sum (wrap around, carry dropped)",
                                &format!("tmo.td {w} {secs} {frac} {ds} {df} -> {}, expected {} {}", show_t(&x), e.0, e.1));
                        }
                        let o = if eff == dn && w != "-" && w != "-=" { guard(|| t.overflowing_add_signed(d).0) } else { guard(|| t.overflowing_sub_signed(d).0) };
                        if o != Ok(x) {
                            fl.hit(c, "NaiveTime operator with TimeDelta differs from the overflowing_* form", &format!("tmo.td {w} {secs} {frac} {ds} {df} -> {}", show_t(&x)));
                        }
                    }
                    Err(()) => fl.hit(c, "NaiveTime operator with TimeDelta panicked (must wrap around)", &format!("tmo.td {w} {secs} {frac} {ds} {df}")),
                }
            }
        }
        // ---- accessors ---------------------------------------------------------------------------
        {
            let frac = if secs % 60 == 59 && secs % 120 == 59 { 1_000_000_000 + c.rng.nanos() } else { gen_frac(c) };
            let t = mk(secs, frac);
            let got = gs(
                // NaiveDateTime does not override num_seconds_from_midnight: that call runs the trait default
                || (t.hour(), t.minute(), t.second(), t.nanosecond(), t.num_seconds_from_midnight(), t.hour12(), NaiveDateTime::new(mid, t).num_seconds_from_midnight()),
                |x| format!("{} {} {} {} {} {} {} {}", x.0, x.1, x.2, x.3, x.4, x.6, b01(x.5 .0), x.5 .1),
            );
            c.op(&format!("tm.acc {secs} {frac}"), &got);
            if let Ok((h, m, s, n)) = guard(|| (t.hour(), t.minute(), t.second(), t.nanosecond())) {
                if h >= 24 || m >= 60 || s >= 60 || h * 3600 + m * 60 + s != secs || n != frac {
                    fl.hit(c, "accessors do not return the fields of the time", &format!("tm.acc {secs} {frac} -> {h} {m} {s} {n}"));
                }
                if let Ok((pm, h12)) = guard(|| t.hour12()) {
                    if pm != (h >= 12) || !(1..=12).contains(&h12) || h12 % 12 != h % 12 {
                        fl.hit(c, "hour12 is wrong", &format!("tm.acc {secs} {frac} -> {pm} {h12}"));
                    }
                }
            }
            // ---- single-field replacement --------------------------------------------------------
            let field = ["hour", "minute", "second", "nano"][(secs % 4) as usize];
            let v: u32 = if field == "nano" {
                if c.rng.chance(1, 2) { *c.rng.pick(&nn) } else { gen_frac(c) }
            } else if c.rng.chance(1, 2) {
                *c.rng.pick(&with_vals)
            } else {
                c.rng.below(62) as u32
            };
            let got = guard(|| match field {
                "hour" => t.with_hour(v),
                "minute" => t.with_minute(v),
                "second" => t.with_second(v),
                _ => t.with_nanosecond(v),
            });
            c.op(&format!("tm.with {secs} {frac} {field} {v}"), &match &got { Ok(o) => show_ot(*o), Err(()) => "panic".into() });
            let (h0, m0, s0) = (secs / 3600, secs / 60 % 60, secs % 60);
            let want: Option<(u32, u32, u32, u32)> = match field {
                "hour" => (v < 24).then_some((v, m0, s0, frac)),
                "minute" => (v < 60).then_some((h0, v, s0, frac)),
                "second" => (v < 60).then_some((h0, m0, v, frac)),
                _ => (v < 2_000_000_000).then_some((h0, m0, s0, v)),
            };
            tl.add(if want.is_some() { "with:accepted" } else { "with:rejected" });
            match got {
                Ok(o) => {
                    if o.map(|t| (t.hour(), t.minute(), t.second(), t.nanosecond())) != want {
                        fl.hit(c, "single-field replacement changed another field or accepted/rejected wrongly", &format!("tm.with {secs} {frac} {field} {v} -> {}", show_ot(o)));
                    }
                }
                Err(()) => fl.hit(c, "single-field replacement panicked", &format!("tm.with {secs} {frac} {field} {v}")),
            }
        }
        // ---- differences -------------------------------------------------------------------------
        for k in 0..n_diff_per_sec {
            let fa = gen_frac(c);
            let fb = gen_frac(c);
            let sb: u32 = match (k + c.rng.below(3) as usize) % 6 {
                0 => secs,
                1 => (secs + 1).min(86_399),
                2 => secs.saturating_sub(1),
                3 => *c.rng.pick(&[0u32, 59, 86_399, 86_340]),
                _ => gen_secs(c),
            };
            let (a, b) = (mk(secs, fa), mk(sb, fb));
            let ab = guard(|| a.signed_duration_since(b));
            let ba = guard(|| b.signed_duration_since(a));
            c.op(&format!("tm.diff {secs} {fa} {sb} {fb}"), &match &ab { Ok(d) => show_td(d), Err(()) => "panic".into() });
            if k == 0 {
                // `impl Sub<NaiveTime> for NaiveTime`
                let opd = guard(|| a - b);
                c.op(&format!("tmo.tsub {secs} {fa} {sb} {fb}"), &match &opd { Ok(d) => show_td(d), Err(()) => "panic".into() });
                match opd {
                    Ok(d) => {
                        if td_ns(&d) != spec_diff((secs, fa), (sb, fb)) {
                            fl.hit(c, "NaiveTime - NaiveTime is not the distance on the line holding the operands' leap seconds", &format!("tmo.tsub {secs} {fa} {sb} {fb} -> {} ns", td_ns(&d)));
                        }
                    }
                    Err(()) => fl.hit(c, "NaiveTime - NaiveTime panicked", &format!("tmo.tsub {secs} {fa} {sb} {fb}")),
                }
                c.op(&format!("tm.cmp {secs} {fa} {sb} {fb}"), &gs(|| a.cmp(&b) as i32, |x| x.to_string()));
                if guard(|| a.cmp(&b) as i32) != Ok(spec_diff((secs, fa), (sb, fb)).signum() as i32) {
                    fl.hit(c, "derived order disagrees with the sign of the difference", &format!("tm.cmp {secs} {fa} {sb} {fb}"));
                }
            }
            tl.add(match ((fa as i128) >= NS, (fb as i128) >= NS) {
                (false, false) => "diff:no-leap",
                (true, false) => "diff:lhs-leap",
                (false, true) => "diff:rhs-leap",
                (true, true) => "diff:both-leap",
            });
            tl.add(if secs == sb { "diff:same-second" } else if secs > sb { "diff:lhs-later" } else { "diff:lhs-earlier" });
            match (&ab, &ba) {
                (Ok(x), Ok(y)) => {
                    if td_ns(x) != -td_ns(y) {
                        fl.hit(c, "signed_duration_since is not antisymmetric", &format!("tm.diff {secs} {fa} {sb} {fb} -> {} vs reverse {}", show_td(x), show_td(y)));
                    }
                    let exp = spec_diff((secs, fa), (sb, fb));
                    if td_ns(x) != exp {
                        fl.hit(c, "signed_duration_since is not the distance on the line holding the operands' leap seconds", &format!("tm.diff {secs} {fa} {sb} {fb} -> {} ns, expected {exp}", td_ns(x)));
                    }
                }
                _ => fl.hit(c, "signed_duration_since panicked", &format!("tm.diff {secs} {fa} {sb} {fb}")),
            }
        }
        // ---- offset shifts: every offset in (-86400, 86400) once as add and once as sub ---------
        {
            let offs = [secs as i32 - 86_399, secs as i32];
            for (i, &off) in offs.iter().enumerate() {
                let is_add = (secs as usize + i) % 2 == 0;
                // operand placed so that the shifted value lands on / next to a day boundary
                let eff = if is_add { off } else { -off };
                let target: i32 = *c.rng.pick(&[-1, 0, 1, 86_399, 86_400, 86_401, 43_200]);
                let ts = if c.rng.chance(1, 3) { gen_secs(c) } else { (target - eff).rem_euclid(86_400) as u32 };
                let frac = gen_frac(c);
                let t = mk(ts, frac);
                let fo = FixedOffset::east_opt(off).unwrap();
                let got = guard(|| {
                    let dt = NaiveDateTime::new(mid, t);
                    let r = if is_add { dt.checked_add_offset(fo) } else { dt.checked_sub_offset(fo) }.unwrap();
                    let t2 = if is_add { t + fo } else { t - fo };
                    (r.time(), (r.date() - mid).num_days(), t2)
                });
                let name = if is_add { "tm.off" } else { "tm.offsub" };
                c.op(&format!("{name} {ts} {frac} {off}"), &match &got { Ok((t, d, _)) => format!("{} {d}", show_t(t)), Err(()) => "panic".into() });
                // `impl Add/Sub<FixedOffset> for NaiveTime`
                c.op(&format!("tmo.off {} {ts} {frac} {off}", if is_add { "+" } else { "-" }), &match &got { Ok((_, _, t2)) => show_t(t2), Err(()) => "panic".into() });
                match got {
                    Ok((r, days, t2)) => {
                        let total = ts as i64 + eff as i64;
                        tl.add(match days { -1 => "off:day-1", 0 => "off:day0", 1 => "off:day+1", _ => "off:other" });
                        if raw(&r) != (total.rem_euclid(86_400) as u32, frac) || days != total.div_euclid(86_400) || r != t2 {
                            fl.hit(c, "offset shift changed the fraction or moved by the wrong number of seconds/days", &format!("{name} {ts} {frac} {off} -> {} {days}", show_t(&r)));
                        }
                    }
                    Err(()) => fl.hit(c, "offset shift panicked", &format!("{name} {ts} {frac} {off}")),
                }
            }
        }
        // ---- offset shifts of LEAP-SECOND operands: every offset in (-86400, 86400), both directions ----
        {
            for (i, &off) in [secs as i32 - 86_399, secs as i32].iter().enumerate() {
                let fo = FixedOffset::east_opt(off).unwrap();
                for is_add in [true, false] {
                    let eff = if is_add { off } else { -off };
                    // 23:59:60.x (where a real leap second sits in UTC), or a leap representation placed so
                    // that the shifted value lands on / next to a day boundary
                    let ts: u32 = if (secs as usize + i + is_add as usize) % 2 == 0 {
                        86_399
                    } else {
                        (*c.rng.pick(&[-1i32, 0, 1, 86_399, 86_400, 86_401]) - eff).rem_euclid(86_400) as u32
                    };
                    let frac = 1_000_000_000 + if c.rng.chance(1, 2) { c.rng.nanos() } else { *c.rng.pick(&[0u32, 1, 500_000_000, 999_999_999]) };
                    let t = mk(ts, frac);
                    let got = guard(|| {
                        let dt = NaiveDateTime::new(mid, t);
                        let r = if is_add { dt.checked_add_offset(fo) } else { dt.checked_sub_offset(fo) }.unwrap();
                        let t2 = if is_add { t + fo } else { t - fo };
                        (r.time(), (r.date() - mid).num_days(), t2)
                    });
                    let name = if is_add { "tm.off" } else { "tm.offsub" };
                    // (the operator form `t ± fo` is judged by the oracle below; its op line `tmo.off` is sent in the block above)
                    c.op(&format!("{name} {ts} {frac} {off}"), &match &got { Ok((t, d, _)) => format!("{} {d}", show_t(t)), Err(()) => "panic".into() });
                    match got {
                        Ok((r, days, t2)) => {
                            let total = ts as i64 + eff as i64;
                            tl.add(match days { -1 => "off-leap:day-1", 0 => "off-leap:day0", 1 => "off-leap:day+1", _ => "off-leap:other" });
                            if raw(&r) != (total.rem_euclid(86_400) as u32, frac) || days != total.div_euclid(86_400) || r != t2 {
                                fl.hit(c, "offset shift of a leap second changed the fraction or moved by the wrong number of seconds/days", &format!("{name} {ts} {frac} {off} -> {} {days}", show_t(&r)));
                            }
                        }
                        Err(()) => fl.hit(c, "offset shift of a leap second panicked", &format!("{name} {ts} {frac} {off}")),
                    }
                }
            }
        }
        // ---- date-times: the carry is applied to the date ----------------------------------------
        // quick: additions on every third second (secs % 3 == 0), differences on every sixth (secs % 6 == 2)
        if thorough || secs % 3 == 0 || secs % 6 == 2 {
            let frac = gen_frac(c);
            let ts = if c.rng.chance(1, 2) { secs } else { gen_secs(c) };
            let t = mk(ts, frac);
            let date = match c.rng.below(8) {
                0 => NaiveDate::MIN + chrono::Days::new(c.rng.below(3)),
                1 => NaiveDate::MAX - chrono::Days::new(c.rng.below(3)),
                _ => mid + TimeDelta::try_days(c.rng.range(-800_000, 800_000)).unwrap(),
            };
            let day = date.num_days_from_ce() as i64;
            let dt = NaiveDateTime::new(date, t);
            let dn = if c.rng.chance(1, 6) {
                // whole days plus less than a second or two: the day part and the remainder may take different paths
                c.rng.range(-3, 3) as i128 * DAY + *c.rng.pick(&[0i128, 300_000_000, 500_000_000, -300_000_000, 999_999_999, 1_000_000_000, -1, 1, 1_700_000_000])
            } else if c.rng.chance(1, 2) {
                *c.rng.pick(&boundary_ns(ts, frac, ns_max, ns_min))
            } else {
                gen_delta_ns(c, ns_max, ns_min)
            };
            let d = td_of_ns(dn);
            let (ds, df) = td_raw_of_ns(dn);
            let show = |o: Option<NaiveDateTime>| match o {
                Some(r) => format!("{} {}", r.date().num_days_from_ce(), show_t(&r.time())),
                None => "none".into(),
            };
            match secs % 3 {
                0 | 1 => {
                    let is_add = c.rng.chance(1, 2);
                    let got = guard(|| if is_add { dt.checked_add_signed(d) } else { dt.checked_sub_signed(d) });
                    let name = if is_add { "tm.dtadd" } else { "tm.dtsub" };
                    c.op(&format!("{name} {lo_day} {hi_day} {day} {ts} {frac} {ds} {df}"), &match &got { Ok(o) => show(*o), Err(()) => "panic".into() });
                    // the same operation through the packed NaiveDateTime model
                    c.op(&format!("{} {} {ts} {frac} {ds} {df}", if is_add { "ar.dtadd" } else { "ar.dtsub" }, yof(&date)), &match &got { Ok(o) => show_packed(*o), Err(()) => "panic".into() });
                    tl.add(if (frac as i128) >= NS { "dt:packed-model,leap-operand" } else { "dt:packed-model,non-leap-operand" });
                    // oracle: time part and carry as for the time of day alone
                    let (es, ef, ec) = spec_add(ts, frac, if is_add { dn } else { -dn });
                    let eday = day as i128 + ec / 86_400;
                    let in_range = eday >= lo_day as i128 && eday <= hi_day as i128;
                    tl.add(if in_range { "dt:in-range" } else { "dt:out-of-range" });
                    match got {
                        Ok(Some(r)) => {
                            if !in_range || r.date().num_days_from_ce() as i128 != eday || raw(&r.time()) != (es, ef) {
                                fl.hit(c, "date-time with leap-second operand: carry not applied to the date as for the time of day", &format!("{name} {day} {ts} {frac} {ds} {df} -> {}", show(Some(r))));
                            }
                        }
                        Ok(None) => {
                            if in_range {
                                fl.hit(c, "date-time addition refused an in-range result", &format!("{name} {day} {ts} {frac} {ds} {df}"));
                            }
                        }
                        Err(()) => fl.hit(c, "date-time addition panicked", &format!("{name} {day} {ts} {frac} {ds} {df}")),
                    }
                    // (a ± d) − a: the duration, up to the one-second error term of a leap operand left across midnight
                    if let Ok(Some(r)) = got {
                        let eff = if is_add { dn } else { -dn };
                        let err = spec_diff_add_err(ts, frac, eff);
                        let back = guard(|| r.signed_duration_since(dt));
                        c.op(&format!("ar.dtdiff {} {} {} {ts} {frac}", yof(&r.date()), show_t(&r.time()), yof(&date)), &match &back { Ok(x) => show_td(x), Err(()) => "panic".into() });
                        match back {
                            Ok(x) => {
                                if td_ns(&x) != eff + err {
                                    fl.hit(c, "date-time difference after addition is not the duration plus the one-second error term of a leap operand left across midnight",
                                        &format!("{name} {day} {ts} {frac} {ds} {df} -> {}; difference back {} ns, expected {} + {err}", show(Some(r)), td_ns(&x), eff));
                                }
                                tl.add(if err != 0 {
                                    "observation:(a+d)-a differs from d by one second (leap-second operand left across midnight)"
                                } else if (frac as i128) >= NS {
                                    "dt:(a+d)-a = d, leap operand"
                                } else {
                                    "dt:(a+d)-a = d, non-leap operand"
                                });
                            }
                            Err(()) => fl.hit(c, "date-time difference after addition panicked", &format!("{name} {day} {ts} {frac} {ds} {df}")),
                        }
                    }
                    // (audit2 L2) the operator forms through the packed model (ar.dtopadd / ar.dtopsub / ar.dtstdadd / ar.dtstdsub),
                    // refusal side included: they must panic exactly when the checked form returns None
                    if let Ok(chk) = &got {
                        let opr = guard(|| if is_add { dt + d } else { dt - d });
                        let asg = guard(|| { let mut m = dt; if is_add { m += d } else { m -= d }; m });
                        let show_r = |r: &Result<NaiveDateTime, ()>| match r { Ok(x) => show_packed(Some(*x)), Err(()) => "panic".into() };
                        c.op(&format!("{} {} {ts} {frac} {ds} {df}", if is_add { "ar.dtopadd" } else { "ar.dtopsub" }, yof(&date)), &show_r(&opr));
                        let mut all: Vec<(&'static str, Result<NaiveDateTime, ()>)> = vec![("operator", opr), ("assign operator", asg)];
                        if let Ok(sd) = d.to_std() {
                            let so = guard(|| if is_add { dt + sd } else { dt - sd });
                            c.op(&format!("{} {} {ts} {frac} {} {}", if is_add { "ar.dtstdadd" } else { "ar.dtstdsub" }, yof(&date), sd.as_secs(), sd.subsec_nanos()), &show_r(&so));
                            all.push(("std Duration operator", so));
                            all.push(("std Duration assign operator", guard(|| { let mut m = dt; if is_add { m += sd } else { m -= sd }; m })));
                        }
                        for (how, v) in all {
                            match (chk, &v) {
                                (None, Err(())) => tl.add("dt:operator panics where the checked form refuses"),
                                (None, Ok(x)) => fl.hit(c, "date-time operator returned a value although the checked form refuses (must panic)", &format!("{how} {name} {day} {ts} {frac} {ds} {df} -> {}", show(Some(*x)))),
                                (Some(r), Ok(x)) if x == r => tl.add("dt:operator = checked form"),
                                (Some(r), _) => fl.hit(c, "date-time operator differs from the accepted checked form (or panicked)", &format!("{how} {name} {day} {ts} {frac} {ds} {df} -> {:?} (checked form {})", v, show(Some(*r)))),
                            }
                        }
                    }
                    // the operator and std::time::Duration forms are the checked form whenever it succeeds
                    if let Ok(Some(r)) = got {
                        let mut forms: Vec<(&'static str, Result<NaiveDateTime, ()>)> = vec![];
                        if is_add {
                            forms.push(("+", guard(|| dt + d)));
                            forms.push(("+=", guard(|| { let mut m = dt; m += d; m })));
                        } else {
                            forms.push(("-", guard(|| dt - d)));
                            forms.push(("-=", guard(|| { let mut m = dt; m -= d; m })));
                        }
                        if let Ok(sd) = d.to_std() {
                            if is_add {
                                forms.push(("+ std", guard(|| dt + sd)));
                                forms.push(("+= std", guard(|| { let mut m = dt; m += sd; m })));
                            } else {
                                forms.push(("- std", guard(|| dt - sd)));
                                forms.push(("-= std", guard(|| { let mut m = dt; m -= sd; m })));
                            }
                        }
                        for (how, v) in forms {
                            tl.add("dt:operator-forms");
                            if v != Ok(r) {
                                fl.hit(c, "date-time operator / std Duration form differs from the checked form", &format!("{how} {day} {ts} {frac} {ds} {df} -> {:?} (checked form {})", v, show(Some(r))));
                            }
                        }
                    }
                }
                _ => {
                    let fb = gen_frac(c);
                    let sb = gen_secs(c);
                    let date2 = mid + TimeDelta::try_days(c.rng.range(-3, 3) * c.rng.range(0, 300_000)).unwrap();
                    let day2 = date2.num_days_from_ce() as i64;
                    let dt2 = NaiveDateTime::new(date2, mk(sb, fb));
                    let got = guard(|| dt.signed_duration_since(dt2));
                    c.op(&format!("tm.dtdiff {day} {ts} {frac} {day2} {sb} {fb}"), &match &got { Ok(x) => show_td(x), Err(()) => "panic".into() });
                    c.op(&format!("ar.dtdiff {} {ts} {frac} {} {sb} {fb}", yof(&date), yof(&date2)), &match &got { Ok(x) => show_td(x), Err(()) => "panic".into() });
                    tl.add(if (frac as i128) >= NS || (fb as i128) >= NS { "dtdiff:packed-model,leap-operand" } else { "dtdiff:packed-model,non-leap-operands" });
                    if let (Ok(x), Ok(y)) = (&got, guard(|| dt2.signed_duration_since(dt))) {
                        if td_ns(x) != -td_ns(&y) || td_ns(x) != (day - day2) as i128 * DAY + spec_diff((ts, frac), (sb, fb)) {
                            fl.hit(c, "date-time difference is not antisymmetric / not days + time-of-day difference", &format!("tm.dtdiff {day} {ts} {frac} {day2} {sb} {fb} -> {}", show_td(x)));
                        }
                        // against the extended-line distance of date-times (Spec.dtDiffLine) and the cross terms
                        let (pa, pb) = ((day, ts, frac), (day2, sb, fb));
                        let ce = spec_cross_err(pa, pb) - spec_cross_err(pb, pa);
                        if td_ns(x) != spec_dt_line_diff(pa, pb) + ce {
                            fl.hit(c, "date-time difference is not the extended-line distance plus the cross terms of leap operands on another date",
                                &format!("tm.dtdiff {day} {ts} {frac} {day2} {sb} {fb} -> {} ns, line distance {}, cross terms {ce}", td_ns(x), spec_dt_line_diff(pa, pb)));
                        }
                        // the derived order is the order on that line (theorem datetime_order_is_line_order)
                        if guard(|| dt.cmp(&dt2) as i32) != Ok(spec_dt_line_diff(pa, pb).signum() as i32) {
                            fl.hit(c, "derived order of date-times disagrees with the extended line", &format!("tm.dtdiff {day} {ts} {frac} {day2} {sb} {fb}"));
                        }
                        if td_ns(x).signum() != spec_dt_line_diff(pa, pb).signum() {
                            tl.add("observation:sign of a date-time difference disagrees with the derived order (leap-second operand on another date)");
                        }
                        tl.add(if ce != 0 {
                            "observation:date-time difference differs from the extended-line distance by one second (leap-second operand on another date)"
                        } else {
                            "dtdiff:equals the extended-line distance"
                        });
                    }
                }
            }
        }
        // ---- std Duration operands ---------------------------------------------------------------
        if secs % 8 == 0 {
            let frac = gen_frac(c);
            let t = mk(secs, frac);
            let ds: u64 = match c.rng.below(4) {
                0 => *c.rng.pick(&[0u64, 1, 86_399, 86_400, 86_401, 172_799, 172_800, 172_801, 259_200, 345_600, 172_800 * 1000, 86_400 * 1000 + 1, u64::MAX, u64::MAX - 1, i64::MAX as u64, i64::MAX as u64 + 1]),
                1 => c.rng.next(),
                _ => c.rng.below(200_000),
            };
            let df = c.rng.nanos();
            let dur = Duration::new(ds, df);
            c.op(&format!("tm.addstd {secs} {frac} {ds} {df}"), &gs(|| t + dur, |x| show_t(&x)));
            c.op(&format!("tm.substd {secs} {frac} {ds} {df}"), &gs(|| t - dur, |x| show_t(&x)));
            // `impl AddAssign/SubAssign<Duration> for NaiveTime`
            {
                let (pa, ma) = (guard(|| { let mut m = t; m += dur; m }), guard(|| { let mut m = t; m -= dur; m }));
                c.op(&format!("tmo.std += {secs} {frac} {ds} {df}"), &match &pa { Ok(x) => show_t(x), Err(()) => "panic".into() });
                c.op(&format!("tmo.std -= {secs} {frac} {ds} {df}"), &match &ma { Ok(x) => show_t(x), Err(()) => "panic".into() });
                let dn = ds as i128 * NS + df as i128;
                let (e, e2) = (spec_add(secs, frac, dn), spec_add(secs, frac, -dn));
                match (pa, ma) {
                    (Ok(x), Ok(x2)) => {
                        if raw(&x) != (e.0, e.1) || raw(&x2) != (e2.0, e2.1) {
                            fl.hit(c, "NaiveTime +=/-= std Duration is not the extended-line sum with the full amount", &format!("tmo.std +=/-= {secs} {frac} {ds} {df} -> {} / {}", show_t(&x), show_t(&x2)));
                        }
                    }
                    _ => fl.hit(c, "NaiveTime +=/-= std Duration panicked (must wrap around)", &format!("tmo.std += {secs} {frac} {ds} {df}")),
                }
            }
            // oracle: on every operand (leap-second representations included) the std-Duration
            // operators give the same time as TimeDelta addition of the same amount, and the closed form
            if ds <= i64::MAX as u64 / 1000 {
                let td = TimeDelta::new(ds as i64, df).unwrap();
                match (guard(|| t + dur), guard(|| t + td), guard(|| t - dur), guard(|| t - td)) {
                    (Ok(x), Ok(y), Ok(x2), Ok(y2)) => {
                        c.count(if (frac as i128) >= NS { "std:leap-operand" } else { "std:nonleap-operand" });
                        if x != y || x2 != y2 {
                            fl.hit(c, "NaiveTime +/- std Duration differs from TimeDelta addition of the same amount",
                                &format!("NaiveTime({secs},{frac}) +/- Duration({ds}s,{df}ns) = {} / {} but +/- TimeDelta = {} / {}", show_t(&x), show_t(&x2), show_t(&y), show_t(&y2)));
                        }
                    }
                    _ => fl.hit(c, "NaiveTime +/- std Duration panicked", &format!("tm.addstd {secs} {frac} {ds} {df}")),
                }
            }
            {
                let dn = ds as i128 * NS + df as i128;
                if let (Ok(x), Ok(x2)) = (guard(|| t + dur), guard(|| t - dur)) {
                    let (e, e2) = (spec_add(secs, frac, dn), spec_add(secs, frac, -dn));
                    if raw(&x) != (e.0, e.1) || raw(&x2) != (e2.0, e2.1) {
                        fl.hit(c, "NaiveTime +/- std Duration is not the extended-line sum with the full amount",
                            &format!("tm.addstd/substd {secs} {frac} {ds} {df} -> {} / {}", show_t(&x), show_t(&x2)));
                    }
                }
            }
            // oracle: only the amount modulo one day matters for a non-leap operand
            if (frac as i128) < NS {
                let dn = (ds % 86_400) as i128 * NS + df as i128;
                if let Ok(x) = guard(|| t + dur) {
                    let e = spec_add(secs, frac, dn);
                    if raw(&x) != (e.0, e.1) {
                        fl.hit(c, "NaiveTime + std Duration is not addition modulo one day", &format!("tm.addstd {secs} {frac} {ds} {df} -> {}", show_t(&x)));
                    }
                }
            }
        }
    }
    c.sample("tm.addb <secs> <frac>: two 31-bit digests over overflowing_add_signed and overflowing_sub_signed for the 52 boundary durations of that operand");
    c.sample("tm.addk <secs> <frac>: the same digests over the 48 durations k days + operand-relative boundary (k = -2,-1,1,2); tm.stdb <secs> <frac> <nanos>: digests over + / - core::time::Duration for the 14 fixed seconds (k days, k days +- 1 s, u64::MAX, i64::MAX+1) on a leap operand, every second");
    for (k, v) in std::mem::take(&mut tl.0) {
        c.count_n(k, v);
    }
    for (k, v) in std::mem::take(&mut fl.0) {
        c.count_n(&format!("oracle-failed:{k}"), v as u64);
    }
}
