//! C03 — adding and subtracting elapsed time is exact or refused, never wrapped.
//!
//! Correspondence ops (prefix `ar.`) are answered by lean/Chrono/Drv/DateArith.lean.  A date is sent
//! as its packed word `yof`, a date-time as `yof secs frac`, a zone-aware value as
//! `yof secs frac off`, a TimeDelta as its raw `(secs, nanos)`.
//!
//! Direct oracles (i128 arithmetic on an independent day-number formula, no chrono arithmetic) check
//! the property statement on the implementation itself: day counts move the day number exactly or
//! are refused exactly outside the range; durations move a date by their whole days (truncated
//! toward zero); date differences are exact; date-time sums are exact in nanoseconds or refused
//! exactly when the instant is not representable (leap-second operands: C07's extended-line rule for
//! the time of day, carried days applied to the date); `sub = add∘neg`; differences are exact, so
//! `b + (a − b) = a` and the order follows the sign; operators agree with the checked forms or
//! panic; zone-aware values behave as their UTC readings whatever the offset; iterators step by
//! 1 / 7 days, stop at the range limit, and their length hint is the number of items produced.
//!
//! Ops with prefix `ax.` (lean/Chrono/Drv/DateArithExt.lean, audit gaps of 2026-09-30): `size_hint`
//! as the `(lo, Some(hi))` pair, scripts of interleaved `next` / `next_back` calls with the hint
//! before every call, the `+=` / `-=` forms (their own result, not only equality with `+` / `-`),
//! `Ord` / `PartialOrd` / `PartialEq` of zone-aware values.  Their oracles: a cursor simulated on day
//! numbers; i128 instants for the `std::time::Duration` operators, `NaiveDateTime ± Days` and the
//! order of zone-aware values; range ends under every offset.  Backward iteration: the oracle of the
//! recorded finding F28 (`backward iteration: size_hint is not the number of items next_back still
//! produces`) plus the oracle of what does hold (the hint is the forward count from the cursor).
use super::c01::{gen_date, is_leap, yof, MAX_YEAR, MIN_YEAR};
use super::c06::raw as td_raw;
use crate::ctx::*;
use chrono::{DateTime, Datelike, Days, FixedOffset, Local, NaiveDate, NaiveDateTime, NaiveTime, TimeDelta, TimeZone, Timelike, Utc};
use std::collections::BTreeMap;
use std::time::Duration;

const NS: i128 = 1_000_000_000;
const DAY: i128 = 86_400 * NS;
const TD_MAX_NS: i128 = i64::MAX as i128 * 1_000_000;
const TD_MAX_S: i64 = i64::MAX / 1000;
const EPOCH_DAY: i128 = 719_163;

// ---- independent reference: day numbers (0001-01-01 = day 1) -------------------------------------
fn dby(y: i64) -> i64 {
    let p = y - 1;
    365 * p + p.div_euclid(4) - p.div_euclid(100) + p.div_euclid(400)
}
fn ylen(y: i64) -> i64 {
    365 + is_leap(y) as i64
}
fn dn(d: &NaiveDate) -> i64 {
    dby(d.year() as i64) + d.ordinal() as i64
}
fn dn_min() -> i64 {
    dby(MIN_YEAR as i64) + 1
}
fn dn_max() -> i64 {
    dby(MAX_YEAR as i64) + 365
}
/// the date with day number `n` (built with the constructor only, no chrono arithmetic)
fn date_of_dn(n: i64) -> NaiveDate {
    let mut y = (n as f64 / 365.2425).floor() as i64 + 1;
    while dby(y) + 1 > n {
        y -= 1;
    }
    while dby(y + 1) + 1 <= n {
        y += 1;
    }
    NaiveDate::from_yo_opt(y as i32, (n - dby(y)) as u32).unwrap()
}
/// the packed word denotes an existing date of the range (the constructor agrees)
fn well_formed(d: &NaiveDate) -> bool {
    guard(|| NaiveDate::from_yo_opt(d.year(), d.ordinal()) == Some(*d)).unwrap_or(false)
        && (d.ordinal() as i64) <= ylen(d.year() as i64)
}
fn td_ns(d: &TimeDelta) -> i128 {
    let (s, n) = td_raw(d);
    s as i128 * NS + n as i128
}
fn td_parts(n: i128) -> (i64, u32) {
    (n.div_euclid(NS) as i64, n.rem_euclid(NS) as u32)
}
fn td_of_ns(n: i128) -> TimeDelta {
    let (s, f) = td_parts(n);
    TimeDelta::new(s, f).unwrap()
}
fn show_td(d: &TimeDelta) -> String {
    let (s, n) = td_raw(d);
    format!("{s} {n}")
}
fn mk_time(secs: u32, frac: u32) -> NaiveTime {
    NaiveTime::from_num_seconds_from_midnight_opt(secs, 0).unwrap().with_nanosecond(frac).unwrap()
}
fn enc_dt(dt: &NaiveDateTime) -> String {
    format!("{} {} {}", yof(&dt.date()), dt.time().num_seconds_from_midnight(), dt.time().nanosecond())
}
fn enc_z(z: &DateTime<FixedOffset>) -> String {
    format!("{} {}", enc_dt(&z.naive_utc()), z.offset().local_minus_utc())
}
/// nanoseconds since the epoch on the line that holds the value's own leap second (if any)
fn inst(dt: &NaiveDateTime) -> i128 {
    ((dn(&dt.date()) as i128 - EPOCH_DAY) * 86_400 + dt.time().num_seconds_from_midnight() as i128) * NS
        + dt.time().nanosecond() as i128
}
fn inst_min() -> i128 {
    (dn_min() as i128 - EPOCH_DAY) * DAY
}
fn inst_max() -> i128 {
    (dn_max() as i128 - EPOCH_DAY) * DAY + DAY - 1
}
fn is_leap_dt(dt: &NaiveDateTime) -> bool {
    dt.time().nanosecond() >= 1_000_000_000
}
/// printable form of a result that may be an invalid packed value
fn pd(d: &NaiveDate) -> String {
    guard(|| format!("{:?}", d)).unwrap_or_else(|_| format!("<invalid date, packed word {}>", yof(d)))
}
fn pdt(d: &NaiveDateTime) -> String {
    guard(|| format!("{:?}", d)).unwrap_or_else(|_| format!("<invalid date-time, packed date word {} time {:?}>", yof(&d.date()), d.time()))
}
fn s_od(r: &Result<Option<NaiveDate>, ()>) -> String {
    match r {
        Ok(Some(d)) => yof(d).to_string(),
        Ok(None) => "none".into(),
        Err(()) => "panic".into(),
    }
}
fn s_d(r: &Result<NaiveDate, ()>) -> String {
    match r {
        Ok(d) => yof(d).to_string(),
        Err(()) => "panic".into(),
    }
}
fn s_odt(r: &Result<Option<NaiveDateTime>, ()>) -> String {
    match r {
        Ok(Some(d)) => enc_dt(d),
        Ok(None) => "none".into(),
        Err(()) => "panic".into(),
    }
}
fn s_dt(r: &Result<NaiveDateTime, ()>) -> String {
    match r {
        Ok(d) => enc_dt(d),
        Err(()) => "panic".into(),
    }
}
fn s_oz(r: &Result<Option<DateTime<FixedOffset>>, ()>) -> String {
    match r {
        Ok(Some(d)) => enc_z(d),
        Ok(None) => "none".into(),
        Err(()) => "panic".into(),
    }
}
fn s_z(r: &Result<DateTime<FixedOffset>, ()>) -> String {
    match r {
        Ok(d) => enc_z(d),
        Err(()) => "panic".into(),
    }
}
fn s_td(r: &Result<TimeDelta, ()>) -> String {
    match r {
        Ok(d) => show_td(d),
        Err(()) => "panic".into(),
    }
}

/// C07's extended-line rule for a time of day `(secs, frac)` plus `delta` ns: the resulting
/// `(secs, frac)` and the carry in seconds (a multiple of 86 400)
fn spec_add(secs: u32, frac: u32, delta: i128) -> (u32, u32, i128) {
    let p = secs as i128 * NS + frac as i128 + delta;
    let l = (secs as i128 + 1) * NS;
    let leap = frac as i128 >= NS;
    if leap && l <= p && p < l + NS {
        return (secs, (p - secs as i128 * NS) as u32, 0);
    }
    let p2 = if leap && p >= l + NS { p - NS } else { p };
    let s = p2.div_euclid(NS);
    (s.rem_euclid(86_400) as u32, p2.rem_euclid(NS) as u32, s - s.rem_euclid(86_400))
}

/// at most 40 reports per kind of failure; every failure is counted
struct Fails(BTreeMap<String, u64>);
impl Fails {
    fn hit(&mut self, c: &mut Ctx, what: &str, detail: impl FnOnce() -> String) {
        let n = self.0.entry(what.to_string()).or_insert(0);
        *n += 1;
        c.count(&format!("FAIL:{what}"));
        if *n <= 40 {
            // a value built by faulty arithmetic may not even be printable
            let text = guard(detail).unwrap_or_else(|_| "<operands not printable: Debug panicked; see the ar.* op lines>".into());
            c.fail(what, &text);
        }
    }
}

// ---- generators ----------------------------------------------------------------------------------
fn date_near_end(c: &mut Ctx) -> NaiveDate {
    let k = match c.rng.below(3) {
        0 => c.rng.below(3),
        1 => c.rng.below(400),
        _ => c.rng.below(150_000),
    };
    if c.rng.chance(1, 2) {
        date_of_dn(dn_min() + k as i64)
    } else {
        date_of_dn(dn_max() - k as i64)
    }
}
fn g_date(c: &mut Ctx) -> NaiveDate {
    match c.rng.below(4) {
        0 => date_near_end(c),
        _ => gen_date(c),
    }
}
/// an `i32` day count aimed at the branch boundaries of `add_days` for this date
fn g_days(c: &mut Ctx, d: &NaiveDate) -> i64 {
    let o = d.ordinal() as i64;
    let yl = ylen(d.year() as i64);
    let n = dn(d);
    let cycle = (n - 1 + 366).rem_euclid(146_097); // position in the 400-year cycle (day 0 = Jan 1 of year ≡ 0)
    let pm = c.rng.range(-2, 2);
    match c.rng.below(12) {
        // fast-path window: resulting ordinal 0, 1, year length, year length + 1 (±)
        0 => -o + pm,
        1 => yl - o + pm,
        // exactly to the range ends
        2 => dn_max() - n + pm,
        3 => dn_min() - n + pm,
        // 400-year cycle seams of the result
        4 => -cycle + 146_097 * c.rng.range(-3, 3) + pm,
        // i32 limits of `ordinal + days` and of `cycle + days`
        5 => i32::MAX as i64 - o + pm,
        6 => i32::MAX as i64 - cycle + pm,
        7 => *c.rng.pick(&[i32::MAX as i64, i32::MAX as i64 - 1, i32::MIN as i64, i32::MIN as i64 + 1, 0, 1, -1, 7, -7, 365, 366, -365, -366, 146_097, -146_097]),
        8 => c.rng.range(-800, 800),
        9 => c.rng.range(-200_000_000, 200_000_000),
        10 => c.rng.range(dn_min() - n - 400, dn_max() - n + 400),
        _ => c.rng.log_i64(),
    }
    .clamp(i32::MIN as i64, i32::MAX as i64)
}
/// a `u64` day count for `Days`: everything above plus the values a narrowing cast would fold
fn g_count(c: &mut Ctx, d: &NaiveDate, forward: bool) -> u64 {
    let room = if forward { dn_max() - dn(d) } else { dn(d) - dn_min() } as u64;
    match c.rng.below(10) {
        0 => {
            let n = g_days(c, d);
            (if forward { n } else { -n }).max(0) as u64
        }
        1 => room.wrapping_add(c.rng.range(-2, 2) as u64) & 0x7fff_ffff_ffff_ffff,
        2 => *c.rng.pick(&[0u64, 1, 7, i32::MAX as u64, i32::MAX as u64 + 1, u32::MAX as u64, u32::MAX as u64 + 1, i64::MAX as u64, i64::MAX as u64 + 1, u64::MAX, u64::MAX - 1]),
        // 2^32·k + j: a cast to i32/u32 would make these small counts
        3 => (c.rng.below(1 << 20) << 32) + c.rng.below(2000),
        4 => (c.rng.below(1 << 31) << 32) + (room.saturating_sub(c.rng.below(3))),
        5 => (1u64 << 32) - c.rng.below(2000),
        6 => c.rng.below(room + 2),
        7 => c.rng.below(800),
        8 => c.rng.next() >> c.rng.below(64),
        _ => i32::MAX as u64 - c.rng.below(3),
    }
}
fn g_secs(c: &mut Ctx) -> u32 {
    match c.rng.below(4) {
        0 => *c.rng.pick(&[0u32, 1, 59, 60, 3599, 3600, 43_199, 43_200, 86_339, 86_340, 86_398, 86_399]),
        1 => (c.rng.below(1440) * 60 + *c.rng.pick(&[0u64, 1, 58, 59])) as u32,
        _ => c.rng.below(86_400) as u32,
    }
}
fn g_frac(c: &mut Ctx, leap_ok: bool) -> u32 {
    let f = match c.rng.below(3) {
        0 => *c.rng.pick(&[0u32, 1, 2, 499_999_999, 500_000_000, 999_999_998, 999_999_999]),
        _ => c.rng.nanos(),
    };
    if leap_ok && c.rng.chance(1, 10) {
        f + 1_000_000_000
    } else {
        f
    }
}
fn g_dt(c: &mut Ctx, leap_ok: bool) -> NaiveDateTime {
    let date = match c.rng.below(3) {
        0 => date_near_end(c),
        _ => gen_date(c),
    };
    let (s, f) = match c.rng.below(6) {
        0 => (0, 0),
        1 => (86_399, 999_999_999),
        _ => (g_secs(c), g_frac(c, leap_ok)),
    };
    NaiveDateTime::new(date, mk_time(s, f))
}
/// log-uniform magnitude from 1 ns up to the full TimeDelta range (≈ 2^83 ns), random sign
fn log_ns(c: &mut Ctx) -> i128 {
    let bits = c.rng.below(84) as u32;
    let m: u128 = if bits == 0 { 0 } else { (((c.rng.next() as u128) << 64) | c.rng.next() as u128) >> (128 - bits) };
    let v = (m as i128).min(TD_MAX_NS);
    if c.rng.chance(1, 2) {
        v
    } else {
        -v
    }
}
/// a duration (ns) aimed at the boundaries of date-time addition for this operand
fn g_delta_for(c: &mut Ctx, dt: &NaiveDateTime) -> i128 {
    let i = inst(dt) - if is_leap_dt(dt) { NS } else { 0 };
    let tod = dt.time().num_seconds_from_midnight() as i128 * NS + (dt.time().nanosecond() % 1_000_000_000) as i128;
    let nudge = *c.rng.pick(&[0i128, 1, -1, NS, -NS, DAY, -DAY, DAY - 1, 1 - DAY]);
    let v = match c.rng.below(12) {
        0 | 1 => log_ns(c),
        // exactly to the range ends (± 1 ns / 1 s / 1 day)
        2 => inst_max() - i + nudge,
        3 => inst_min() - i + nudge,
        // to midnight, either side
        4 => -tod + nudge,
        5 => DAY - tod + nudge,
        // whole days ± 1 ns
        6 => c.rng.range(-800_000, 800_000) as i128 * DAY + c.rng.range(-1, 1) as i128,
        7 => c.rng.range(-200_000, 200_000) as i128 * NS + c.rng.range(-1, 1) as i128 * c.rng.below(1_000_000_000) as i128,
        // day counts at and beyond the i32 limits, and the values an `as i32` would fold
        8 => {
            let k = *c.rng.pick(&[i32::MAX as i128, i32::MAX as i128 + 1, i32::MIN as i128, i32::MIN as i128 - 1, 1i128 << 32, (1i128 << 32) + 1, -(1i128 << 32) - 1, (1i128 << 33) + 5]);
            k * DAY + nudge
        }
        // the ends of the TimeDelta range (remainder seconds beyond TimeDelta::MAX)
        9 => (TD_MAX_NS - c.rng.below(3) as i128 - c.rng.below(2) as i128 * c.rng.below(200_000) as i128 * NS) * if c.rng.chance(1, 2) { 1 } else { -1 },
        10 => c.rng.range(inst_min().div_euclid(NS) as i64, inst_max().div_euclid(NS) as i64) as i128 * NS + c.rng.below(1_000_000_000) as i128 - i,
        _ => c.rng.range(-2_000_000_000, 2_000_000_000) as i128,
    };
    v.clamp(-TD_MAX_NS, TD_MAX_NS)
}
fn g_off(c: &mut Ctx) -> i32 {
    match c.rng.below(3) {
        0 => *c.rng.pick(&[0, 1, -1, 3600, -3600, 19_800, 86_399, -86_399, 86_398, -86_398, 43_200]),
        _ => c.rng.range(-86_399, 86_399) as i32,
    }
}

type LocalArith = (Vec<(String, String)>, Vec<(String, String)>, BTreeMap<String, u64>);

/// `DateTime<Local>` arithmetic under a real zone from the environment (`TZ`; a fresh thread = a fresh
/// zone cache), judged against `DateTime<Utc>` on the same UTC value and against i128 instants.
/// Nothing of a `DateTime<Local>` is ever formatted (a wall-clock reading outside the range panics in
/// `Debug`, which is C15's business): only `naive_utc()` is read.
fn through_local_arith(tz: &str, cases: Vec<(NaiveDateTime, NaiveDateTime, i128)>, imin: i128, imax: i128) -> LocalArith {
    let old = std::env::var("TZ").ok();
    std::env::set_var("TZ", tz);
    let tzs = tz.to_string();
    let out = std::thread::spawn(move || {
        let mut ops: Vec<(String, String)> = vec![];
        let mut fails: Vec<(String, String)> = vec![];
        let mut cnt: BTreeMap<String, u64> = BTreeMap::new();
        let mut offs: std::collections::BTreeSet<i32> = Default::default();
        for (utc, other, ns) in &cases {
            let (utc, other, ns) = (*utc, *other, *ns);
            let td = td_of_ns(ns);
            let (ds, dnn) = td_raw(&td);
            let key = format!("TZ={tzs} {} δ=({ds},{dnn})", enc_dt(&utc));
            let mk = guard(|| (Local.from_utc_datetime(&utc), Local.from_utc_datetime(&other)));
            let (l, lo) = match mk {
                Ok(p) => p,
                Err(()) => {
                    fails.push(("Local.from_utc_datetime panicked".into(), key));
                    continue;
                }
            };
            let (u, uo) = (utc.and_utc(), other.and_utc());
            offs.insert(l.offset().local_minus_utc());
            let nu = |r: Result<Option<DateTime<Local>>, ()>| r.map(|o| o.map(|x| x.naive_utc()));
            let nuu = |r: Result<Option<DateTime<Utc>>, ()>| r.map(|o| o.map(|x| x.naive_utc()));
            for add in [true, false] {
                let sign = if add { "+" } else { "-" };
                let gl = nu(guard(|| if add { l.checked_add_signed(td) } else { l.checked_sub_signed(td) }));
                let gu = nuu(guard(|| if add { u.checked_add_signed(td) } else { u.checked_sub_signed(td) }));
                // correspondence: the model's zone-aware value (offset 0) must give the same UTC reading
                ops.push((format!("{} {} 0 {ds} {dnn}", if add { "ar.zadd" } else { "ar.zsub" }, enc_dt(&utc)), match &gl {
                    Ok(Some(x)) => format!("{} 0", enc_dt(x)),
                    Ok(None) => "none".into(),
                    Err(()) => "panic".into(),
                }));
                if gl != gu {
                    fails.push((format!("DateTime<Local> checked {sign} duration does not have the UTC value of DateTime<Utc> {sign} duration (or None / panic differ)"), key.clone()));
                }
                if !is_leap_dt(&utc) {
                    let target = inst(&utc) + if add { ns } else { -ns };
                    let in_range = target >= imin && target <= imax;
                    match &gl {
                        Ok(Some(x)) if in_range && inst(x) == target && !is_leap_dt(x) => *cnt.entry("local±delta:value".into()).or_insert(0) += 1,
                        Ok(None) if !in_range => *cnt.entry("local±delta:refused".into()).or_insert(0) += 1,
                        _ => fails.push((format!("DateTime<Local> checked {sign} duration is not exact in nanoseconds / not refused exactly when the instant is not representable"), key.clone())),
                    }
                }
                // operators and assign forms: the checked value, or a panic exactly when it refuses
                let op = guard(|| {
                    let mut x = l;
                    if add {
                        x += td;
                        ((l + td).naive_utc(), x.naive_utc())
                    } else {
                        x -= td;
                        ((l - td).naive_utc(), x.naive_utc())
                    }
                });
                match (&gl, &op) {
                    (Ok(Some(x)), Ok((a, b))) if a == x && b == x => *cnt.entry("local-operator:value".into()).or_insert(0) += 1,
                    (Ok(None), Err(())) => *cnt.entry("local-operator:panic(refused by the checked form)".into()).or_insert(0) += 1,
                    _ => fails.push((format!("`DateTime<Local> {sign} TimeDelta` / `{sign}=` disagree with the checked form"), key.clone())),
                }
                // the offset of the result is the zone's offset at the result (re-derived), not the operand's
                if let Ok(Some(x)) = guard(|| if add { l.checked_add_signed(td) } else { l.checked_sub_signed(td) }) {
                    let again = guard(|| Local.from_utc_datetime(&x.naive_utc()).offset().local_minus_utc());
                    if again != Ok(x.offset().local_minus_utc()) {
                        fails.push(("the offset of a DateTime<Local> result is not the zone's offset at that instant".into(), key.clone()));
                    }
                    if x.offset().local_minus_utc() != l.offset().local_minus_utc() {
                        *cnt.entry("local±delta:offset-re-derived(differs from the operand's)".into()).or_insert(0) += 1;
                    }
                }
            }
            // differences and order: those of the UTC values; also across zone types
            let d = guard(|| (l.signed_duration_since(lo), l - lo, l - &lo, l.signed_duration_since(uo), u.signed_duration_since(uo)));
            match &d {
                Ok((a, b, c2, e, f)) => {
                    ops.push((format!("ar.zdiff {} 0 {} 0", enc_dt(&utc), enc_dt(&other)), show_td(a)));
                    if a != b || a != c2 || a != e || a != f {
                        fails.push(("the difference of DateTime<Local> values is not the difference of their UTC values".into(), key.clone()));
                    }
                    if !is_leap_dt(&utc) && !is_leap_dt(&other) && td_ns(a) != inst(&utc) - inst(&other) {
                        fails.push(("the difference of DateTime<Local> values is not the exact distance of their instants".into(), key.clone()));
                    }
                }
                Err(()) => fails.push(("the difference of DateTime<Local> values panicked".into(), key.clone())),
            }
            let o = guard(|| (l.cmp(&lo) as i32, l.partial_cmp(&uo).map(|x| x as i32), l == uo, l == lo));
            match o {
                Ok((cm, pc, e1, e2)) => {
                    let want = utc.cmp(&other) as i32;
                    if cm != want || pc != Some(want) || e1 != (want == 0) || e2 != (want == 0) {
                        fails.push(("order / equality of DateTime<Local> (also against DateTime<Utc>) is not that of the UTC values".into(), key.clone()));
                    }
                    *cnt.entry("local:cmp(also against DateTime<Utc>)".into()).or_insert(0) += 1;
                }
                Err(()) => fails.push(("comparing DateTime<Local> values panicked".into(), key.clone())),
            }
        }
        *cnt.entry(format!("local:distinct offsets met in TZ={tzs}")).or_insert(0) += offs.len() as u64;
        (ops, fails, cnt)
    })
    .join()
    .unwrap_or_else(|_| (vec![], vec![("the DateTime<Local> arithmetic batch died".into(), tz.to_string())], BTreeMap::new()));
    match old {
        Some(v) => std::env::set_var("TZ", v),
        None => std::env::remove_var("TZ"),
    }
    out
}

pub fn run(c: &mut Ctx) {
    let mut fl = Fails(BTreeMap::new());
    let (dmin, dmax) = (dn_min(), dn_max());
    if dn(&NaiveDate::MIN) != dmin || dn(&NaiveDate::MAX) != dmax || NaiveDate::MIN.year() != MIN_YEAR || NaiveDate::MAX.year() != MAX_YEAR {
        fl.hit(c, "NaiveDate::MIN / MAX are not Jan 1 of MIN_YEAR / Dec 31 of MAX_YEAR", || String::new());
    }

    // =========================== 1. day counts: checked_add_days / checked_sub_days ===============
    let n_days = c.n(90_000, 1_200_000);
    for it in 0..n_days {
        let d = g_date(c);
        let n0 = dn(&d);
        // (a) `i32`-sized counts aimed at the branches of `add_days` (the sign picks the direction)
        // (b) arbitrary `u64` counts
        let (forward, cnt): (bool, u64) = if it % 3 != 0 {
            let n = g_days(c, &d);
            (if n == 0 { c.rng.chance(1, 2) } else { n > 0 }, n.unsigned_abs())
        } else {
            let f = c.rng.chance(1, 2);
            (f, g_count(c, &d, f))
        };
        let got = guard(|| if forward { d.checked_add_days(Days::new(cnt)) } else { d.checked_sub_days(Days::new(cnt)) });
        let name = if forward { "ar.cadd" } else { "ar.csub" };
        c.op(&format!("{name} {} {cnt}", yof(&d)), &s_od(&got));
        // classes
        let signed: i128 = if forward { cnt as i128 } else { -(cnt as i128) };
        let target = n0 as i128 + signed;
        let in_range = target >= dmin as i128 && target <= dmax as i128;
        let o = d.ordinal() as i128;
        let yl = ylen(d.year() as i64) as i128;
        let cyc = (n0 - 1 + 366).rem_euclid(146_097) as i128;
        c.count(if cnt > i32::MAX as u64 {
            "days:count>i32::MAX(refused)"
        } else if o + signed >= 1 && o + signed <= yl {
            "days:fast-path(same year)"
        } else if cyc + signed > i32::MAX as i128 || cyc + signed < i32::MIN as i128 {
            "days:cycle-path,i32-overflow(refused)"
        } else if in_range {
            "days:cycle-path,in-range"
        } else {
            "days:cycle-path,out-of-range(refused)"
        });
        if o + signed == 0 || o + signed == 1 || o + signed == yl || o + signed == yl + 1 {
            c.count("days:edge:ordinal-0/1/len/len+1");
        }
        if target == dmin as i128 || target == dmax as i128 {
            c.count("days:edge:exactly-MIN/MAX");
        }
        if target == dmin as i128 - 1 || target == dmax as i128 + 1 {
            c.count("days:edge:one-past-MIN/MAX");
        }
        if cnt > u32::MAX as u64 && ((cnt & 0xffff_ffff) as i128) <= (dmax - dmin) as i128 {
            c.count("days:count=2^32k+small(cast-fold-candidate)");
        }
        // oracle
        match &got {
            Ok(Some(r)) => {
                if !in_range || dn(r) as i128 != target || !well_formed(r) {
                    fl.hit(c, "adding/subtracting a day count did not move the date by exactly that many days", || format!("{name} {:?} {cnt} -> {}", d, pd(r)));
                }
                // operator form agrees
                if it % 4 == 0 {
                    let op = guard(|| if forward { d + Days::new(cnt) } else { d - Days::new(cnt) });
                    c.op(&format!("{} {} {cnt}", if forward { "ar.opadd" } else { "ar.opsub" }, yof(&d)), &s_d(&op));
                    if op != Ok(*r) {
                        fl.hit(c, "`NaiveDate ± Days` differs from the checked form", || format!("{:?} {cnt}", d));
                    }
                }
            }
            Ok(None) => {
                if in_range {
                    fl.hit(c, "a day count leading to a representable date was refused", || format!("{name} {:?} {cnt}", d));
                }
                if it % 16 == 0 {
                    let op = guard(|| if forward { d + Days::new(cnt) } else { d - Days::new(cnt) });
                    c.op(&format!("{} {} {cnt}", if forward { "ar.opadd" } else { "ar.opsub" }, yof(&d)), &s_d(&op));
                    if op.is_ok() {
                        fl.hit(c, "`NaiveDate ± Days` produced a value although the checked form refuses", || format!("{:?} {cnt}", d));
                    }
                }
            }
            Err(()) => fl.hit(c, "checked_add_days/checked_sub_days panicked", || format!("{name} {:?} {cnt}", d)),
        }
    }

    // =========================== 2. date ± TimeDelta, date − date ================================
    let n_dd = c.n(70_000, 900_000);
    for it in 0..n_dd {
        let d = g_date(c);
        let n0 = dn(&d) as i128;
        // whole days k, plus a part of a day r (sign independent of k's: truncation toward zero)
        let k: i128 = match c.rng.below(6) {
            0 => {
                let j = c.rng.below(500) as i128;
                let m = c.rng.below(20) as i128 + 1;
                *c.rng.pick(&[i32::MAX as i128, i32::MAX as i128 + 1, i32::MIN as i128, i32::MIN as i128 - 1, (1i128 << 32) + j, -(1i128 << 32) - j, m << 32])
            }
            1 => TD_MAX_NS / DAY * if c.rng.chance(1, 2) { 1 } else { -1 },
            _ => g_days(c, &d) as i128,
        };
        let r: i128 = match c.rng.below(6) {
            0 => 0,
            1 => 1,
            2 => -1,
            3 => DAY - 1,
            4 => 1 - DAY,
            _ => c.rng.range(-86_399, 86_399) as i128 * NS + c.rng.below(1_000_000_000) as i128,
        };
        let ns = (k * DAY + r).clamp(-TD_MAX_NS, TD_MAX_NS);
        let td = td_of_ns(ns);
        let (ds, dnn) = td_raw(&td);
        let add = c.rng.chance(1, 2);
        let got = guard(|| if add { d.checked_add_signed(td) } else { d.checked_sub_signed(td) });
        let name = if add { "ar.dadd" } else { "ar.dsub" };
        c.op(&format!("{name} {} {ds} {dnn}", yof(&d)), &s_od(&got));
        // whole days of the duration, truncated toward zero
        let whole = if ns >= 0 { ns / DAY } else { -((-ns) / DAY) };
        let target = n0 + if add { whole } else { -whole };
        let in_range = target >= dmin as i128 && target <= dmax as i128;
        c.count(if whole.abs() > i32::MAX as i128 {
            "date±delta:|days|>i32::MAX(refused)"
        } else if in_range {
            "date±delta:in-range"
        } else {
            "date±delta:out-of-range(refused)"
        });
        if ns % DAY != 0 {
            c.count(if ns > 0 { "date±delta:fractional-day,positive" } else { "date±delta:fractional-day,negative" });
        }
        match &got {
            Ok(Some(x)) => {
                if !in_range || dn(x) as i128 != target || !well_formed(x) {
                    fl.hit(c, "NaiveDate ± TimeDelta did not move by the whole days of the duration (truncated toward zero)", || format!("{name} {:?} {ds} {dnn} -> {}", d, pd(x)));
                }
            }
            Ok(None) => {
                if in_range {
                    fl.hit(c, "NaiveDate ± TimeDelta refused a representable result", || format!("{name} {:?} {ds} {dnn}", d));
                }
            }
            Err(()) => fl.hit(c, "NaiveDate::checked_add_signed/checked_sub_signed panicked", || format!("{name} {:?} {ds} {dnn}", d)),
        }
        if it % 4 == 0 {
            let op = guard(|| {
                let mut x = d;
                if add {
                    x += td;
                    (d + td, x)
                } else {
                    x -= td;
                    (d - td, x)
                }
            });
            c.op(&format!("{} {} {ds} {dnn}", if add { "ar.dopadd" } else { "ar.dopsub" }, yof(&d)), &s_d(&op.map(|p| p.0)));
            c.op(&format!("ax.dasg {} {} {ds} {dnn}", if add { "+" } else { "-" }, yof(&d)), &s_d(&op.map(|p| p.1)));
            match (&got, &op) {
                (Ok(Some(x)), Ok((a, b))) if a == x && b == x => {}
                (Ok(None), Err(())) => {}
                _ => fl.hit(c, "`NaiveDate ± TimeDelta` / `±=` disagree with the checked form", || format!("{:?} {ds} {dnn}", d)),
            }
        }
        // differences
        if it % 2 == 0 {
            let e = match c.rng.below(5) {
                0 => NaiveDate::MIN,
                1 => NaiveDate::MAX,
                2 => d,
                _ => g_date(c),
            };
            let (a, b) = if c.rng.chance(1, 2) { (d, e) } else { (e, d) };
            let diff = guard(|| (a.signed_duration_since(b), a - b));
            c.op(&format!("ar.ddiff {} {}", yof(&a), yof(&b)), &s_td(&diff.map(|p| p.0)));
            // `impl Sub<NaiveDate> for NaiveDate` itself (model Date.sub_date)
            c.op(&format!("ax.ddiffop {} {}", yof(&a), yof(&b)), &s_td(&diff.map(|p| p.1)));
            match &diff {
                Ok((x, y)) => {
                    if td_ns(x) != (dn(&a) - dn(&b)) as i128 * DAY || x != y {
                        fl.hit(c, "date difference is not the exact number of days between the operands", || format!("{:?} - {:?} -> {}", a, b, show_td(x)));
                    }
                    // b + (a − b) = a
                    if guard(|| b.checked_add_signed(*x)) != Ok(Some(a)) {
                        fl.hit(c, "b + (a − b) ≠ a for dates", || format!("{:?} {:?}", a, b));
                    }
                    if (a.cmp(&b) as i32) != (td_ns(x).signum() as i32) {
                        fl.hit(c, "date order does not follow the sign of the difference", || format!("{:?} {:?}", a, b));
                    }
                    c.count(if a == b { "ddiff:equal" } else if (a == NaiveDate::MAX && b == NaiveDate::MIN) || (a == NaiveDate::MIN && b == NaiveDate::MAX) { "ddiff:full-range" } else { "ddiff:other" });
                }
                Err(()) => fl.hit(c, "date difference panicked", || format!("{:?} - {:?}", a, b)),
            }
        }
    }

    // =========================== 3. date-time ± TimeDelta ========================================
    let n_dt = c.n(130_000, 1_800_000);
    let (imin, imax) = (inst_min(), inst_max());
    for it in 0..n_dt {
        let dt = g_dt(c, true);
        let leap = is_leap_dt(&dt);
        let ns = g_delta_for(c, &dt);
        let td = td_of_ns(ns);
        let (ds, dnn) = td_raw(&td);
        let add = c.rng.chance(1, 2);
        let got = guard(|| if add { dt.checked_add_signed(td) } else { dt.checked_sub_signed(td) });
        let name = if add { "ar.dtadd" } else { "ar.dtsub" };
        c.op(&format!("{name} {} {ds} {dnn}", enc_dt(&dt)), &s_odt(&got));
        let signed = if add { ns } else { -ns };
        if !leap {
            let target = inst(&dt) + signed;
            let in_range = target >= imin && target <= imax;
            c.count(if in_range { "dt±delta:non-leap,in-range" } else { "dt±delta:non-leap,refused" });
            if target == imin || target == imax {
                c.count("dt±delta:edge:exactly-MIN/MAX");
            }
            if target == imin - 1 || target == imax + 1 {
                c.count("dt±delta:edge:1ns-past-MIN/MAX");
            }
            let tod = inst(&dt).rem_euclid(DAY);
            c.count(if tod + signed < 0 { "dt±delta:carry-negative" } else if tod + signed >= DAY { "dt±delta:carry-positive" } else { "dt±delta:no-carry" });
            if (tod + signed).rem_euclid(DAY) == 0 || (tod + signed).rem_euclid(DAY) == DAY - 1 {
                c.count("dt±delta:edge:lands-on-midnight-or-1ns-before");
            }
            if (dt.time().num_seconds_from_midnight() as i128 + signed.div_euclid(NS)).abs() > TD_MAX_S as i128 - 86_400 {
                c.count("dt±delta:remainder-near/over-TimeDelta::MAX");
            }
            match &got {
                Ok(Some(r)) => {
                    if !in_range || inst(r) != target || is_leap_dt(r) || !well_formed(&r.date()) || r.time().num_seconds_from_midnight() >= 86_400 {
                        fl.hit(c, "date-time ± duration is not the date-time exactly that many nanoseconds away", || format!("{name} {:?} {ds} {dnn} -> {}", dt, pdt(r)));
                    }
                }
                Ok(None) => {
                    if in_range {
                        fl.hit(c, "date-time ± duration refused although the instant is representable", || format!("{name} {:?} {ds} {dnn}", dt));
                    }
                }
                Err(()) => fl.hit(c, "NaiveDateTime::checked_add_signed/checked_sub_signed panicked", || format!("{name} {:?} {ds} {dnn}", dt)),
            }
            // sub = add ∘ neg
            if it % 3 == 0 {
                let other = guard(|| if add { dt.checked_sub_signed(-td) } else { dt.checked_add_signed(-td) });
                if other != got {
                    fl.hit(c, "subtracting a duration differs from adding its negation", || format!("{:?} {ds} {dnn}", dt));
                }
            }
        } else {
            // leap-second operand: C07's extended-line rule for the time of day, carried days to the date
            let (es, ef, carry) = spec_add(dt.time().num_seconds_from_midnight(), dt.time().nanosecond(), signed);
            let day = dn(&dt.date()) as i128 + carry / 86_400;
            let in_range = day >= dmin as i128 && day <= dmax as i128;
            c.count(if !in_range {
                "dt±delta:leap-operand,refused"
            } else if ef >= 1_000_000_000 {
                "dt±delta:leap-operand,stays-in-leap-second"
            } else if carry != 0 {
                "dt±delta:leap-operand,carry-to-date"
            } else {
                "dt±delta:leap-operand,same-day"
            });
            match &got {
                Ok(Some(r)) => {
                    if !in_range || dn(&r.date()) as i128 != day || (r.time().num_seconds_from_midnight(), r.time().nanosecond()) != (es, ef) || !well_formed(&r.date()) {
                        fl.hit(c, "date-time with a leap-second operand: time of day or carried days differ from the documented rule", || format!("{name} {:?} {ds} {dnn} -> {}", dt, pdt(r)));
                    }
                }
                Ok(None) => {
                    if in_range {
                        fl.hit(c, "date-time ± duration refused although the result is representable (leap-second operand)", || format!("{name} {:?} {ds} {dnn}", dt));
                    }
                }
                Err(()) => fl.hit(c, "NaiveDateTime::checked_add_signed/checked_sub_signed panicked", || format!("{name} {:?} {ds} {dnn}", dt)),
            }
        }
        // operator forms
        if it % 4 == 0 {
            let op = guard(|| {
                let mut x = dt;
                if add {
                    x += td;
                    (dt + td, x)
                } else {
                    x -= td;
                    (dt - td, x)
                }
            });
            c.op(&format!("{} {} {ds} {dnn}", if add { "ar.dtopadd" } else { "ar.dtopsub" }, enc_dt(&dt)), &s_dt(&op.map(|p| p.0)));
            c.op(&format!("ax.dtasg {} {} {ds} {dnn}", if add { "+" } else { "-" }, enc_dt(&dt)), &s_dt(&op.map(|p| p.1)));
            // the operator judged directly: the exact instant, or a panic exactly when it is not representable
            if !leap {
                let target = inst(&dt) + signed;
                let in_range = target >= imin && target <= imax;
                match &op {
                    Ok((a, b)) if in_range && inst(a) == target && a == b && !is_leap_dt(a) => {}
                    Err(()) if !in_range => {}
                    _ => fl.hit(c, "`NaiveDateTime ± TimeDelta` is not the exact instant / does not panic exactly when the instant is not representable", || format!("{:?} {ds} {dnn}", dt)),
                }
            }
            match (&got, &op) {
                (Ok(Some(x)), Ok((a, b))) if a == x && b == x => c.count("dt-operator:value"),
                (Ok(None), Err(())) => c.count("dt-operator:panic(refused by checked form)"),
                _ => fl.hit(c, "`NaiveDateTime ± TimeDelta` / `±=` disagree with the checked form", || format!("{:?} {ds} {dnn}", dt)),
            }
        }
        // std::time::Duration operands
        if it % 8 == 1 {
            let (ss, nn): (u64, u32) = match c.rng.below(5) {
                0 => (ns.unsigned_abs().div_euclid(NS as u128) as u64, (ns.unsigned_abs() % NS as u128) as u32),
                1 => ((TD_MAX_S as u64).wrapping_add(c.rng.range(-1, 1) as u64), *c.rng.pick(&[0u32, 806_999_999, 807_000_000, 807_000_001, 999_999_999])),
                2 => (*c.rng.pick(&[u64::MAX, u64::MAX - 1, i64::MAX as u64, i64::MAX as u64 + 1, 1 << 32, 0]), c.rng.nanos()),
                _ => (c.rng.below(200_000), c.rng.nanos()),
            };
            let sd = Duration::new(ss, nn);
            let op = guard(|| if add { dt + sd } else { dt - sd });
            c.op(&format!("{} {} {ss} {nn}", if add { "ar.dtstdadd" } else { "ar.dtstdsub" }, enc_dt(&dt)), &s_dt(&op));
            let asg = guard(|| {
                let mut x = dt;
                if add {
                    x += sd;
                } else {
                    x -= sd;
                }
                x
            });
            c.op(&format!("ax.dtstdasg {} {} {ss} {nn}", if add { "+" } else { "-" }, enc_dt(&dt)), &s_dt(&asg));
            if asg != op {
                fl.hit(c, "`NaiveDateTime ±= std Duration` differs from `± std Duration`", || format!("{:?} {ss} {nn}", dt));
            }
            if !leap {
                // independent: the instant s·10⁹ + n ns away, or a panic exactly when the duration is
                // beyond the TimeDelta range or the instant is not representable
                let k = ss as i128 * NS + nn as i128;
                let target = inst(&dt) + if add { k } else { -k };
                let fits = k <= TD_MAX_NS && target >= imin && target <= imax;
                c.count(if fits { "dt-std-operator:oracle:value" } else if k > TD_MAX_NS { "dt-std-operator:oracle:duration>TimeDelta::MAX" } else { "dt-std-operator:oracle:instant-out-of-range" });
                match &op {
                    Ok(x) if fits && inst(x) == target && !is_leap_dt(x) && well_formed(&x.date()) => {}
                    Err(()) if !fits => {}
                    _ => fl.hit(c, "`NaiveDateTime ± std Duration` is not the exact instant / does not panic exactly when it is not representable", || format!("{:?} {ss} {nn}", dt)),
                }
            }
            let via = guard(|| TimeDelta::from_std(sd).ok().and_then(|t| if add { dt.checked_add_signed(t) } else { dt.checked_sub_signed(t) }));
            match (&via, &op) {
                (Ok(Some(x)), Ok(y)) if x == y => c.count("dt-std-operator:value"),
                (Ok(None), Err(())) => c.count("dt-std-operator:panic(refused)"),
                _ => fl.hit(c, "`NaiveDateTime ± std Duration` disagrees with the checked form", || format!("{:?} {ss} {nn}", dt)),
            }
        }
        // Days on a date-time: the time of day is kept
        if it % 8 == 2 {
            let cnt = g_count(c, &dt.date(), add);
            let r = guard(|| if add { dt.checked_add_days(Days::new(cnt)) } else { dt.checked_sub_days(Days::new(cnt)) });
            c.op(&format!("{} {} {cnt}", if add { "ar.dtcadd" } else { "ar.dtcsub" }, enc_dt(&dt)), &s_odt(&r));
            let want = guard(|| if add { dt.date().checked_add_days(Days::new(cnt)) } else { dt.date().checked_sub_days(Days::new(cnt)) }).map(|o| o.map(|d| NaiveDateTime::new(d, dt.time())));
            if r != want {
                fl.hit(c, "NaiveDateTime ± Days is not the date moved with the time of day kept", || format!("{:?} {cnt}", dt));
            }
            // independent: the day number moves by exactly the count, the time of day is kept
            let tday = dn(&dt.date()) as i128 + if add { cnt as i128 } else { -(cnt as i128) };
            let day_ok = tday >= dmin as i128 && tday <= dmax as i128;
            c.count(if day_ok { "dt±Days:in-range" } else { "dt±Days:refused" });
            match &r {
                Ok(Some(x)) if day_ok && dn(&x.date()) as i128 == tday && x.time() == dt.time() && well_formed(&x.date()) => {}
                Ok(None) if !day_ok => {}
                _ => fl.hit(c, "NaiveDateTime ± Days did not move the date by exactly that many days keeping the time, or refused a representable day", || format!("{:?} {cnt}", dt)),
            }
            let op = guard(|| if add { dt + Days::new(cnt) } else { dt - Days::new(cnt) });
            c.op(&format!("{} {} {cnt}", if add { "ar.dtopcadd" } else { "ar.dtopcsub" }, enc_dt(&dt)), &s_dt(&op));
            match (&r, &op) {
                (Ok(Some(x)), Ok(y)) if x == y => {}
                (Ok(None), Err(())) => {}
                _ => fl.hit(c, "`NaiveDateTime ± Days` disagrees with the checked form", || format!("{:?} {cnt}", dt)),
            }
        }
    }

    // =========================== 4. date-time differences =========================================
    let n_df = c.n(70_000, 900_000);
    for _ in 0..n_df {
        let a = g_dt(c, true);
        let b = match c.rng.below(8) {
            0 => a,
            1 => NaiveDateTime::new(NaiveDate::MIN, mk_time(0, 0)),
            2 => NaiveDateTime::new(NaiveDate::MAX, mk_time(86_399, 999_999_999)),
            3 => NaiveDateTime::new(a.date(), mk_time(g_secs(c), g_frac(c, true))),
            4 => {
                // a neighbour: a ± small
                let t = td_of_ns(c.rng.range(-2_000_000_000, 2_000_000_000) as i128);
                guard(|| a.checked_add_signed(t)).ok().flatten().unwrap_or(a)
            }
            _ => g_dt(c, true),
        };
        let (a, b) = if c.rng.chance(1, 2) { (a, b) } else { (b, a) };
        let got = guard(|| (a.signed_duration_since(b), a - b));
        c.op(&format!("ar.dtdiff {} {}", enc_dt(&a), enc_dt(&b)), &s_td(&got.map(|p| p.0)));
        c.op(&format!("ar.dtcmp {} {}", enc_dt(&a), enc_dt(&b)), &(a.cmp(&b) as i32).to_string());
        // `impl Sub<NaiveDateTime> for NaiveDateTime` itself (model NaiveDT.sub_dt)
        c.op(&format!("ax.dtdiffop {} {}", enc_dt(&a), enc_dt(&b)), &s_td(&got.map(|p| p.1)));
        // the derived PartialOrd / PartialEq / `<` / max of NaiveDateTime next to the derived Ord
        // (the derive lines and the field order are pinned; theorem ndt_derived_order)
        {
            let ord = guard(|| (a.cmp(&b) as i32, a.partial_cmp(&b).map(|o| o as i32), a == b, a < b, a.max(b), a <= b, a > b, a >= b, a.min(b)));
            c.op(&format!("ax.dtord {} {}", enc_dt(&a), enc_dt(&b)), &match &ord {
                Ok((cm, pc, e, lt, mx, ..)) => format!("{cm} {} {e} {lt} {}", pc.map(|v| v.to_string()).unwrap_or_else(|| "none".into()), enc_dt(mx)),
                Err(()) => "panic".into(),
            });
            match &ord {
                Ok((cm, pc, e, lt, mx, le, gt, ge, mn)) => {
                    if *pc != Some(*cm) || *e != (*cm == 0) || *lt != (*cm < 0) || *le != (*cm <= 0) || *gt != (*cm > 0) || *ge != (*cm >= 0) || *mx != (if *cm > 0 { a } else { b }) || *mn != (if *cm > 0 { b } else { a }) {
                        fl.hit(c, "Ord / PartialOrd / PartialEq / max / min of NaiveDateTime are not one order", || format!("{} | {}", enc_dt(&a), enc_dt(&b)));
                    }
                    // independent of chrono's comparisons: lexicographic on (day number, second of day, nanosecond field)
                    let key = |d: &NaiveDateTime| (dn(&d.date()), d.time().num_seconds_from_midnight(), d.time().nanosecond());
                    if *cm != key(&a).cmp(&key(&b)) as i32 {
                        fl.hit(c, "the derived order of NaiveDateTime is not lexicographic on (day, second of day, nanosecond field)", || format!("{} | {}", enc_dt(&a), enc_dt(&b)));
                    }
                    if !is_leap_dt(&a) && !is_leap_dt(&b) && *cm != (inst(&a) - inst(&b)).signum() as i32 {
                        fl.hit(c, "the derived order of non-leap NaiveDateTime values is not the order of their instants", || format!("{} | {}", enc_dt(&a), enc_dt(&b)));
                    }
                    c.count(match cm { 0 => "dtord:equal", 1 => "dtord:later", _ => "dtord:earlier" });
                    if a.date() != b.date() && (a.time() < b.time()) != (a.date() < b.date()) {
                        c.count("dtord:date-and-time-order-opposed(field order matters)");
                    }
                }
                Err(()) => fl.hit(c, "comparing NaiveDateTime values panicked", || format!("{} | {}", enc_dt(&a), enc_dt(&b))),
            }
        }
        let nonleap = !is_leap_dt(&a) && !is_leap_dt(&b);
        c.count(if nonleap { "dtdiff:non-leap" } else { "dtdiff:leap-operand(correspondence only)" });
        match &got {
            Ok((x, y)) => {
                if x != y {
                    fl.hit(c, "`a - b` differs from signed_duration_since", || format!("{:?} {:?}", a, b));
                }
                if nonleap {
                    if td_ns(x) != inst(&a) - inst(&b) {
                        fl.hit(c, "date-time difference is not the exact signed distance in nanoseconds", || format!("{:?} - {:?} -> {}", a, b, show_td(x)));
                    }
                    if guard(|| b.checked_add_signed(*x)) != Ok(Some(a)) {
                        fl.hit(c, "b + (a − b) ≠ a for date-times", || format!("{:?} {:?}", a, b));
                    }
                    if guard(|| a.checked_sub_signed(*x)) != Ok(Some(b)) {
                        fl.hit(c, "a − (a − b) ≠ b for date-times", || format!("{:?} {:?}", a, b));
                    }
                    if (a.cmp(&b) as i32) != (td_ns(x).signum() as i32) {
                        fl.hit(c, "date-time order does not follow the sign of the difference", || format!("{:?} {:?}", a, b));
                    }
                    if (inst(&a) == imax && inst(&b) == imin) || (inst(&a) == imin && inst(&b) == imax) {
                        c.count("dtdiff:full-range(MAX−MIN or MIN−MAX)");
                    }
                    if a.date() != b.date() && (a.time() < b.time()) != (a.date() < b.date()) {
                        c.count("dtdiff:date-part-and-time-part-of-opposite-sign");
                    }
                }
            }
            Err(()) => fl.hit(c, "date-time difference panicked", || format!("{:?} - {:?}", a, b)),
        }
    }

    // =========================== 5. zone-aware values: the offset does not enter ==================
    let n_z = c.n(40_000, 500_000);
    for it in 0..n_z {
        let utc = g_dt(c, true);
        let off = g_off(c);
        let fo = FixedOffset::east_opt(off).unwrap();
        let z = DateTime::<FixedOffset>::from_naive_utc_and_offset(utc, fo);
        let ns = g_delta_for(c, &utc);
        let td = td_of_ns(ns);
        let (ds, dnn) = td_raw(&td);
        let add = c.rng.chance(1, 2);
        let got = guard(|| if add { z.checked_add_signed(td) } else { z.checked_sub_signed(td) });
        c.op(&format!("{} {} {ds} {dnn}", if add { "ar.zadd" } else { "ar.zsub" }, enc_z(&z)), &s_oz(&got));
        let naive = guard(|| if add { utc.checked_add_signed(td) } else { utc.checked_sub_signed(td) });
        match (&got, &naive) {
            (Ok(Some(r)), Ok(Some(n))) if r.naive_utc() == *n && r.offset().local_minus_utc() == off => c.count("zoned±delta:value"),
            (Ok(None), Ok(None)) => c.count("zoned±delta:refused"),
            _ => fl.hit(c, "zone-aware ± duration is not the UTC value ± duration with the offset kept", || format!("{:?} {ds} {dnn}", z)),
        }
        // the same instant under another offset gives the same instant
        let off2 = g_off(c);
        let z2 = z.with_timezone(&FixedOffset::east_opt(off2).unwrap());
        let got2 = guard(|| if add { z2.checked_add_signed(td) } else { z2.checked_sub_signed(td) });
        match (&got, &got2) {
            (Ok(Some(x)), Ok(Some(y))) if x == y && x.naive_utc() == y.naive_utc() => {}
            (Ok(None), Ok(None)) => {}
            _ => fl.hit(c, "the result of zone-aware arithmetic depends on the offset", || format!("{:?} / {:?} {ds} {dnn}", z, z2)),
        }
        if it % 4 == 0 {
            let op = guard(|| {
                let mut x = z;
                if add {
                    x += td;
                    (z + td, x)
                } else {
                    x -= td;
                    (z - td, x)
                }
            });
            c.op(&format!("{} {} {ds} {dnn}", if add { "ar.zopadd" } else { "ar.zopsub" }, enc_z(&z)), &s_z(&op.map(|p| p.0)));
            c.op(&format!("ax.zasg {} {} {ds} {dnn}", if add { "+" } else { "-" }, enc_z(&z)), &s_z(&op.map(|p| p.1)));
            if !is_leap_dt(&utc) {
                let target = inst(&utc) + if add { ns } else { -ns };
                let in_range = target >= imin && target <= imax;
                match &op {
                    Ok((a, b)) if in_range && inst(&a.naive_utc()) == target && inst(&b.naive_utc()) == target && a.offset().local_minus_utc() == off && b.offset().local_minus_utc() == off => {}
                    Err(()) if !in_range => {}
                    _ => fl.hit(c, "`DateTime ± TimeDelta` / `±=` is not the exact instant with the offset kept / does not panic exactly when the instant is not representable", || format!("{} {ds} {dnn}", enc_z(&z))),
                }
            }
            match (&got, &op) {
                (Ok(Some(x)), Ok((a, b))) if enc_z(a) == enc_z(x) && enc_z(b) == enc_z(x) => {}
                (Ok(None), Err(())) => {}
                _ => fl.hit(c, "`DateTime ± TimeDelta` / `±=` disagree with the checked form", || format!("{:?} {ds} {dnn}", z)),
            }
        }
        if it % 8 == 1 {
            let (ss, nn): (u64, u32) = match c.rng.below(4) {
                0 => (ns.unsigned_abs().div_euclid(NS as u128) as u64, (ns.unsigned_abs() % NS as u128) as u32),
                1 => ((TD_MAX_S as u64).wrapping_add(c.rng.range(-1, 1) as u64), *c.rng.pick(&[0u32, 807_000_000, 807_000_001])),
                2 => (u64::MAX - c.rng.below(2), c.rng.nanos()),
                _ => (c.rng.below(200_000), c.rng.nanos()),
            };
            let sd = Duration::new(ss, nn);
            let op = guard(|| {
                let mut x = z;
                if add {
                    x += sd;
                    (z + sd, x)
                } else {
                    x -= sd;
                    (z - sd, x)
                }
            });
            c.op(&format!("{} {} {ss} {nn}", if add { "ar.zstdadd" } else { "ar.zstdsub" }, enc_z(&z)), &s_z(&op.clone().map(|p| p.0)));
            c.op(&format!("ax.zstdasg {} {} {ss} {nn}", if add { "+" } else { "-" }, enc_z(&z)), &s_z(&op.clone().map(|p| p.1)));
            if !is_leap_dt(&utc) {
                let k = ss as i128 * NS + nn as i128;
                let target = inst(&utc) + if add { k } else { -k };
                let fits = k <= TD_MAX_NS && target >= imin && target <= imax;
                match &op {
                    Ok((a, b)) if fits && inst(&a.naive_utc()) == target && inst(&b.naive_utc()) == target && a.offset().local_minus_utc() == off => {}
                    Err(()) if !fits => {}
                    _ => fl.hit(c, "`DateTime ± std Duration` is not the exact instant / does not panic exactly when it is not representable", || format!("{} {ss} {nn}", enc_z(&z))),
                }
            }
            if let Ok((a, b)) = &op {
                if enc_z(a) != enc_z(b) {
                    fl.hit(c, "`DateTime ± std Duration` and `±=` disagree", || format!("{:?} {ss} {nn}", z));
                }
            }
        }
        // differences across offsets
        if it % 2 == 0 {
            let other = match c.rng.below(4) {
                0 => utc,
                1 => naive.clone().ok().flatten().unwrap_or(utc),
                _ => g_dt(c, true),
            };
            let w = DateTime::<FixedOffset>::from_naive_utc_and_offset(other, FixedOffset::east_opt(off2).unwrap());
            let d1 = guard(|| z.signed_duration_since(w));
            c.op(&format!("ar.zdiff {} {}", enc_z(&z), enc_z(&w)), &s_td(&d1));
            let d2 = guard(|| utc.signed_duration_since(other));
            let d3 = guard(|| z - w);
            // `impl Sub<&DateTime<Tz>> for DateTime<Tz>` (the borrowed operand) is its own impl
            let d4 = guard(|| z - &w);
            c.op(&format!("ax.zdiffop {} {}", enc_z(&z), enc_z(&w)), &s_td(&d3));
            c.op(&format!("ax.zdiffref {} {}", enc_z(&z), enc_z(&w)), &s_td(&d4));
            if d1 != d2 || d1 != d3 || d1 != d4 {
                fl.hit(c, "the difference of zone-aware values is not the difference of their UTC values", || format!("{:?} {:?}", z, w));
            }
            // Ord / PartialOrd / PartialEq, also against a value of another zone type
            let wu: DateTime<Utc> = DateTime::<Utc>::from_naive_utc_and_offset(other, Utc);
            let ord = guard(|| (z.cmp(&w) as i32, z.partial_cmp(&w).map(|o| o as i32), z == w, z.partial_cmp(&wu).map(|o| o as i32), z == wu, z < w, z <= w, z > w, z >= w));
            c.op(&format!("ax.zcmp {} {}", enc_z(&z), enc_z(&w)), &match &ord {
                Ok((a, b, e, ..)) => format!("{a} {} {e}", b.map(|v| v.to_string()).unwrap_or_else(|| "none".into())),
                Err(()) => "panic".into(),
            });
            match &ord {
                Ok((a, b, e, b2, e2, lt, le, gt, ge)) => {
                    if *b != Some(*a) || *b2 != Some(*a) || *e != (*a == 0) || *e2 != *e || *lt != (*a < 0) || *le != (*a <= 0) || *gt != (*a > 0) || *ge != (*a >= 0) {
                        fl.hit(c, "Ord / PartialOrd / PartialEq of zone-aware values are not one order", || format!("{} {}", enc_z(&z), enc_z(&w)));
                    }
                    // every operand, leap-second representations included: lexicographic on
                    // (whole seconds since the epoch, nanosecond field) — theorem zoned_cmp_general
                    let key = |d: &NaiveDateTime| ((dn(&d.date()) as i128 - EPOCH_DAY) * 86_400 + d.time().num_seconds_from_midnight() as i128, d.time().nanosecond());
                    if *a != key(&utc).cmp(&key(&other)) as i32 {
                        fl.hit(c, "the order of zone-aware values is not lexicographic on (seconds since the epoch, nanosecond field)", || format!("{} {}", enc_z(&z), enc_z(&w)));
                    }
                    if is_leap_dt(&utc) || is_leap_dt(&other) {
                        c.count("zcmp:leap-second-operand");
                    }
                    if !is_leap_dt(&utc) && !is_leap_dt(&other) {
                        let want = (inst(&utc) - inst(&other)).signum() as i32;
                        c.count(match want { 0 => "zcmp:equal-instants", 1 => "zcmp:later", _ => "zcmp:earlier" });
                        if *a != want {
                            fl.hit(c, "the order of zone-aware values is not the order of their instants", || format!("{} {}", enc_z(&z), enc_z(&w)));
                        }
                    }
                }
                Err(()) => fl.hit(c, "comparing zone-aware values panicked", || format!("{} {}", enc_z(&z), enc_z(&w))),
            }
            if let Ok(x) = &d1 {
                if (z.cmp(&w) as i32) != (utc.cmp(&other) as i32) || (!is_leap_dt(&utc) && !is_leap_dt(&other) && (z.cmp(&w) as i32) != td_ns(x).signum() as i32) {
                    fl.hit(c, "order of zone-aware values does not follow the instants", || format!("{:?} {:?}", z, w));
                }
            }
        }
    }

    // =========================== 6. iterators ======================================================
    let n_it = c.n(3_000, 40_000);
    for _ in 0..n_it {
        let kind = *c.rng.pick(&["days", "daysb", "weeks", "weeksb"]);
        let step: i64 = if kind.starts_with("weeks") { 7 } else { 1 };
        let back = kind.ends_with('b');
        let cap = 1 + c.rng.below(24) as usize;
        // start so that the end of the range is reached within (or just beyond) the cap, or anywhere
        let start = match c.rng.below(40) {
            0..=9 => g_date(c),
            // the cursors halfway between MIN and MAX: the only ones whose hint is also right backward
            10 => date_of_dn((dmin + dmax) / 2 + c.rng.range(-8, 8)),
            _ => {
                let k = (c.rng.below(cap as u64 + 3) as i64 * step + c.rng.range(0, step - 1)) as u64;
                if back != c.rng.chance(1, 12) {
                    date_of_dn(dmin + k as i64)
                } else {
                    date_of_dn(dmax - k as i64)
                }
            }
        };
        let res = guard(|| {
            let mut out: Vec<(usize, Option<usize>, usize, Option<NaiveDate>)> = vec![];
            let mut days = start.iter_days();
            let mut weeks = start.iter_weeks();
            for _ in 0..cap {
                let (h, item) = if step == 1 {
                    let h = days.size_hint();
                    (h, if back { days.next_back() } else { days.next() })
                } else {
                    let h = weeks.size_hint();
                    (h, if back { weeks.next_back() } else { weeks.next() })
                };
                let len = if step == 1 { h.0 } else { h.0 };
                out.push((h.0, h.1, len, item));
                if item.is_none() {
                    break;
                }
            }
            out
        });
        let text = match &res {
            Ok(v) => {
                let mut parts: Vec<String> = v
                    .iter()
                    .map(|(h, _, _, item)| match item {
                        Some(d) => format!("{h}:{}", yof(d)),
                        None => format!("{h}:end"),
                    })
                    .collect();
                if v.last().map(|x| x.3.is_some()).unwrap_or(true) {
                    parts.push("more".into());
                }
                parts.join(" ")
            }
            Err(()) => "panic".into(),
        };
        c.op(&format!("ar.iter {kind} {cap} {}", yof(&start)), &text);
        match &res {
            Ok(v) => {
                let s0 = dn(&start);
                let total_fwd = (dmax - s0) / step; // items a forward iterator yields from `start`
                let total_back = (s0 - dmin) / step;
                let ended = v.last().map(|x| x.3.is_none()).unwrap_or(false);
                c.count(&format!("iter:{kind}:{}", if ended { "drained-to-the-range-limit" } else { "cap-reached" }));
                for (k, (lo, hi, _, item)) in v.iter().enumerate() {
                    if *hi != Some(*lo) {
                        fl.hit(c, "iterator size_hint bounds differ", || format!("{kind} {:?}", start));
                    }
                    if let Some(d) = item {
                        let want = s0 + if back { -(k as i64) * step } else { k as i64 * step };
                        if dn(d) != want || !well_formed(d) {
                            fl.hit(c, "the k-th item of the iterator is not start ± k steps", || format!("{kind} {:?} k={k} -> {}", start, pd(d)));
                        }
                    }
                    if !back {
                        // forward: the hint before the k-th call is the number of items still to come
                        let remaining = (total_fwd - k as i64).max(0);
                        if *lo as i64 != remaining {
                            fl.hit(c, "size_hint is not the number of items the iterator still produces", || format!("{kind} {:?} k={k} hint={lo} remaining={remaining}", start));
                        }
                    } else {
                        // backward: the property's "exact length hint" read for next_back (finding F28) …
                        let remaining = (total_back - k as i64).max(0);
                        if *lo as i64 != remaining {
                            c.count("iter:back:hint≠items-still-produced(F28)");
                            fl.hit(c, "backward iteration: size_hint is not the number of items next_back still produces", || format!("{kind} {:?} k={k} hint={lo} remaining={remaining}", start));
                        } else {
                            c.count("iter:back:hint=items-still-produced(cursor halfway)");
                        }
                        // … and what does hold (theorem iter_back_hint): the cursor stands k steps below the
                        // start (one fewer if the last call was refused) and the hint is the forward count
                        // from the cursor, so it grows by one per item
                        let moved = (k as i64).min(total_back);
                        let fwd_from_cursor = (dmax - (s0 - moved * step)) / step;
                        if *lo as i64 != fwd_from_cursor {
                            fl.hit(c, "size_hint of a backward-driven iterator is not the forward count from its cursor", || format!("{kind} {:?} k={k} hint={lo} expected={fwd_from_cursor}", start));
                        }
                    }
                }
                let produced = v.iter().filter(|x| x.3.is_some()).count() as i64;
                let total = if back { total_back } else { total_fwd };
                if total == 0 && produced == 0 {
                    // fewer than one step before the limit: not even the start date is handed out
                    // (theorem iter_never_yields_limit; judged in the F34 block below)
                    c.count(&format!("iter:{kind}:start-not-yielded(fewer than one step from the limit)"));
                }
                if v.iter().any(|x| x.3 == Some(if back { NaiveDate::MIN } else { NaiveDate::MAX })) {
                    fl.hit(c, "an iterator handed out the range limit itself (the model and the crate's own tests say it never does)", || format!("{kind} {:?}", start));
                }
                if ended && produced != total {
                    fl.hit(c, "the iterator did not end at the range limit", || format!("{kind} {:?}: {produced} items, {total} steps fit", start));
                }
                if !ended && produced > total {
                    fl.hit(c, "the iterator ran past the range limit", || format!("{kind} {:?}", start));
                }
                // fused: after the end it keeps returning None
                if ended {
                    let again = guard(|| {
                        if step == 1 {
                            let mut i = start.iter_days();
                            for _ in 0..produced {
                                if back { i.next_back(); } else { i.next(); }
                            }
                            let a = if back { i.next_back() } else { i.next() };
                            let b = if back { i.next_back() } else { i.next() };
                            (a, b)
                        } else {
                            let mut i = start.iter_weeks();
                            for _ in 0..produced {
                                if back { i.next_back(); } else { i.next(); }
                            }
                            let a = if back { i.next_back() } else { i.next() };
                            let b = if back { i.next_back() } else { i.next() };
                            (a, b)
                        }
                    });
                    if again != Ok((None, None)) {
                        fl.hit(c, "an exhausted iterator produced another item", || format!("{kind} {:?}", start));
                    }
                }
            }
            Err(()) => fl.hit(c, "iterator panicked", || format!("{kind} {:?}", start)),
        }
    }
    // ---- size_hint as the pair the source returns (op ax.hint) ---------------------------------
    for _ in 0..c.n(4_000, 50_000) {
        let weeks = c.rng.chance(1, 2);
        let step: i64 = if weeks { 7 } else { 1 };
        let start = match c.rng.below(5) {
            0 => g_date(c),
            1 => date_of_dn(dmax - c.rng.below(30) as i64),
            2 => date_of_dn(dmin + c.rng.below(30) as i64),
            3 => date_of_dn((dmin + dmax) / 2 + c.rng.range(-9, 9)),
            _ => gen_date(c),
        };
        let h = guard(|| if weeks { start.iter_weeks().size_hint() } else { start.iter_days().size_hint() });
        let kind = if weeks { "weeks" } else { "days" };
        c.op(&format!("ax.hint {kind} {}", yof(&start)), &match &h {
            Ok((lo, Some(hi))) => format!("{lo} {hi}"),
            Ok((lo, None)) => format!("{lo} none"),
            Err(()) => "panic".into(),
        });
        let want = ((dmax - dn(&start)) / step) as usize;
        if h != Ok((want, Some(want))) {
            fl.hit(c, "size_hint is not (n, Some(n)) with n the days / whole weeks from the cursor up to MAX", || format!("{kind} {:?} -> {:?}, expected {want}", start, h));
        }
        c.count(if want == 0 { "hint-pair:zero" } else { "hint-pair:positive" });
    }

    // ---- interleaved next / next_back on one iterator (ops ax.mix, ax.run) --------------------
    for it in 0..c.n(6_000, 80_000) {
        let weeks = c.rng.chance(1, 2);
        let step: i64 = if weeks { 7 } else { 1 };
        let kind = if weeks { "weeks" } else { "days" };
        let len = 1 + c.rng.below(16) as usize;
        let bias = c.rng.below(4); // 0: mostly forward, 1: mostly backward, else even
        let script: String = (0..len)
            .map(|_| {
                let b = match bias {
                    0 => c.rng.chance(1, 5),
                    1 => c.rng.chance(4, 5),
                    _ => c.rng.chance(1, 2),
                };
                if b { 'b' } else { 'f' }
            })
            .collect();
        let start = match c.rng.below(4) {
            0 => g_date(c),
            1 => date_of_dn(dmax - c.rng.below(4 * step as u64 + 2) as i64),
            2 => date_of_dn(dmin + c.rng.below(4 * step as u64 + 2) as i64),
            _ => gen_date(c),
        };
        type Step = ((usize, Option<usize>), Option<NaiveDate>);
        let res: Result<(Vec<Step>, (usize, Option<usize>)), ()> = guard(|| {
            let mut out = vec![];
            let mut days = start.iter_days();
            let mut wks = start.iter_weeks();
            for ch in script.chars() {
                let h = if weeks { wks.size_hint() } else { days.size_hint() };
                let item = match (weeks, ch) {
                    (false, 'f') => days.next(),
                    (false, _) => days.next_back(),
                    (true, 'f') => wks.next(),
                    (true, _) => wks.next_back(),
                };
                out.push((h, item));
            }
            (out, if weeks { wks.size_hint() } else { days.size_hint() })
        });
        let sh = |h: &(usize, Option<usize>)| format!("{}/{}", h.0, h.1.map(|v| v.to_string()).unwrap_or_else(|| "none".into()));
        if it % 2 == 0 {
            c.op(&format!("ax.mix {kind} {script} {}", yof(&start)), &match &res {
                Ok((v, last)) => {
                    let mut parts: Vec<String> = v.iter().map(|(h, item)| format!("{}:{}", sh(h), item.map(|d| yof(&d).to_string()).unwrap_or_else(|| "none".into()))).collect();
                    parts.push(sh(last));
                    parts.join(" ")
                }
                Err(()) => "panic".into(),
            });
        } else {
            c.op(&format!("ax.run {kind} {script} {}", yof(&start)), &match &res {
                Ok((v, _)) => v.iter().map(|(_, item)| item.map(|d| yof(&d).to_string()).unwrap_or_else(|| "none".into())).collect::<Vec<_>>().join(" "),
                Err(()) => "panic".into(),
            });
        }
        match &res {
            Ok((v, last)) => {
                // independent: one cursor on day numbers
                let mut cur = dn(&start);
                let mut seen: Vec<i64> = vec![];
                let mut turned = false;
                let mut prev: Option<char> = None;
                for ((h, item), ch) in v.iter().zip(script.chars()) {
                    let want_h = ((dmax - cur) / step) as usize;
                    if *h != (want_h, Some(want_h)) {
                        fl.hit(c, "interleaved calls: size_hint is not the forward count from the cursor", || format!("{kind} {script} {:?}: {:?}, expected {want_h}", start, h));
                    }
                    let target = if ch == 'f' { cur + step } else { cur - step };
                    let fits = target >= dmin && target <= dmax;
                    match item {
                        Some(d) if fits && dn(d) == cur && well_formed(d) => {
                            if seen.contains(&cur) {
                                c.count("iter:mix:a-date-returned-twice(one cursor, not two ends; see F28)");
                            }
                            seen.push(cur);
                            cur = target;
                        }
                        None if !fits => c.count("iter:mix:call-refused-at-range-end"),
                        _ => fl.hit(c, "interleaved next/next_back: a call did not return the cursor and move it by exactly one step (or refuse exactly at the range end)", || format!("{kind} {script} {:?} at '{ch}' cursor day {cur} -> {:?}", start, item.map(|d| pd(&d)))),
                    }
                    if prev.is_some() && prev != Some(ch) {
                        turned = true;
                    }
                    prev = Some(ch);
                }
                let want_h = ((dmax - cur) / step) as usize;
                if *last != (want_h, Some(want_h)) {
                    fl.hit(c, "interleaved calls: size_hint is not the forward count from the cursor", || format!("{kind} {script} {:?}: final {:?}, expected {want_h}", start, last));
                }
                c.count(if turned { "iter:mix:direction-changed" } else { "iter:mix:one-direction" });
                if !turned {
                    // Iterator::nth / DoubleEndedIterator::nth_back (std default methods): the item of the last call
                    let fwd = script.starts_with('f');
                    let k = len - 1;
                    let nth = guard(|| match (weeks, fwd) {
                        (false, true) => start.iter_days().nth(k),
                        (false, false) => start.iter_days().nth_back(k),
                        (true, true) => start.iter_weeks().nth(k),
                        (true, false) => start.iter_weeks().nth_back(k),
                    });
                    if nth != Ok(v.last().and_then(|x| x.1)) {
                        fl.hit(c, "nth(k) / nth_back(k) is not the item of the (k+1)-th call", || format!("{kind} {script} {:?}", start));
                    }
                    c.count("iter:nth/nth_back = item of the last call of a one-direction script");
                    // within one direction no day is repeated or skipped
                    let mut s2 = seen.clone();
                    s2.dedup();
                    if s2.len() != seen.len() || seen.windows(2).any(|w| (w[1] - w[0]).abs() != step) {
                        fl.hit(c, "one-direction iteration repeated or skipped a day", || format!("{kind} {script} {:?}", start));
                    }
                }
            }
            Err(()) => fl.hit(c, "interleaved iterator calls panicked", || format!("{kind} {script} {:?}", start)),
        }
    }

    // ---- zone-aware values at the range ends, every kind of offset ------------------------------
    for it in 0..c.n(6_000, 80_000) {
        let at_max = c.rng.chance(1, 2);
        let j: i128 = match c.rng.below(4) {
            0 => 0,
            1 => c.rng.below(3) as i128,
            2 => c.rng.below(3) as i128 * NS + c.rng.below(2) as i128,
            _ => c.rng.below(200_000) as i128 * NS + c.rng.below(1_000_000_000) as i128,
        };
        let i0 = if at_max { imax - j } else { imin + j };
        let utc = {
            let day = i0.div_euclid(DAY);
            let tod = i0.rem_euclid(DAY);
            NaiveDateTime::new(date_of_dn((day + EPOCH_DAY) as i64), mk_time((tod / NS) as u32, (tod % NS) as u32))
        };
        let off = match c.rng.below(3) {
            0 => *c.rng.pick(&[86_399, -86_399, 86_398, -86_398, 0, 1, -1]),
            _ => g_off(c),
        };
        let z = DateTime::<FixedOffset>::from_naive_utc_and_offset(utc, FixedOffset::east_opt(off).unwrap());
        // towards / across the near end, or across the whole range to the far end
        let toward: i128 = if at_max { 1 } else { -1 };
        let ns: i128 = match c.rng.below(6) {
            0 => toward * j,
            1 => toward * (j + 1),
            2 => toward * (j + c.rng.below(3) as i128),
            3 => -toward * (imax - imin - j),
            4 => -toward * (imax - imin - j + 1),
            _ => toward * c.rng.range(-3, 3) as i128 * *c.rng.pick(&[1i128, NS, DAY]),
        };
        let ns = ns.clamp(-TD_MAX_NS, TD_MAX_NS);
        let td = td_of_ns(ns.abs());
        let (ds, dnn) = td_raw(&td);
        let add = ns >= 0;
        let got = guard(|| if add { z.checked_add_signed(td) } else { z.checked_sub_signed(td) });
        c.op(&format!("{} {} {ds} {dnn}", if add { "ar.zadd" } else { "ar.zsub" }, enc_z(&z)), &s_oz(&got));
        let target = i0 + ns;
        let in_range = target >= imin && target <= imax;
        let local_out = { let l = i0 + off as i128 * NS; l < imin || l > imax };
        c.count(&format!("zoned-range-end:{}:{}", if in_range { "value" } else { "refused" }, if local_out { "wall-clock-outside-the-range" } else { "wall-clock-inside" }));
        if target == imin || target == imax {
            c.count("zoned-range-end:lands-exactly-on-MIN/MAX");
        }
        match &got {
            Ok(Some(r)) if in_range && inst(&r.naive_utc()) == target && r.offset().local_minus_utc() == off && !is_leap_dt(&r.naive_utc()) => {}
            Ok(None) if !in_range => {}
            _ => fl.hit(c, "zone-aware value at the range end: the sum is not the exact instant with the offset kept, or the offset entered the range check", || format!("{} {ds} {dnn} add={add} -> {}", enc_z(&z), s_oz(&got))),
        }
        // distance to the other end / to itself under another offset
        if it % 2 == 0 {
            let other_i = match c.rng.below(3) {
                0 => if at_max { imin } else { imax },
                1 => i0,
                _ => if at_max { imin + c.rng.below(5) as i128 } else { imax - c.rng.below(5) as i128 },
            };
            let o = {
                let day = other_i.div_euclid(DAY);
                let tod = other_i.rem_euclid(DAY);
                NaiveDateTime::new(date_of_dn((day + EPOCH_DAY) as i64), mk_time((tod / NS) as u32, (tod % NS) as u32))
            };
            let w = DateTime::<FixedOffset>::from_naive_utc_and_offset(o, FixedOffset::east_opt(g_off(c)).unwrap());
            let d = guard(|| z.signed_duration_since(w));
            c.op(&format!("ar.zdiff {} {}", enc_z(&z), enc_z(&w)), &s_td(&d));
            match &d {
                Ok(x) if td_ns(x) == i0 - other_i => {}
                _ => fl.hit(c, "zone-aware values at the range ends: the difference is not the distance of the instants", || format!("{} {}", enc_z(&z), enc_z(&w))),
            }
        }
    }

    // ---- NaiveDate::signed_duration_since at its extremes -------------------------------------------
    for _ in 0..c.n(400, 4_000) {
        let a = date_of_dn(if c.rng.chance(1, 2) { dmax - c.rng.below(3) as i64 } else { dmin + c.rng.below(3) as i64 });
        let b = date_of_dn(if c.rng.chance(1, 2) { dmax - c.rng.below(3) as i64 } else { dmin + c.rng.below(3) as i64 });
        let diff = guard(|| a.signed_duration_since(b));
        c.op(&format!("ar.ddiff {} {}", yof(&a), yof(&b)), &s_td(&diff));
        match &diff {
            Ok(x) if td_ns(x) == (dn(&a) - dn(&b)) as i128 * DAY && td_ns(x).abs() <= (dmax - dmin) as i128 * DAY => {
                if td_ns(x).abs() == (dmax - dmin) as i128 * DAY {
                    c.count("ddiff:extreme(±full range)");
                }
            }
            _ => fl.hit(c, "date difference at the range ends is not the exact number of days", || format!("{:?} - {:?}", a, b)),
        }
    }

    // ExactSizeIterator::len and count() on short forward drains
    for k in 0..c.n(40, 400) as u64 {
        let start = date_of_dn(dmax - k as i64);
        let (last_want, nth_want) = (date_of_dn(dmax - 1), date_of_dn(dmax - k as i64 + k as i64 / 2));
        let r = guard(|| (start.iter_days().len(), start.iter_days().count(), start.iter_weeks().len(), start.iter_weeks().count(), start.iter_days().last(), start.iter_days().nth(k as usize / 2)));
        match r {
            Ok((l1, c1, l2, c2, last, nth)) => {
                if l1 != c1 || l2 != c2 || l1 as u64 != k || l2 as u64 != k / 7 {
                    fl.hit(c, "ExactSizeIterator::len differs from the number of items", || format!("{:?}: days {l1}/{c1}, weeks {l2}/{c2}", start));
                }
                if k > 0 && (last != Some(last_want) || nth != Some(nth_want)) {
                    fl.hit(c, "last()/nth() of the day iterator", || format!("{:?}", start));
                }
                c.count("iter:len==count near MAX");
            }
            Err(()) => fl.hit(c, "iterator len()/count() panicked", || format!("{:?}", start)),
        }
    }
    // ---- "end at the range limit", read literally (finding F34) ------------------------------------
    // The property says the iterators "end at the range limit".  Read literally — the last item of a
    // complete drain is the last date of the progression that is still representable — the crate does
    // not do that: `next` computes the successor before handing out the cursor, so the limit date is
    // never produced and a week iterator started less than a week before the limit produces nothing
    // (pinned by the crate's own tests test_day_iterator_limit / test_week_iterator_limit; theorems
    // iter_never_yields_limit, iter_yields_exactly, iter_limit_counterexample).  One representative
    // report per iterator kind and direction.
    for (kind, step, back) in [("iter_days().next()", 1i64, false), ("iter_weeks().next()", 7, false), ("iter_days().next_back()", 1, true), ("iter_weeks().next_back()", 7, true)] {
        for k in [0i64, 2, 6, 9] {
            let start = if back { date_of_dn(dmin + k) } else { date_of_dn(dmax - k) };
            let got = guard(|| {
                let mut v: Vec<NaiveDate> = vec![];
                let mut i = start.iter_days();
                let mut w = start.iter_weeks();
                for _ in 0..40 {
                    let x = match (step, back) {
                        (1, false) => i.next(),
                        (1, true) => i.next_back(),
                        (_, false) => w.next(),
                        _ => w.next_back(),
                    };
                    match x {
                        Some(d) => v.push(d),
                        None => break,
                    }
                }
                v
            });
            // literal reading: every date start ± step·j that is representable, up to and including the limit
            let want_last = if back { dn(&start) - (dn(&start) - dmin) / step * step } else { dn(&start) + (dmax - dn(&start)) / step * step };
            match &got {
                Ok(v) => {
                    let last = v.last().map(dn);
                    if last == Some(want_last) {
                        c.count("iter:limit:literal-reading-holds(the last representable date of the progression is the last item)");
                    } else {
                        c.count(&format!("iter:limit:stops-one-step-short(F34):{kind}"));
                        if k == 2 || (step == 7 && k == 6) {
                            // what does hold: exactly one step is missing
                            let ok = match last {
                                Some(l) => (want_last - l).abs() == step,
                                None => want_last == dn(&start),
                            };
                            if !ok {
                                fl.hit(c, "a drained iterator misses more than the final step before the range limit", || format!("{kind} from {:?}", start));
                            }
                        }
                        if (step == 1 && k == 2) || (step == 7 && k == 6) {
                            c.fail(
                                &format!("iterator stops one step short of the range limit: {kind}"),
                                &format!("from {:?}: last item {} but {} is representable and on the progression ({} items produced)", start, v.last().map(pd).unwrap_or_else(|| "<none: not even the start date>".into()), pd(&date_of_dn(want_last)), v.len()),
                            );
                        }
                    }
                }
                Err(()) => fl.hit(c, "iterator panicked", || format!("{kind} {:?}", start)),
            }
        }
    }

    // ---- DateTime<Local>: a general `Tz` whose `from_utc_datetime` re-derives the offset ------------
    // (second review, gap G4)  The Lean model of zone-aware values carries a fixed offset; for `Local`
    // the offset of the result is looked up again.  C03's claim is that this does not touch the
    // instant: the UTC reading of every result is that of `DateTime<Utc>`, `None` / panic coincide,
    // and (correspondence) the model's UTC-zone value agrees.
    for tz in ["Europe/London", "America/New_York", "Pacific/Apia", "EST5EDT,M3.2.0,M11.1.0"] {
        let n = c.n(400, 6_000);
        let mut cases: Vec<(NaiveDateTime, NaiveDateTime, i128)> = vec![];
        for i in 0..n {
            let utc = match i % 8 {
                0 => NaiveDateTime::new(NaiveDate::MIN, mk_time(0, 0)),
                1 => NaiveDateTime::new(NaiveDate::MAX, mk_time(86_399, 999_999_999)),
                // around DST switches of the northern / southern hemisphere and the Apia date-line jump
                2 => NaiveDateTime::new(NaiveDate::from_ymd_opt(*c.rng.pick(&[1900, 1970, 2011, 2024, 2037, 2038, 9999]), *c.rng.pick(&[3, 4, 10, 11, 12]), 1 + c.rng.below(28) as u32).unwrap(), mk_time(g_secs(c), g_frac(c, false))),
                _ => g_dt(c, i % 16 == 3),
            };
            let ns = g_delta_for(c, &utc);
            let other = match c.rng.below(3) {
                0 => utc,
                _ => g_dt(c, false),
            };
            cases.push((utc, other, ns));
        }
        let (ops, fails, cnt) = through_local_arith(tz, cases, imin, imax);
        for (o, r) in ops {
            c.op(&o, &r);
        }
        for (w, d) in fails {
            fl.hit(c, &w, || d);
        }
        for (k, v) in cnt {
            for _ in 0..v {
                c.count(&k);
            }
        }
    }

    c.sample(&format!("ar.dtadd MAX(86399.999999999) +1ns -> {}", s_odt(&guard(|| NaiveDateTime::new(NaiveDate::MAX, mk_time(86_399, 999_999_999)).checked_add_signed(td_of_ns(1))))));
    c.sample(&format!("ar.ddiff MAX MIN -> {}", s_td(&guard(|| NaiveDate::MAX.signed_duration_since(NaiveDate::MIN)))));
}
