//! C13 — parsing with a format string inverts formatting with it.
//! Stage 1 (this file so far): correspondence of the item-driven parser (`format::parse_and_remainder`)
//! with the model on generated item lists and texts.
use crate::ctx::*;
use crate::items::encode_items;
use chrono::format::{parse_and_remainder, Item, Parsed, StrftimeItems};

pub fn dump_parsed(p: &Parsed) -> String {
    fn f<T: std::fmt::Display>(o: &Option<T>) -> String {
        match o {
            Some(v) => v.to_string(),
            None => "-".into(),
        }
    }
    let wd = match p.weekday {
        Some(w) => (w as u32).to_string(),
        None => "-".into(),
    };
    [
        f(&p.year), f(&p.year_div_100), f(&p.year_mod_100), f(&p.isoyear), f(&p.isoyear_div_100), f(&p.isoyear_mod_100),
        f(&p.quarter), f(&p.month), f(&p.week_from_sun), f(&p.week_from_mon), f(&p.isoweek), wd, f(&p.ordinal), f(&p.day),
        f(&p.hour_div_12), f(&p.hour_mod_12), f(&p.minute), f(&p.second), f(&p.nanosecond), f(&p.timestamp), f(&p.offset),
    ]
    .join(" ")
}

pub fn err_kind(e: &chrono::format::ParseError) -> String {
    format!("{:?}", e.kind())
}

const SPECS: &[&str] = &[
    "%Y", "%C", "%y", "%q", "%m", "%b", "%B", "%h", "%d", "%e", "%a", "%A", "%w", "%u", "%U", "%W", "%G", "%g", "%V", "%j", "%D", "%x",
    "%F", "%v", "%H", "%k", "%I", "%l", "%P", "%p", "%M", "%S", "%f", "%.f", "%.3f", "%.6f", "%.9f", "%3f", "%6f", "%9f", "%R", "%T",
    "%X", "%r", "%Z", "%z", "%:z", "%::z", "%:::z", "%#z", "%c", "%+", "%s", "%t", "%n", "%%", "%-d", "%_d", "%0e", "%-Y", "%_m", "%-H",
    "%-j", "%_j", "%-I", "%0k",
];
const SEPS: &[&str] = &["", " ", "-", ":", "/", "T", ", ", "  ", "\t", ".", "x", "é", "\u{3000}", "Z"];

fn gen_fmt(c: &mut Ctx) -> String {
    let n = 1 + c.rng.below(5);
    let mut s = String::new();
    for _ in 0..n {
        s.push_str(*c.rng.pick(SPECS));
        s.push_str(*c.rng.pick(SEPS));
    }
    s
}

fn gen_text_for(c: &mut Ctx, fmt: &str) -> String {
    // format a random value with the same format when possible, then perturb
    use chrono::{FixedOffset, NaiveDate, TimeZone};
    let y = *c.rng.pick(&[2024i32, 1999, 1, 0, -1, 9999, 10000, -9999, 123456, 1970, 1969, 2069, 1900]);
    let d = NaiveDate::from_yo_opt(y, c.rng.range(1, 365) as u32).unwrap();
    let secs = c.rng.below(86400) as u32;
    let nano = *c.rng.pick(&[0u32, 1, 500_000_000, 123_456_789, 999_999_999, 120_000_000, 1_500_000_000]);
    let nano = if nano >= 1_000_000_000 && secs % 60 != 59 { nano - 1_000_000_000 } else { nano };
    let t = chrono::NaiveTime::from_num_seconds_from_midnight_opt(secs, nano).unwrap();
    let off = *c.rng.pick(&[0i32, 3600, -3600, 19800, -12600, 86399, -86399, 1, 45296]);
    let dt = FixedOffset::east_opt(off).unwrap().from_utc_datetime(&d.and_time(t));
    let mut text = match guard(|| {
        use std::fmt::Write;
        let mut s = String::new();
        write!(s, "{}", dt.format(fmt)).map(|_| s)
    }) {
        Ok(Ok(s)) => s,
        _ => "2024-01-02 03:04:05".to_string(),
    };
    match c.rng.below(10) {
        0 => text.push_str(*c.rng.pick(&[" ", "x", "0", "é", ":", "Z"])),
        1 => {
            if !text.is_empty() {
                let mut cs: Vec<char> = text.chars().collect();
                let k = c.rng.below(cs.len() as u64) as usize;
                cs[k] = *c.rng.pick(&['0', '9', 'a', 'Z', ' ', '-', '+', ':', '\u{2212}', 'é', '6']);
                text = cs.into_iter().collect();
            }
        }
        2 => {
            if !text.is_empty() {
                let mut cs: Vec<char> = text.chars().collect();
                let k = c.rng.below(cs.len() as u64) as usize;
                cs.remove(k);
                text = cs.into_iter().collect();
            }
        }
        3 => {
            let mut cs: Vec<char> = text.chars().collect();
            let k = c.rng.below(cs.len() as u64 + 1) as usize;
            cs.insert(k, *c.rng.pick(&[' ', '\t', '0', '1', '\u{a0}', '\u{2003}', ':']));
            text = cs.into_iter().collect();
        }
        4 => text = text.to_uppercase(),
        5 => text = text.to_lowercase(),
        6 => {
            let k = c.rng.below(text.chars().count() as u64 + 1) as usize;
            text = text.chars().take(k).collect();
        }
        _ => {}
    }
    text
}

pub fn run(c: &mut Ctx) {
    let n = c.n(60000, 600000);
    for i in 0..n {
        let fmt = gen_fmt(c);
        let items: Vec<Item> = StrftimeItems::new(&fmt).collect();
        if items.iter().any(|x| matches!(x, Item::Error)) && i % 50 != 0 {
            continue;
        }
        let text = if c.rng.chance(1, 12) {
            let len = c.rng.below(14);
            (0..len).map(|_| *c.rng.pick(&['0', '1', '5', '9', ' ', '-', '+', ':', '.', 'a', 'P', 'M', 'T', 'Z', 'é', '\u{2212}', 'J'])).collect()
        } else {
            gen_text_for(c, &fmt)
        };
        let enc = encode_items(&items);
        let got = gs(
            || {
                let mut p = Parsed::new();
                parse_and_remainder(&mut p, &text, items.iter()).map(|rest| (dump_parsed(&p), rest.len()))
            },
            |r| match r {
                Ok((d, rest)) => format!("ok {} rest={}", d, rest),
                Err(e) => format!("err {}", err_kind(&e)),
            },
        );
        c.count(if got.starts_with("ok") { "parse:ok" } else { "parse:err" });
        if got == "panic" {
            c.fail("parse_and_remainder panicked", &format!("fmt {:?} text {:?}", fmt, text));
        }
        c.op(&format!("ps.items {} {}", enc, hex(text.as_bytes())), &got);
        if i < 3 {
            c.sample(&format!("fmt {:?} text {:?} -> {}", fmt, text, got));
        }
    }
}
