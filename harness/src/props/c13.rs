//! C13 — parsing with a format string inverts formatting with it.
//! Stage 1: correspondence of the item-driven parser (`format::parse_and_remainder`) with the model on
//! generated item lists and texts (`ps.items`).
//! Stage 2: the round-trip family.  Format strings are assembled from per-field building blocks
//! (calendar / ordinal / Sunday-week / Monday-week / ISO-week dates, 24h and 12h times with every
//! fraction writer, offsets, timestamps, the composites, every padding modifier; up to 8 specifiers),
//! crossed with values at the per-item boundaries, and with case / white-space perturbations of the
//! formatted text.  Ops `pf.rt` (format + parse), `pf.p` (parse_from_str), `pf.r` (parse_and_remainder),
//! `pf.f` (format).  Direct oracle: `T::parse_from_str(&v.format(fmt), fmt)` is the value truncated to
//! the precision the format prints, for every value the format can express.
use crate::ctx::*;
use crate::items::encode_items;
use chrono::format::{parse_and_remainder, Item, Parsed, StrftimeItems};

pub fn dump_parsed(p: &Parsed) -> String {
    fn f<T: std::fmt::Display>(o: &Option<T>) -> String {
        match o {
            Some(v) => v.to_string(),
            None => "-".into(),
        }
    }
    let wd = match p.weekday {
        Some(w) => (w as u32).to_string(),
        None => "-".into(),
    };
    [
        f(&p.year), f(&p.year_div_100), f(&p.year_mod_100), f(&p.isoyear), f(&p.isoyear_div_100), f(&p.isoyear_mod_100),
        f(&p.quarter), f(&p.month), f(&p.week_from_sun), f(&p.week_from_mon), f(&p.isoweek), wd, f(&p.ordinal), f(&p.day),
        f(&p.hour_div_12), f(&p.hour_mod_12), f(&p.minute), f(&p.second), f(&p.nanosecond), f(&p.timestamp), f(&p.offset),
    ]
    .join(" ")
}

pub fn err_kind(e: &chrono::format::ParseError) -> String {
    format!("{:?}", e.kind())
}

const SPECS: &[&str] = &[
    "%Y", "%C", "%y", "%q", "%m", "%b", "%B", "%h", "%d", "%e", "%a", "%A", "%w", "%u", "%U", "%W", "%G", "%g", "%V", "%j", "%D", "%x",
    "%F", "%v", "%H", "%k", "%I", "%l", "%P", "%p", "%M", "%S", "%f", "%.f", "%.3f", "%.6f", "%.9f", "%3f", "%6f", "%9f", "%R", "%T",
    "%X", "%r", "%Z", "%z", "%:z", "%::z", "%:::z", "%#z", "%c", "%+", "%s", "%t", "%n", "%%", "%-d", "%_d", "%0e", "%-Y", "%_m", "%-H",
    "%-j", "%_j", "%-I", "%0k",
];
const SEPS: &[&str] = &["", " ", "-", ":", "/", "T", ", ", "  ", "\t", ".", "x", "é", "\u{3000}", "Z"];

fn gen_fmt(c: &mut Ctx) -> String {
    let n = 1 + c.rng.below(5);
    let mut s = String::new();
    for _ in 0..n {
        s.push_str(*c.rng.pick(SPECS));
        s.push_str(*c.rng.pick(SEPS));
    }
    s
}

fn gen_text_for(c: &mut Ctx, fmt: &str) -> String {
    // format a random value with the same format when possible, then perturb
    use chrono::{FixedOffset, NaiveDate, TimeZone};
    let y = *c.rng.pick(&[2024i32, 1999, 1, 0, -1, 9999, 10000, -9999, 123456, 1970, 1969, 2069, 1900]);
    let d = NaiveDate::from_yo_opt(y, c.rng.range(1, 365) as u32).unwrap();
    let secs = c.rng.below(86400) as u32;
    let nano = *c.rng.pick(&[0u32, 1, 500_000_000, 123_456_789, 999_999_999, 120_000_000, 1_500_000_000]);
    let nano = if nano >= 1_000_000_000 && secs % 60 != 59 { nano - 1_000_000_000 } else { nano };
    let t = chrono::NaiveTime::from_num_seconds_from_midnight_opt(secs, nano).unwrap();
    let off = *c.rng.pick(&[0i32, 3600, -3600, 19800, -12600, 86399, -86399, 1, 45296]);
    let dt = FixedOffset::east_opt(off).unwrap().from_utc_datetime(&d.and_time(t));
    let mut text = match guard(|| {
        use std::fmt::Write;
        let mut s = String::new();
        write!(s, "{}", dt.format(fmt)).map(|_| s)
    }) {
        Ok(Ok(s)) => s,
        _ => "2024-01-02 03:04:05".to_string(),
    };
    match c.rng.below(10) {
        0 => text.push_str(*c.rng.pick(&[" ", "x", "0", "é", ":", "Z"])),
        1 => {
            if !text.is_empty() {
                let mut cs: Vec<char> = text.chars().collect();
                let k = c.rng.below(cs.len() as u64) as usize;
                cs[k] = *c.rng.pick(&['0', '9', 'a', 'Z', ' ', '-', '+', ':', '\u{2212}', 'é', '6']);
                text = cs.into_iter().collect();
            }
        }
        2 => {
            if !text.is_empty() {
                let mut cs: Vec<char> = text.chars().collect();
                let k = c.rng.below(cs.len() as u64) as usize;
                cs.remove(k);
                text = cs.into_iter().collect();
            }
        }
        3 => {
            let mut cs: Vec<char> = text.chars().collect();
            let k = c.rng.below(cs.len() as u64 + 1) as usize;
            cs.insert(k, *c.rng.pick(&[' ', '\t', '0', '1', '\u{a0}', '\u{2003}', ':']));
            text = cs.into_iter().collect();
        }
        4 => text = text.to_uppercase(),
        5 => text = text.to_lowercase(),
        6 => {
            let k = c.rng.below(text.chars().count() as u64 + 1) as usize;
            text = text.chars().take(k).collect();
        }
        _ => {}
    }
    text
}

fn run_stage1(c: &mut Ctx) {
    let n = c.n(40000, 400000);
    for i in 0..n {
        let fmt = gen_fmt(c);
        let items: Vec<Item> = StrftimeItems::new(&fmt).collect();
        if items.iter().any(|x| matches!(x, Item::Error)) && i % 50 != 0 {
            continue;
        }
        let text = if c.rng.chance(1, 12) {
            let len = c.rng.below(14);
            (0..len).map(|_| *c.rng.pick(&['0', '1', '5', '9', ' ', '-', '+', ':', '.', 'a', 'P', 'M', 'T', 'Z', 'é', '\u{2212}', 'J'])).collect()
        } else {
            gen_text_for(c, &fmt)
        };
        let enc = encode_items(&items);
        let got = gs(
            || {
                let mut p = Parsed::new();
                parse_and_remainder(&mut p, &text, items.iter()).map(|rest| (dump_parsed(&p), rest.len()))
            },
            |r| match r {
                Ok((d, rest)) => format!("ok {} rest={}", d, rest),
                Err(e) => format!("err {}", err_kind(&e)),
            },
        );
        c.count(if got.starts_with("ok") { "parse:ok" } else { "parse:err" });
        if got == "panic" {
            c.fail("parse_and_remainder panicked", &format!("fmt {:?} text {:?}", fmt, text));
        }
        c.op(&format!("ps.items {} {}", enc, hex(text.as_bytes())), &got);
        // the owned form of the same items (`StrftimeItems::parse_to_owned`, `Item::to_owned`) is the same format
        let owned: Vec<Item<'static>> = items.iter().map(|x| x.clone().to_owned()).collect();
        let got_owned = gs(
            || {
                let mut p = Parsed::new();
                parse_and_remainder(&mut p, &text, owned.iter()).map(|rest| (dump_parsed(&p), rest.len()))
            },
            |r| match r {
                Ok((d, rest)) => format!("ok {} rest={}", d, rest),
                Err(e) => format!("err {}", err_kind(&e)),
            },
        );
        if got_owned != got {
            c.fail(
                "owned items parse differently from the borrowed items of the same format string",
                &format!("fmt {:?} text {:?}: borrowed {} owned {}", fmt, text, got, got_owned),
            );
        }
        if i < 3 {
            c.sample(&format!("fmt {:?} text {:?} -> {}", fmt, text, got));
        }
    }
}

// =================================================================================================
// Stage 2: the round-trip family
// =================================================================================================
use super::c01::{gen_year, yof, MAX_YEAR, MIN_YEAR};
use chrono::format::ParseResult;
use chrono::{DateTime, Datelike, FixedOffset, NaiveDate, NaiveDateTime, NaiveTime, TimeZone, Timelike};

/// how a year (calendar or ISO) is written by a form, i.e. which years it can carry
#[derive(Clone, Copy, PartialEq, Debug)]
enum YK {
    /// `%Y` / `%G` followed by a non-digit (or the end): every year, signed, any number of digits
    Full,
    /// `%Y` / `%G` directly followed by digits: only the fixed four-digit rendering (0..=9999)
    Full4,
    /// `%C%y`: two-digit century, 0..=9999
    CentMod,
    /// `%y` / `%g` alone: the 1970..=2069 pivot
    ModOnly,
    /// `%Y` together with `%y` or `%C` (redundant): the two-digit fields exist only for years >= 0
    NonNeg,
}
fn year_ok(yk: YK, y: i32) -> bool {
    match yk {
        YK::Full => true,
        YK::Full4 | YK::CentMod => (0..=9999).contains(&y),
        YK::ModOnly => (1970..=2069).contains(&y),
        YK::NonNeg => y >= 0,
    }
}
#[derive(Clone, Copy, PartialEq, Debug)]
enum Frac {
    None,
    Exact,
    D3,
    D6,
    D9,
}
#[derive(Clone, Debug)]
struct DForm {
    fmt: String,
    yk: Option<YK>,
    iyk: Option<YK>,
    class: &'static str,
}
#[derive(Clone, Debug)]
struct TForm {
    fmt: String,
    sec: bool,
    frac: Frac,
    class: &'static str,
}
/// a member of the family for one target type
#[derive(Clone, Debug)]
struct Form {
    fmt: String,
    date: Option<DForm>,
    time: Option<TForm>,
    off: bool,
    ts: bool,
}

fn n_specs(fmt: &str) -> usize {
    let b = fmt.as_bytes();
    let mut n = 0;
    let mut i = 0;
    while i < b.len() {
        if b[i] == b'%' {
            if i + 1 < b.len() && b[i + 1] == b'%' {
                i += 2;
                continue;
            }
            n += 1;
        }
        i += 1;
    }
    n
}
fn has_letter_literal(fmt: &str) -> bool {
    StrftimeItems::new(fmt).any(|it| match it {
        Item::Literal(s) => s.chars().any(|ch| ch.is_alphabetic()),
        Item::OwnedLiteral(s) => s.chars().any(|ch| ch.is_alphabetic()),
        _ => false,
    })
}

const DSEPS: &[&str] = &["-", "/", " ", ".", ", ", "  ", "\t"];

fn date_forms() -> Vec<DForm> {
    let mut v = vec![];
    let years: &[(&str, YK)] = &[("%Y", YK::Full), ("%-Y", YK::Full), ("%_Y", YK::Full), ("%C%y", YK::CentMod), ("%y", YK::ModOnly), ("%0C%-y", YK::CentMod), ("%_y", YK::ModOnly)];
    let months = ["%m", "%-m", "%_m", "%b", "%B", "%h"];
    let days = ["%d", "%-d", "%_d", "%e", "%0e"];
    let mut k = 0usize;
    for (y, yk) in years {
        for m in months {
            for d in days {
                let s = DSEPS[k % DSEPS.len()];
                let fmt = match (k / DSEPS.len()) % 3 {
                    0 => format!("{y}{s}{m}{s}{d}"),
                    1 => format!("{d}{s}{m}{s}{y}"),
                    _ => format!("{m}{s}{d}{s}{y}"),
                };
                v.push(DForm { fmt, yk: Some(*yk), iyk: None, class: "calendar" });
                k += 1;
            }
        }
    }
    for (y, yk) in years {
        for j in ["%j", "%-j", "%_j"] {
            let s = DSEPS[k % DSEPS.len()];
            let fmt = if k % 2 == 0 { format!("{y}{s}{j}") } else { format!("{j}{s}{y}") };
            v.push(DForm { fmt, yk: Some(*yk), iyk: None, class: "ordinal" });
            k += 1;
        }
    }
    let wdays = ["%a", "%A", "%w", "%u"];
    for (y, yk) in years {
        for w in ["%U", "%-U", "%_U", "%W", "%-W", "%_W"] {
            for wd in wdays {
                let s = DSEPS[k % DSEPS.len()];
                let fmt = match k % 3 {
                    0 => format!("{y}{s}{w}{s}{wd}"),
                    1 => format!("{wd}{s}{w}{s}{y}"),
                    _ => format!("{w}{s}{wd}{s}{y}"),
                };
                v.push(DForm { fmt, yk: Some(*yk), iyk: None, class: if w.ends_with('U') { "week-sun" } else { "week-mon" } });
                k += 1;
            }
        }
    }
    let iyears: &[(&str, YK)] = &[("%G", YK::Full), ("%-G", YK::Full), ("%_G", YK::Full), ("%g", YK::ModOnly), ("%-g", YK::ModOnly)];
    for (y, yk) in iyears {
        for w in ["%V", "%-V", "%_V"] {
            for wd in wdays {
                let s = DSEPS[k % DSEPS.len()];
                let fmt = match k % 3 {
                    0 => format!("{y}{s}{w}{s}{wd}"),
                    1 => format!("{wd}{s}{w}{s}{y}"),
                    _ => format!("{y}-W{w}-{wd}"),
                };
                v.push(DForm { fmt, yk: None, iyk: Some(*yk), class: "iso-week" });
                k += 1;
            }
        }
    }
    let f = |fmt: &str, yk: Option<YK>, iyk: Option<YK>, class: &'static str| DForm { fmt: fmt.to_string(), yk, iyk, class };
    v.extend([
        f("%F", Some(YK::Full), None, "composite"),
        f("%D", Some(YK::ModOnly), None, "composite"),
        f("%x", Some(YK::ModOnly), None, "composite"),
        f("%v", Some(YK::Full), None, "composite"),
        f("%Y%m%d", Some(YK::Full4), None, "adjacent"),
        f("%C%y%m%d", Some(YK::CentMod), None, "adjacent"),
        f("%y%m%d", Some(YK::ModOnly), None, "adjacent"),
        f("%Y%j", Some(YK::Full4), None, "adjacent"),
        f("%d%m%Y", Some(YK::Full), None, "adjacent"),
        f("%G%V%u", None, Some(YK::Full4), "adjacent"),
        f("%g%V%w", None, Some(YK::ModOnly), "adjacent"),
        f("%A, %d %B %Y", Some(YK::Full), None, "redundant"),
        f("%a %b %e %Y", Some(YK::Full), None, "redundant"),
        f("%Y-%m-%d %j", Some(YK::Full), None, "redundant"),
        f("%Y-%m-%d %q", Some(YK::Full), None, "redundant"),
        f("%Y-%m-%d %G-%V-%u", Some(YK::Full), Some(YK::Full), "redundant"),
        f("%Y %b %d %U %W %w", Some(YK::Full), None, "redundant"),
        f("%C%y-%m-%d %Y", Some(YK::CentMod), None, "redundant"),
        f("%y %Y %j", Some(YK::NonNeg), None, "redundant"),
        f("%G %g %V %a", None, Some(YK::NonNeg), "redundant"),
        f("%Y%%%m%%%d", Some(YK::Full), None, "calendar"),
        f("%Y\u{e9}%m\u{3000}%d", Some(YK::Full), None, "calendar"),
        f("%Y%n%m%t%d", Some(YK::Full), None, "calendar"),
    ]);
    v
}

fn time_forms() -> Vec<TForm> {
    let mut v = vec![];
    let hours = ["%H", "%-H", "%_H", "%k", "%0k"];
    let mins = ["%M", "%-M", "%_M"];
    let secs = ["%S", "%-S", "%_S"];
    let fracs: &[(&str, Frac, bool)] = &[
        ("", Frac::None, false),
        ("%.f", Frac::Exact, false),
        ("%.3f", Frac::D3, false),
        ("%.6f", Frac::D6, false),
        ("%.9f", Frac::D9, false),
        ("%3f", Frac::D3, true),
        ("%6f", Frac::D6, true),
        ("%9f", Frac::D9, true),
        (".%f", Frac::D9, false),
        (".%-f", Frac::D9, false),
        (" %_f", Frac::D9, false),
        ("%f", Frac::D9, true),
    ];
    let seps = [":", ".", " ", ": "];
    let mut k = 0usize;
    for h in hours {
        for m in mins {
            let s = seps[k % seps.len()];
            v.push(TForm { fmt: format!("{h}{s}{m}"), sec: false, frac: Frac::None, class: "hm" });
            for _ in 0..4 {
                let sc = secs[k % secs.len()];
                let (fr, fk, needs_fixed) = fracs[k % fracs.len()];
                let sc = if needs_fixed { "%S" } else { sc };
                let s = seps[k % seps.len()];
                v.push(TForm { fmt: format!("{h}{s}{m}{s}{sc}{fr}"), sec: true, frac: fk, class: if fk == Frac::None { "hms" } else { "hms-frac" } });
                k += 1;
            }
        }
    }
    for h in ["%I", "%-I", "%_I", "%l", "%0l"] {
        for p in ["%p", "%P"] {
            let (fr, fk, needs_fixed) = fracs[k % fracs.len()];
            let sc = if needs_fixed { "%S" } else { secs[k % secs.len()] };
            v.push(TForm { fmt: format!("{h}:%M:{sc}{fr} {p}"), sec: true, frac: fk, class: "12h" });
            v.push(TForm { fmt: format!("{h}.%-M {p}"), sec: false, frac: Frac::None, class: "12h" });
            v.push(TForm { fmt: format!("{p} {h}:%M:{sc}"), sec: true, frac: Frac::None, class: "12h" });
            k += 1;
        }
    }
    let f = |fmt: &str, sec: bool, frac: Frac, class: &'static str| TForm { fmt: fmt.to_string(), sec, frac, class };
    v.extend([
        f("%R", false, Frac::None, "composite"),
        f("%T", true, Frac::None, "composite"),
        f("%X", true, Frac::None, "composite"),
        f("%r", true, Frac::None, "composite"),
        f("%T%.f", true, Frac::Exact, "composite"),
        f("%R:%S%.3f", true, Frac::D3, "composite"),
        f("%H%M%S", true, Frac::None, "adjacent"),
        f("%H%M", false, Frac::None, "adjacent"),
        f("%H%M%S%3f", true, Frac::D3, "adjacent"),
        f("%H%M%S%f", true, Frac::D9, "adjacent"),
        f("%I%M%S%p", true, Frac::None, "adjacent"),
        f("%H:%M:%S %I %p", true, Frac::None, "redundant"),
    ]);
    v
}

// ---- values -------------------------------------------------------------------------------------
const YEARS2: &[i32] = &[
    MIN_YEAR, MIN_YEAR + 1, -100000, -99999, -10000, -9999, -1000, -999, -100, -99, -10, -1, 0, 1, 9, 10, 99, 100, 999, 1000, 1900, 1969, 1970,
    1999, 2000, 2024, 2069, 2070, 9999, 10000, 12345, 99999, 100000, MAX_YEAR - 1, MAX_YEAR,
];
const ORDS2: &[u32] = &[1, 2, 3, 4, 5, 6, 7, 8, 9, 10, 31, 32, 59, 60, 61, 99, 100, 101, 358, 359, 360, 361, 362, 363, 364, 365, 366];
const SECS2: &[u32] = &[0, 1, 59, 60, 599, 600, 3599, 3600, 3661, 35999, 36000, 39599, 43199, 43200, 43201, 46799, 46800, 82799, 82800, 86340, 86398, 86399];
const FRACS2: &[u32] = &[0, 1, 999, 1000, 999_999, 1_000_000, 26_490_000, 100_000_000, 123_000_000, 123_456_000, 123_456_789, 999_000_000, 999_999_999];
const LEAPS: &[u32] = &[1_000_000_000, 1_000_000_001, 1_500_000_000, 1_999_999_999];
const OFFS2: &[i32] = &[0, 1, 29, 30, 31, 59, 60, 61, 1800, 3599, 3600, 3630, 19800, 20700, 35999, 36000, 45296, 50400, 86340, 86369, 86370, 86399];

fn gen_date_for(c: &mut Ctx, f: Option<&DForm>) -> NaiveDate {
    let special: &[i32] = match f.map(|f| (f.yk, f.iyk)) {
        Some((Some(YK::ModOnly), _)) | Some((_, Some(YK::ModOnly))) => &[1969, 1970, 1971, 1999, 2000, 2068, 2069, 2070],
        Some((Some(YK::CentMod), _)) | Some((Some(YK::Full4), _)) | Some((_, Some(YK::Full4))) => &[-1, 0, 1, 99, 100, 999, 1000, 2024, 9999, 10000],
        _ => YEARS2,
    };
    loop {
        let y = match c.rng.below(6) {
            0 | 1 | 2 => *c.rng.pick(special),
            3 | 4 => *c.rng.pick(YEARS2),
            _ => gen_year(c),
        };
        let o = if c.rng.chance(2, 3) { *c.rng.pick(ORDS2) } else { c.rng.range(1, 366) as u32 };
        if let Some(d) = NaiveDate::from_yo_opt(y, o) {
            return d;
        }
    }
}
fn gen_time2(c: &mut Ctx) -> NaiveTime {
    let secs = if c.rng.chance(1, 3) { c.rng.below(86400) as u32 } else { *c.rng.pick(SECS2) };
    let mut frac = if c.rng.chance(1, 4) { c.rng.nanos() } else { *c.rng.pick(FRACS2) };
    if secs % 60 == 59 && c.rng.chance(1, 2) {
        frac = *c.rng.pick(LEAPS);
    } else if c.rng.chance(1, 40) {
        frac = *c.rng.pick(LEAPS); // leap representation on a second other than :59 (only `with_nanosecond` builds it)
    }
    NaiveTime::from_num_seconds_from_midnight_opt(secs, 0).unwrap().with_nanosecond(frac).unwrap()
}
fn gen_off2(c: &mut Ctx) -> i32 {
    let o = if c.rng.chance(1, 5) { c.rng.range(-86399, 86399) as i32 } else { *c.rng.pick(OFFS2) };
    if c.rng.chance(1, 2) {
        -o
    } else {
        o
    }
}

#[derive(Clone, Copy, Debug)]
enum Val {
    D(NaiveDate),
    T(NaiveTime),
    N(NaiveDateTime),
    Z(DateTime<FixedOffset>),
}
fn vt(t: &NaiveTime) -> String {
    format!("{} {}", t.num_seconds_from_midnight(), t.nanosecond())
}
fn vn(n: &NaiveDateTime) -> String {
    format!("{} {}", yof(&n.date()), vt(&n.time()))
}
impl Val {
    fn tname(&self) -> &'static str {
        match self {
            Val::D(_) => "date",
            Val::T(_) => "time",
            Val::N(_) => "naive",
            Val::Z(_) => "zoned",
        }
    }
    fn tokens(&self) -> String {
        match self {
            Val::D(d) => yof(d).to_string(),
            Val::T(t) => vt(t),
            Val::N(n) => vn(n),
            Val::Z(z) => format!("{} {}", vn(&z.naive_utc()), z.offset().local_minus_utc()),
        }
    }
    /// `write!(s, "{}", v.format(fmt))`: text | err (`fmt::Error`) | panic
    fn format(&self, fmt: &str) -> Result<Result<String, ()>, ()> {
        use std::fmt::Write;
        guard(|| {
            let mut s = String::new();
            let r = match self {
                Val::D(d) => write!(s, "{}", d.format(fmt)),
                Val::T(t) => write!(s, "{}", t.format(fmt)),
                Val::N(n) => write!(s, "{}", n.format(fmt)),
                Val::Z(z) => write!(s, "{}", z.format(fmt)),
            };
            r.map(|_| s).map_err(|_| ())
        })
    }
    /// the rendering of every item on its own (used to find the white-space runs in the text)
    fn pieces(&self, fmt: &str) -> Option<Vec<(bool, String)>> {
        use chrono::format::DelayedFormat;
        use std::fmt::Write;
        let items: Vec<Item> = StrftimeItems::new(fmt).collect();
        let mut out = vec![];
        for it in &items {
            let one = [it.clone()];
            let r = guard(|| {
                let mut s = String::new();
                let df = match self {
                    Val::D(d) => DelayedFormat::new(Some(*d), None, one.iter()),
                    Val::T(t) => DelayedFormat::new(None, Some(*t), one.iter()),
                    Val::N(n) => DelayedFormat::new(Some(n.date()), Some(n.time()), one.iter()),
                    Val::Z(z) => {
                        let l = z.naive_local();
                        DelayedFormat::new_with_offset(Some(l.date()), Some(l.time()), z.offset(), one.iter())
                    }
                };
                write!(s, "{}", df).map(|_| s).map_err(|_| ())
            });
            match r {
                Ok(Ok(s)) => out.push((matches!(it, Item::Space(_) | Item::OwnedSpace(_)), s)),
                _ => return None,
            }
        }
        Some(out)
    }
}
fn parse_as(target: &str, text: &str, fmt: &str) -> Result<ParseResult<Val>, ()> {
    guard(|| match target {
        "date" => NaiveDate::parse_from_str(text, fmt).map(Val::D),
        "time" => NaiveTime::parse_from_str(text, fmt).map(Val::T),
        "naive" => NaiveDateTime::parse_from_str(text, fmt).map(Val::N),
        _ => DateTime::<FixedOffset>::parse_from_str(text, fmt).map(Val::Z),
    })
}
fn parse_rem_as(target: &str, text: &str, fmt: &str) -> Result<ParseResult<(Val, usize)>, ()> {
    guard(|| match target {
        "date" => NaiveDate::parse_and_remainder(text, fmt).map(|(v, r)| (Val::D(v), r.len())),
        "time" => NaiveTime::parse_and_remainder(text, fmt).map(|(v, r)| (Val::T(v), r.len())),
        "naive" => NaiveDateTime::parse_and_remainder(text, fmt).map(|(v, r)| (Val::N(v), r.len())),
        _ => DateTime::<FixedOffset>::parse_and_remainder(text, fmt).map(|(v, r)| (Val::Z(v), r.len())),
    })
}
fn show_parse(r: &Result<ParseResult<Val>, ()>) -> String {
    match r {
        Ok(Ok(v)) => format!("ok {}", v.tokens()),
        Ok(Err(e)) => format!("err {}", err_kind(e)),
        Err(()) => "panic".into(),
    }
}

// ---- what the round trip must return ---------------------------------------------------------------
fn trunc_time(t: &NaiveTime, tf: &TForm) -> Option<NaiveTime> {
    let (h, m, s) = (t.hour(), t.minute(), t.second());
    let leap = t.nanosecond() >= 1_000_000_000;
    let ns = t.nanosecond() % 1_000_000_000;
    if leap && s != 59 {
        return None; // not a value the public constructors build; prints as second s+1
    }
    if !tf.sec {
        return NaiveTime::from_hms_opt(h, m, 0);
    }
    let ns2 = match tf.frac {
        Frac::None => 0,
        Frac::Exact | Frac::D9 => ns,
        Frac::D3 => ns / 1_000_000 * 1_000_000,
        Frac::D6 => ns / 1_000 * 1_000,
    };
    NaiveTime::from_hms_nano_opt(h, m, s, ns2 + if leap { 1_000_000_000 } else { 0 })
}
fn date_ok(d: &NaiveDate, df: &DForm) -> bool {
    df.yk.map_or(true, |k| year_ok(k, d.year())) && df.iyk.map_or(true, |k| year_ok(k, d.iso_week().year()))
}
/// offset as `%z` / `%:z` / `%+` print it: rounded to the nearest minute, sign kept apart
fn round_off(off: i32) -> i32 {
    let a = (off.abs() + 30) / 60 * 60;
    if off < 0 {
        -a
    } else {
        a
    }
}
/// `Some(expected)` if the value is one the format can express (then the round trip must return
/// `expected`), `None` otherwise (then the case is only compared with the model)
fn expected(form: &Form, v: &Val) -> Option<Val> {
    match v {
        Val::D(d) => {
            let df = form.date.as_ref()?;
            if date_ok(d, df) {
                Some(Val::D(*d))
            } else {
                None
            }
        }
        Val::T(t) => Some(Val::T(trunc_time(t, form.time.as_ref()?)?)),
        Val::N(n) => {
            if let (Some(df), Some(tf)) = (&form.date, &form.time) {
                if !date_ok(&n.date(), df) || (form.ts && !tf.sec && n.time().second() != 0) {
                    return None;
                }
                Some(Val::N(n.date().and_time(trunc_time(&n.time(), tf)?)))
            } else if form.ts {
                // a timestamp drops the fraction, leap representation included (on whatever second it sits)
                let t = n.time();
                Some(Val::N(n.date().and_time(NaiveTime::from_hms_opt(t.hour(), t.minute(), t.second())?)))
            } else {
                None
            }
        }
        Val::Z(z) => {
            let off = z.offset().local_minus_utc();
            let off2 = if form.off { round_off(off) } else { 0 };
            let fo = FixedOffset::east_opt(off2)?;
            if let (Some(df), Some(tf)) = (&form.date, &form.time) {
                if !form.off && !form.ts {
                    return None;
                }
                let l = guard(|| z.naive_local()).ok()?;
                if !date_ok(&l.date(), df) {
                    return None;
                }
                if form.ts && (off2 != off || (!tf.sec && l.time().second() != 0)) {
                    return None; // the timestamp carries the exact second and offset, the fields must too
                }
                let l2 = l.date().and_time(trunc_time(&l.time(), tf)?);
                fo.from_local_datetime(&l2).single().map(Val::Z)
            } else if form.ts {
                let u = z.naive_utc();
                let t = u.time();
                let u2 = u.date().and_time(NaiveTime::from_hms_opt(t.hour(), t.minute(), t.second())?);
                Some(Val::Z(fo.from_utc_datetime(&u2)))
            } else {
                None
            }
        }
    }
}

fn classes(c: &mut Ctx, v: &Val, form: &Form) {
    let (d, t, off) = match v {
        Val::D(d) => (Some(*d), None, None),
        Val::T(t) => (None, Some(*t), None),
        Val::N(n) => (Some(n.date()), Some(n.time()), None),
        Val::Z(z) => (Some(z.naive_utc().date()), Some(z.naive_utc().time()), Some(z.offset().local_minus_utc())),
    };
    if let Some(d) = d {
        let y = d.year();
        c.count(if y < 0 {
            "value:year<0"
        } else if y > 9999 {
            "value:year>9999"
        } else if (1970..=2069).contains(&y) {
            "value:year-in-pivot"
        } else {
            "value:year-0..9999"
        });
        if d.iso_week().year() != y {
            c.count("value:iso-year!=year");
        }
    }
    if let Some(t) = t {
        if t.nanosecond() >= 1_000_000_000 {
            c.count(if t.second() == 59 { "value:leap-second" } else { "value:leap-frac-off-59" });
        }
        if t.hour() % 12 == 0 {
            c.count("value:hour-0-or-12");
        }
    }
    if let Some(o) = off {
        if o % 60 != 0 {
            c.count("value:offset-with-seconds");
        }
        if o.abs() >= 86370 {
            c.count("value:offset-rounds-to-24h");
        }
    }
    if let Some(df) = &form.date {
        c.count(&format!("form:date:{}", df.class));
    }
    if let Some(tf) = &form.time {
        c.count(&format!("form:time:{}", tf.class));
    }
    c.count(&format!("form:specifiers:{}", n_specs(&form.fmt)));
}

const WS_EXTRA: &[&str] = &[" ", "  ", "\t", "\n ", "\u{a0}", " \u{3000}\u{2003}", "\r\n\t ", "\u{85}\u{1680}", "\u{2028}\u{205f}"];

fn flip_case(c: &mut Ctx, text: &str) -> String {
    match c.rng.below(3) {
        0 => text.to_ascii_uppercase(),
        1 => text.to_ascii_lowercase(),
        _ => text.chars().map(|ch| if c.rng.chance(1, 2) { ch.to_ascii_uppercase() } else { ch.to_ascii_lowercase() }).collect(),
    }
}

/// Classes of format strings that round-trip in the crate but that `Spec.Unambiguous` is KNOWN not to cover
/// (decided on the crate's own tokenisation of the format string).  Everything else in the harness family
/// must get a prediction from the specification.
/// * `rfc3339-item`: `%+` (owned by C10; only `family_roundtrip_rfc3339_item` for the lone item);
/// * `optional-fraction-after-space`: `%.f` directly after white space (`%S %.f .%3f` is really ambiguous:
///   for a whole second the reader takes `.000` for the omitted fraction; the specification excludes the
///   whole class).
fn spec_excluded(fmt: &str) -> Option<&'static str> {
    use chrono::format::Fixed;
    let items: Vec<Item> = StrftimeItems::new(fmt).collect();
    if items.iter().any(|it| matches!(it, Item::Fixed(Fixed::RFC3339))) {
        return Some("rfc3339-item");
    }
    for w in items.windows(2) {
        if matches!(w[0], Item::Space(_) | Item::OwnedSpace(_)) && matches!(w[1], Item::Fixed(Fixed::Nanosecond)) {
            return Some("optional-fraction-after-space");
        }
    }
    None
}

/// Values the crate round-trips through a member of the family but `Spec.expressible` is KNOWN not to cover:
/// none any more.  The class `stamp-only-leap-off-local-59` (a zone-aware value printed by a `%s`-only format
/// whose UTC second is a leap second at :59 but whose offset has seconds, so that the local reading shows the
/// leap second off :59) is covered since `Spec.expressible` asks for the leap clause only where the format
/// prints the wall clock's second (`exprLeapFor`, second review G6): the prediction is REQUIRED for it now,
/// and the class is still counted.
fn spec_excluded_value(_form: &Form, _v: &Val) -> Option<&'static str> {
    None
}
fn leap_off_local_59(form: &Form, v: &Val) -> bool {
    if let Val::Z(z) = v {
        if form.ts && form.date.is_none() {
            if let Ok(l) = guard(|| z.naive_local()) {
                return l.time().nanosecond() >= 1_000_000_000 && l.time().second() != 59;
            }
        }
    }
    false
}

/// one family member × one value: the round trip, its oracle, and the perturbations
fn run_case(c: &mut Ctx, form: &Form, v: &Val, sample: bool) {
    let fmt = &form.fmt;
    let target = v.tname();
    let text = v.format(fmt);
    let exp = expected(form, v);
    classes(c, v, form);
    let (reply, parsed) = match &text {
        Ok(Ok(s)) => {
            let r = parse_as(target, s, fmt);
            (format!("{} {}", hex(s.as_bytes()), show_parse(&r)), Some(r))
        }
        Ok(Err(())) => ("err".to_string(), None),
        Err(()) => ("panic".to_string(), None),
    };
    c.op(&format!("pf.rt {} {} {}", target, hex(fmt.as_bytes()), v.tokens()), &reply);
    if sample {
        c.sample(&format!("{} {:?} value {} -> {}", target, fmt, v.tokens(), match &text { Ok(Ok(s)) => format!("{:?} -> {}", s, show_parse(parsed.as_ref().unwrap())), _ => reply.clone() }));
    }
    let text = match text {
        Ok(Ok(s)) => s,
        _ => {
            c.count(&format!("rt:{}:format-failed", target));
            if exp.is_some() {
                c.fail("round trip: formatting an expressible value failed", &format!("{} fmt {:?} value {}", target, fmt, v.tokens()));
            }
            return;
        }
    };
    let got = show_parse(parsed.as_ref().unwrap());
    // the specification (Spec/UnambiguousSpec.lean) against the implementation.  Completeness: for every
    // member of the harness family and every value `expected()` calls expressible, the specification MUST
    // predict (`pf.sp` answers `nopred` otherwise, which is a disagreement), unless the format is in one of
    // the explicitly listed classes `spec_excluded` that `Spec.Unambiguous` is known not to cover.  So a
    // narrowing of `Unambiguous`/`expressible` is refuted here.  Soundness: a prediction must be what the crate
    // returned, required or not (`pf.spl` is lenient only about "no prediction").
    let excl = spec_excluded(fmt).or_else(|| spec_excluded_value(form, v));
    if exp.is_some() && excl.is_none() {
        c.op(&format!("pf.sp {} {} {} | {}", target, hex(fmt.as_bytes()), v.tokens(), got), "agree");
        c.count("spec:prediction-required");
        if leap_off_local_59(form, v) {
            c.count("spec:prediction-required:stamp-only-leap-off-local-59");
        }
        c.count(&format!("spec:prediction-required:{}", target));
    } else {
        c.op(&format!("pf.spl {} {} {} | {}", target, hex(fmt.as_bytes()), v.tokens(), got), "agree");
        c.count(&format!("spec:prediction-not-required:{}:{}", target, if exp.is_none() { "inexpressible-value" } else { excl.unwrap() }));
    }
    match &exp {
        Some(e) => {
            c.count(&format!("rt:{}:expressible", target));
            let want = format!("ok {}", e.tokens());
            if got != want {
                c.fail(
                    "round trip: parse_from_str(format(v)) is not v truncated to the printed precision",
                    &format!("{} fmt {:?} value {} text {:?} got [{}] want [{}]", target, fmt, v.tokens(), text, got, want),
                );
            }
        }
        None => c.count(&format!("rt:{}:inexpressible:{}", target, if got.starts_with("ok") { "ok" } else { &got[4..] })),
    }
    // parse_and_remainder with a tail that cannot extend the last token
    if c.rng.chance(1, 6) {
        let tail = *c.rng.pick(&[" tail", "\u{e9}", "#1", " 5", "x"]);
        let t2 = format!("{}{}", text, tail);
        let r = parse_rem_as(target, &t2, fmt);
        let shown = match &r {
            Ok(Ok((v, n))) => format!("ok {} rest={}", v.tokens(), n),
            Ok(Err(e)) => format!("err {}", err_kind(e)),
            Err(()) => "panic".into(),
        };
        c.op(&format!("pf.r {} {} {}", target, hex(fmt.as_bytes()), hex(t2.as_bytes())), &shown);
        c.count("rem:cases");
        // direct oracle (second review, G7): the value is the one the round trip must return and the remainder
        // is exactly the tail (`family_parse_and_remainder`); a format that ends in a white-space item takes the
        // tail's leading white space with it (its reader skips any run of white space)
        if let Some(e) = &exp {
            let ends_in_space = matches!(StrftimeItems::new(fmt).last(), Some(Item::Space(_)) | Some(Item::OwnedSpace(_)));
            let rest = if ends_in_space { tail.trim_start().len() } else { tail.len() };
            let want = format!("ok {} rest={}", e.tokens(), rest);
            c.count("rem:oracle");
            if shown != want {
                c.fail(
                    "parse_and_remainder(format(v) + tail) is not (v truncated to the printed precision, tail)",
                    &format!("{} fmt {:?} value {} text {:?} got [{}] want [{}]", target, fmt, v.tokens(), t2, shown, want),
                );
            }
        }
    }
    // case perturbation: names, am/pm and the `T`/`Z` of `%+` are read in any letter case
    if !has_letter_literal(fmt) && text.chars().any(|ch| ch.is_ascii_alphabetic()) && c.rng.chance(2, 3) {
        let t2 = flip_case(c, &text);
        if t2 != text {
            let r = parse_as(target, &t2, fmt);
            let shown = show_parse(&r);
            c.op(&format!("pf.p {} {} {}", target, hex(fmt.as_bytes()), hex(t2.as_bytes())), &shown);
            c.count("perturb:case");
            if exp.is_some() && shown != got {
                c.fail("case perturbation changes the parse result", &format!("{} fmt {:?} text {:?} -> [{}], {:?} -> [{}]", target, fmt, text, got, t2, shown));
            }
        }
    }
    // surplus white space wherever the format has white space
    if c.rng.chance(1, 2) {
        if let Some(ps) = v.pieces(fmt) {
            let whole: String = ps.iter().map(|(_, s)| s.as_str()).collect();
            if whole != text {
                c.fail("format(v) is not the concatenation of its items' renderings", &format!("{} fmt {:?} value {}", target, fmt, v.tokens()));
            } else if ps.iter().any(|(sp, _)| *sp) {
                let mut t2 = String::new();
                for (sp, s) in &ps {
                    if *sp {
                        match c.rng.below(3) {
                            0 => {
                                t2.push_str(s);
                                t2.push_str(*c.rng.pick(WS_EXTRA));
                            }
                            1 => {
                                t2.push_str(*c.rng.pick(WS_EXTRA));
                                t2.push_str(s);
                            }
                            _ => t2.push_str(*c.rng.pick(WS_EXTRA)),
                        }
                    } else {
                        t2.push_str(s);
                    }
                }
                let r = parse_as(target, &t2, fmt);
                let shown = show_parse(&r);
                c.op(&format!("pf.p {} {} {}", target, hex(fmt.as_bytes()), hex(t2.as_bytes())), &shown);
                c.count("perturb:space");
                if exp.is_some() && shown != got {
                    c.fail("surplus white space at a white-space item changes the parse result", &format!("{} fmt {:?} text {:?} -> [{}], {:?} -> [{}]", target, fmt, text, got, t2, shown));
                }
            }
        }
    }
}

/// Surplus white space at the white space of the separator between the date and the time part, placed
/// by the harness's own knowledge of the format (`<date fmt><sep><time fmt>`), not by the crate's
/// tokenisation of it: the white-space characters of `sep` are white space of the format whatever
/// stands next to them.
fn sep_space_case(c: &mut Ctx, dfmt: &str, sep: &str, tfmt: &str, v: &Val) {
    if !sep.chars().any(char::is_whitespace) {
        return;
    }
    let (a, b) = match (v.format(dfmt), v.format(tfmt)) {
        (Ok(Ok(a)), Ok(Ok(b))) => (a, b),
        _ => return,
    };
    let fmt = format!("{dfmt}{sep}{tfmt}");
    let target = v.tname();
    let base = show_parse(&parse_as(target, &format!("{a}{sep}{b}"), &fmt));
    let mut sep2 = String::new();
    for ch in sep.chars() {
        if ch.is_whitespace() {
            match c.rng.below(3) {
                0 => {
                    sep2.push(ch);
                    sep2.push_str(*c.rng.pick(WS_EXTRA));
                }
                1 => {
                    sep2.push_str(*c.rng.pick(WS_EXTRA));
                    sep2.push(ch);
                }
                _ => sep2.push_str(*c.rng.pick(WS_EXTRA)),
            }
        } else {
            sep2.push(ch);
        }
    }
    let t2 = format!("{a}{sep2}{b}");
    let shown = show_parse(&parse_as(target, &t2, &fmt));
    c.op(&format!("pf.p {} {} {}", target, hex(fmt.as_bytes()), hex(t2.as_bytes())), &shown);
    c.count("perturb:separator-space");
    if base.starts_with("ok") && shown != base {
        c.fail(
            "surplus white space at the white space of a separator changes the parse result",
            &format!("{} fmt {:?} text {:?} -> [{}], {:?} -> [{}]", target, fmt, format!("{a}{sep}{b}"), base, t2, shown),
        );
    }
}

fn mk_form(d: Option<&DForm>, sep: &str, t: Option<&TForm>, tail: &str, off: bool, ts: bool) -> Form {
    let mut fmt = String::new();
    if let Some(d) = d {
        fmt.push_str(&d.fmt);
    }
    if d.is_some() && t.is_some() {
        fmt.push_str(sep);
    }
    if let Some(t) = t {
        fmt.push_str(&t.fmt);
    }
    fmt.push_str(tail);
    Form { fmt, date: d.cloned(), time: t.cloned(), off, ts }
}

fn gen_naive(c: &mut Ctx, d: Option<&DForm>) -> NaiveDateTime {
    gen_date_for(c, d).and_time(gen_time2(c))
}
/// a zone-aware value whose *local* date is drawn at the form's boundaries
fn gen_zoned(c: &mut Ctx, d: Option<&DForm>) -> DateTime<FixedOffset> {
    loop {
        let l = gen_naive(c, d);
        let fo = FixedOffset::east_opt(gen_off2(c)).unwrap();
        if let Some(z) = fo.from_local_datetime(&l).single() {
            return z;
        }
    }
}

fn run_family(c: &mut Ctx) {
    let dfs = date_forms();
    let tfs = time_forms();
    let k = c.n(2, 12);
    let dtseps = [" ", "T", "  ", ", ", "_", " at ", "\u{5e74}\u{3000}", "\u{a0}", "h\u{2003}m", "\u{e9} \u{2028}"];
    c.count_n("family:date-forms", dfs.len() as u64);
    c.count_n("family:time-forms", tfs.len() as u64);
    // every specifier the reader can invert occurs in some member
    let all: String = dfs.iter().map(|f| f.fmt.clone()).chain(tfs.iter().map(|f| f.fmt.clone())).collect::<Vec<_>>().join(" ") + " %z %:z %s %+ %c";
    for sp in [
        "%Y", "%C", "%y", "%q", "%m", "%b", "%B", "%h", "%d", "%e", "%a", "%A", "%w", "%u", "%U", "%W", "%G", "%g", "%V", "%j", "%D", "%x", "%F", "%v", "%H", "%k",
        "%I", "%l", "%P", "%p", "%M", "%S", "%f", "%.f", "%.3f", "%.6f", "%.9f", "%3f", "%6f", "%9f", "%R", "%T", "%X", "%r", "%z", "%:z", "%c", "%+", "%s", "%t",
        "%n", "%%",
    ] {
        if !all.contains(sp) {
            c.fail("family generator: invertible specifier missing from every member", sp);
        }
    }
    // dates
    for (i, df) in dfs.iter().enumerate() {
        let form = mk_form(Some(df), "", None, "", false, false);
        for j in 0..10 * k {
            let d = gen_date_for(c, Some(df));
            run_case(c, &form, &Val::D(d), i % 97 == 0 && j == 0);
        }
    }
    // times
    for (i, tf) in tfs.iter().enumerate() {
        let form = mk_form(None, "", Some(tf), "", false, false);
        for j in 0..16 * k {
            let t = gen_time2(c);
            run_case(c, &form, &Val::T(t), i % 61 == 0 && j == 0);
        }
    }
    // naive date-times and zone-aware values: every date form with rotating time forms
    for (i, df) in dfs.iter().enumerate() {
        for r in 0..2 {
            let tf = &tfs[(i * 7 + r * 13) % tfs.len()];
            let sep = dtseps[(i + r) % dtseps.len()];
            if n_specs(&df.fmt) + n_specs(&tf.fmt) <= 8 {
                let form = mk_form(Some(df), sep, Some(tf), "", false, false);
                for j in 0..5 * k {
                    let v = gen_naive(c, Some(df));
                    run_case(c, &form, &Val::N(v), i % 89 == 0 && j == 0 && r == 0);
                    if j % 2 == 0 {
                        sep_space_case(c, &df.fmt, sep, &tf.fmt, &Val::N(v));
                    }
                }
            }
            let (tail, off, ts) = match (i + r) % 6 {
                0 => (" %z", true, false),
                1 => ("%z", true, false),
                2 => (" %:z", true, false),
                3 => ("%:z", true, false),
                4 => (" %s %z", true, true),
                _ => (" %z", true, false),
            };
            if n_specs(&df.fmt) + n_specs(&tf.fmt) + n_specs(tail) <= 8 {
                let form = mk_form(Some(df), sep, Some(tf), tail, off, ts);
                for j in 0..5 * k {
                    let z = gen_zoned(c, Some(df));
                    run_case(c, &form, &Val::Z(z), i % 83 == 0 && j == 0 && r == 0);
                }
            }
        }
    }
    // timestamps, `%+`, `%c`
    let special: &[(&str, &str, bool, bool, bool, bool)] = &[
        // (target, fmt, date+time fields?, seconds, off, ts)
        ("naive", "%s", false, false, false, true),
        ("zoned", "%s", false, false, false, true),
        ("zoned", "%s %z", false, false, true, true),
        ("zoned", "%s%:z", false, false, true, true),
        ("zoned", "%z %s", false, false, true, true),
        ("naive", "%s %F %T", true, true, false, true),
        ("naive", "%c", true, true, false, false),
        ("zoned", "%c %z", true, true, true, false),
        ("zoned", "%+", true, true, true, false),
        ("zoned", "%F %T%.f %s", true, true, false, true),
    ];
    for (target, fmt, fields, _sec, off, ts) in special {
        let df = DForm { fmt: String::new(), yk: Some(YK::Full), iyk: None, class: "special" };
        let tf = TForm { fmt: String::new(), sec: true, frac: if fmt.contains("%+") || fmt.contains("%.f") { Frac::Exact } else { Frac::None }, class: "special" };
        let form = Form { fmt: fmt.to_string(), date: if *fields { Some(df.clone()) } else { None }, time: if *fields { Some(tf) } else { None }, off: *off, ts: *ts };
        for j in 0..120 * k {
            let v = if *target == "naive" { Val::N(gen_naive(c, Some(&df))) } else { Val::Z(gen_zoned(c, Some(&df))) };
            run_case(c, &form, &v, j == 0);
        }
    }
}

/// print-only (`%::z`, `%:::z`, `%Z`) and read-only (`%#z`) items: never claimed to round-trip;
/// compared with the model, and the documented one-way behaviour is checked directly
fn run_outside_family(c: &mut Ctx) {
    let k = c.n(1, 8);
    for fmt in ["%F %T %::z", "%F %T %:::z", "%F %T %Z", "%F %T%::z", "%Y-%m-%dT%H:%M:%S%Z"] {
        let df = DForm { fmt: String::new(), yk: Some(YK::Full), iyk: None, class: "print-only" };
        for _ in 0..60 * k {
            let z = gen_zoned(c, Some(&df));
            let v = Val::Z(z);
            let text = v.format(fmt);
            let reply = match &text {
                Ok(Ok(s)) => {
                    let r = parse_as("zoned", s, fmt);
                    let shown = show_parse(&r);
                    c.count(&format!("print-only:{}:{}", &fmt[fmt.len() - 4..].trim(), if shown.starts_with("ok") { "ok" } else { &shown[4..] }));
                    if shown.starts_with("ok") {
                        c.fail("a print-only offset item was read back", &format!("fmt {:?} text {:?} -> {}", fmt, s, shown));
                    }
                    format!("{} {}", hex(s.as_bytes()), shown)
                }
                Ok(Err(())) => "err".to_string(),
                Err(()) => "panic".to_string(),
            };
            c.op(&format!("pf.rt zoned {} {}", hex(fmt.as_bytes()), v.tokens()), &reply);
        }
    }
    // `%#z` is read-only: formatting fails, reading accepts `+hh`, `+hhmm`, `+hh:mm`, `Z`
    let fmt = "%F %T %#z";
    for _ in 0..60 * k {
        let df = DForm { fmt: String::new(), yk: Some(YK::Full4), iyk: None, class: "read-only" };
        let l = gen_naive(c, Some(&df));
        let l = l.date().and_time(NaiveTime::from_hms_opt(l.time().hour(), l.time().minute(), l.time().second() % 60).unwrap());
        let h = c.rng.below(24) as i32;
        let m = c.rng.below(60) as i32;
        let neg = c.rng.chance(1, 2);
        let (otext, off) = match c.rng.below(5) {
            0 => (format!("{}{:02}", if neg { '-' } else { '+' }, h), h * 3600),
            1 => (format!("{}{:02}{:02}", if neg { '-' } else { '+' }, h, m), h * 3600 + m * 60),
            2 => (format!("{}{:02}:{:02}", if neg { '-' } else { '+' }, h, m), h * 3600 + m * 60),
            3 => (format!("{}{:02} {:02}", if neg { '\u{2212}' } else { '+' }, h, m), h * 3600 + m * 60),
            _ => ((*c.rng.pick(&["Z", "z"])).to_string(), 0),
        };
        let off = if neg && otext.len() > 1 { -off } else { off };
        let text = format!("{} {}", l.format("%F %T"), otext);
        let r = parse_as("zoned", &text, fmt);
        let shown = show_parse(&r);
        c.op(&format!("pf.p zoned {} {}", hex(fmt.as_bytes()), hex(text.as_bytes())), &shown);
        c.count(&format!("read-only:%#z:{}", if shown.starts_with("ok") { "ok" } else { &shown[4..] }));
        if let Some(z) = FixedOffset::east_opt(off).and_then(|fo| fo.from_local_datetime(&l).single()) {
            let want = format!("ok {}", Val::Z(z).tokens());
            if shown != want && (0..=9999).contains(&l.date().year()) {
                c.fail("%#z does not read a documented offset form", &format!("text {:?} got [{}] want [{}]", text, shown, want));
            }
        }
        let z = FixedOffset::east_opt(off).unwrap().from_utc_datetime(&l);
        let f = Val::Z(z).format(fmt);
        c.op(&format!("pf.f zoned {} {}", hex(fmt.as_bytes()), Val::Z(z).tokens()), &match &f { Ok(Ok(s)) => hex(s.as_bytes()), Ok(Err(())) => "err".into(), Err(()) => "panic".into() });
        if matches!(f, Ok(Ok(_))) {
            c.fail("%#z was formatted (documented as parse-only)", &text);
        }
    }
}

/// the four entry points on arbitrary (mostly non-family) formats and perturbed texts
fn run_entry_points(c: &mut Ctx) {
    let n = c.n(12000, 120000);
    for i in 0..n {
        let fmt = gen_fmt(c);
        let text = if c.rng.chance(1, 12) {
            let len = c.rng.below(14);
            (0..len).map(|_| *c.rng.pick(&['0', '1', '5', '9', ' ', '-', '+', ':', '.', 'a', 'P', 'M', 'T', 'Z', '\u{e9}', '\u{2212}', 'J'])).collect()
        } else {
            gen_text_for(c, &fmt)
        };
        let target = *c.rng.pick(&["date", "time", "naive", "zoned"]);
        let r = parse_as(target, &text, &fmt);
        let shown = show_parse(&r);
        c.count(&format!("entry:{}:{}", target, if shown.starts_with("ok") { "ok" } else if shown == "panic" { "panic" } else { &shown[4..] }));
        if shown == "panic" {
            c.fail("parse_from_str panicked", &format!("{} fmt {:?} text {:?}", target, fmt, text));
        }
        c.op(&format!("pf.p {} {} {}", target, hex(fmt.as_bytes()), hex(text.as_bytes())), &shown);
        if i % 4 == 0 {
            let r = parse_rem_as(target, &text, &fmt);
            let shown = match &r {
                Ok(Ok((v, n))) => format!("ok {} rest={}", v.tokens(), n),
                Ok(Err(e)) => format!("err {}", err_kind(e)),
                Err(()) => "panic".into(),
            };
            c.op(&format!("pf.r {} {} {}", target, hex(fmt.as_bytes()), hex(text.as_bytes())), &shown);
        }
    }
}

/// the numeric table observed through behaviour: how many digits each numeric item takes from a long
/// digit string, and whether it accepts an explicit sign
fn run_numeric_table(c: &mut Ctx) {
    use chrono::format::{Numeric, Pad};
    let all = [
        Numeric::Year, Numeric::YearDiv100, Numeric::YearMod100, Numeric::IsoYear, Numeric::IsoYearDiv100, Numeric::IsoYearMod100, Numeric::Quarter,
        Numeric::Month, Numeric::Day, Numeric::WeekFromSun, Numeric::WeekFromMon, Numeric::IsoWeek, Numeric::NumDaysFromSun, Numeric::WeekdayFromMon,
        Numeric::Ordinal, Numeric::Hour, Numeric::Hour12, Numeric::Minute, Numeric::Second, Numeric::Nanosecond, Numeric::Timestamp,
    ];
    for n in &all {
        for pad in [Pad::None, Pad::Zero, Pad::Space] {
            for text in ["000000000000", "111111111111", "+1", "-1", "+000001", " 1", "  +1", "1", "01", "001", "0001", "00001", "", "-", "+", "1x", "\u{a0}1"] {
                let items = [Item::Numeric(n.clone(), pad)];
                let got = gs(
                    || {
                        let mut p = Parsed::new();
                        parse_and_remainder(&mut p, text, items.iter()).map(|rest| (dump_parsed(&p), rest.len()))
                    },
                    |r| match r {
                        Ok((d, rest)) => format!("ok {} rest={}", d, rest),
                        Err(e) => format!("err {}", err_kind(&e)),
                    },
                );
                c.op(&format!("ps.items {} {}", encode_items(&items), hex(text.as_bytes())), &got);
                c.count("numeric-table:cases");
            }
        }
    }
}

/// name items byte by byte: every weekday / month name (short and long, lower and upper case) and the
/// am/pm markers with every single byte replaced by every ASCII byte, read by the item that takes names
/// in any letter case; whatever trick folds the case must not let another byte through
fn run_name_bytes(c: &mut Ctx) {
    const WD: [&str; 7] = ["monday", "tuesday", "wednesday", "thursday", "friday", "saturday", "sunday"];
    const MO: [&str; 12] =
        ["january", "february", "march", "april", "may", "june", "july", "august", "september", "october", "november", "december"];
    // `%a` / `%b` read the three-letter form only, `%A` / `%B` the long form or else the three-letter form
    let groups: [(&str, &[&str], bool, bool); 5] =
        [("%a", &WD, true, false), ("%A", &WD, true, true), ("%b", &MO, true, false), ("%B", &MO, true, true), ("%p", &["am", "pm"], false, true)];
    for (fmt, names, short_too, long_too) in groups {
        let items: Vec<Item> = StrftimeItems::new(fmt).collect();
        let enc = encode_items(&items);
        let mut texts: Vec<Vec<u8>> = vec![];
        for name in names {
            let mut bases = vec![name.as_bytes().to_vec()];
            if short_too {
                bases.push(name.as_bytes()[..3].to_vec());
            }
            for base in bases {
                for upper in [false, true] {
                    let b0 = if upper { base.to_ascii_uppercase() } else { base.clone() };
                    for k in 0..b0.len() {
                        for v in 0u8..128 {
                            let mut b = b0.clone();
                            b[k] = v;
                            texts.push(b);
                        }
                    }
                }
            }
        }
        texts.sort();
        texts.dedup();
        for b in texts {
            let text = String::from_utf8(b).unwrap();
            let got = gs(
                || {
                    let mut p = Parsed::new();
                    parse_and_remainder(&mut p, &text, items.iter()).map(|rest| (dump_parsed(&p), rest.len()))
                },
                |r| match r {
                    Ok((d, rest)) => format!("ok {} rest={}", d, rest),
                    Err(e) => format!("err {}", err_kind(&e)),
                },
            );
            c.op(&format!("ps.items {} {}", enc, hex(text.as_bytes())), &got);
            c.count("name-bytes:cases");
            // independent reading: the longest name (long form, else three-letter form) that is a prefix of the
            // text in any letter case; nothing else is a name
            let low = text.to_ascii_lowercase();
            let want_rest = names
                .iter()
                .filter_map(|n| {
                    if long_too && low.starts_with(n) {
                        Some(text.len() - n.len())
                    } else if short_too && low.starts_with(&n[..3]) {
                        Some(text.len() - 3)
                    } else {
                        None
                    }
                })
                .min();
            let ok = match want_rest {
                Some(r) => got.starts_with("ok") && got.ends_with(&format!("rest={}", r)),
                None => got.starts_with("err"),
            };
            if !ok {
                c.fail("a name item accepts a non-name, rejects a name or takes the wrong number of bytes", &format!("fmt {} text {:?} -> {}", fmt, text, got));
            }
        }
    }
}


/// Audit gaps (2026-09-30): the inputs the family theorems exclude, driven through the real crate.
/// * a fraction item after a white-space item (`Spec.spaceSafe`, now part of `Spec.Unambiguous`): the
///   fixed-width ones and a lone `%.f` still round-trip in the crate (oracle), `%S %.f .%3f` does not for a
///   whole second (the format is ambiguous: counted, compared with the model, never a panic);
/// * zone-aware values whose truncated wall clock at the printed offset is no instant of the range
///   (`family_roundtrip_zoned_excluded`: IMPOSSIBLE) or whose own wall clock leaves the range (OUT_OF_RANGE);
/// * leap representation on a second other than :59 (`leap_off_59_reads_back_normalised`).
fn run_audit_gaps(c: &mut Ctx) {
    // (a) fraction items after white space
    let ok_fmts = ["%H:%M:%S %.f", "%H:%M:%S %3f", "%H:%M:%S %.3f", "%H:%M:%S %.6f", "%H:%M:%S %9f", "%I:%M:%S %.f %p", "%H:%M:%S\t%.9f"];
    let amb_fmts = ["%H:%M:%S %.f .%3f", "%H:%M:%S %.f\t.%3f", "%H:%M:%S %.f .%f"];
    let n = c.n(40, 400);
    for i in 0..n {
        let secs = c.rng.range(0, 86399) as u32;
        let ms = if i % 3 == 0 { 0 } else { c.rng.range(0, 999) as u32 };
        let t = NaiveTime::from_num_seconds_from_midnight_opt(secs, ms * 1_000_000).unwrap();
        let v = Val::T(t);
        for fmt in ok_fmts.iter().chain(amb_fmts.iter()) {
            let text = v.format(fmt);
            let (reply, got) = match &text {
                Ok(Ok(s)) => {
                    let r = parse_as("time", s, fmt);
                    (format!("{} {}", hex(s.as_bytes()), show_parse(&r)), Some(show_parse(&r)))
                }
                Ok(Err(())) => ("err".to_string(), None),
                Err(()) => ("panic".to_string(), None),
            };
            c.op(&format!("pf.rt time {} {}", hex(fmt.as_bytes()), v.tokens()), &reply);
            if let Some(g) = &got {
                // the fixed-width fraction items after white space are inside `Spec.Unambiguous` (prediction
                // required); `%.f` after white space is the excluded class
                if ok_fmts.contains(fmt) && spec_excluded(fmt).is_none() {
                    c.op(&format!("pf.sp time {} {} | {}", hex(fmt.as_bytes()), v.tokens(), g), "agree");
                    c.count("spec:prediction-required");
                    c.count("spec:prediction-required:time");
                } else {
                    c.op(&format!("pf.spl time {} {} | {}", hex(fmt.as_bytes()), v.tokens(), g), "agree");
                    c.count("spec:prediction-not-required:time:optional-fraction-after-space");
                }
            }
            let want = format!("ok {}", v.tokens());
            if ok_fmts.contains(fmt) {
                c.count("gap:space-fraction:unambiguous");
                if got.as_deref() != Some(want.as_str()) {
                    c.fail("round trip: a fraction item after white space does not read back", &format!("time fmt {:?} value {} -> {}", fmt, v.tokens(), reply));
                }
            } else {
                match got.as_deref() {
                    None => c.fail("format or parse panicked on an optional fraction before a dot", &format!("time fmt {:?} value {}", fmt, v.tokens())),
                    Some(g) if g == want => c.count("gap:space-fraction:ambiguous:ok"),
                    Some(g) => {
                        // outside Spec.Unambiguous (spaceSafe): `05  .000` is read as the fraction `.000`
                        c.count(&format!("gap:space-fraction:ambiguous:{}", &g[..g.len().min(12)].replace(' ', "_")));
                        if ms != 0 && !fmt.ends_with(".%f") {
                            c.fail("ambiguous optional-fraction format fails although the fraction is printed", &format!("time fmt {:?} value {} -> {}", fmt, v.tokens(), reply));
                        }
                    }
                }
            }
        }
    }
    // (b) zone-aware values outside `truncate_to_precision`
    let zf = ["%Y-%m-%d %H:%M:%S %z", "%Y-%m-%dT%H:%M:%S%.f%:z", "%s %z", "%s"];
    let min0 = NaiveDate::MIN.and_hms_opt(0, 0, 0).unwrap();
    let max0 = NaiveDate::MAX.and_hms_opt(23, 59, 59).unwrap();
    let mut zs: Vec<(NaiveDateTime, i32, bool)> = vec![];
    for k in [31, 45, 59, 89, 1771] {
        // wall clock in range, printed offset rounds away from the instant
        zs.push((min0, k, true));
        zs.push((min0 + chrono::TimeDelta::seconds(c.rng.range(0, 20)), k, true));
        zs.push((max0, -k, true));
        zs.push((max0 - chrono::TimeDelta::seconds(c.rng.range(0, 20)), -k, true));
    }
    for k in [60, 3600, 7200, 86399] {
        // own wall clock outside the range of NaiveDate
        zs.push((max0, k, false));
        zs.push((min0, -k, false));
    }
    for (utc, off, local_in_range) in zs {
        let z = DateTime::<FixedOffset>::from_naive_utc_and_offset(utc, FixedOffset::east_opt(off).unwrap());
        let v = Val::Z(z);
        for fmt in zf {
            let text = v.format(fmt);
            let (reply, parsed) = match &text {
                Ok(Ok(s)) => {
                    let r = parse_as("zoned", s, fmt);
                    (format!("{} {}", hex(s.as_bytes()), show_parse(&r)), Some(r))
                }
                Ok(Err(())) => ("err".to_string(), None),
                Err(()) => ("panic".to_string(), None),
            };
            c.op(&format!("pf.rt zoned {} {}", hex(fmt.as_bytes()), v.tokens()), &reply);
            if let Some(r) = &parsed {
                c.op(&format!("pf.spl zoned {} {} | {}", hex(fmt.as_bytes()), v.tokens(), show_parse(r)), "agree");
            }
            match parsed {
                None => c.fail("format or parse panicked on a boundary zone-aware value", &format!("fmt {:?} value {}", fmt, v.tokens())),
                Some(Err(())) => c.fail("parse panicked on a boundary zone-aware value", &format!("fmt {:?} value {}", fmt, v.tokens())),
                Some(Ok(Ok(Val::Z(z2)))) => {
                    c.count("gap:zoned-boundary:ok");
                    // whatever comes back must be the same instant at whole seconds (timestamp formats) or the
                    // same wall clock (field formats); never another instant
                    let same_instant = z2.timestamp() == z.timestamp();
                    let same_wall = local_in_range && guard(|| z2.naive_local().and_utc().timestamp() == z.naive_local().and_utc().timestamp()).unwrap_or(false);
                    if !(same_instant || same_wall) {
                        c.fail("a boundary zone-aware value reads back as a different instant and wall clock", &format!("fmt {:?} value {} -> {}", fmt, v.tokens(), reply));
                    }
                }
                Some(Ok(Ok(_))) => unreachable!(),
                Some(Ok(Err(e))) => {
                    let k = err_kind(&e);
                    c.count(&format!("gap:zoned-boundary:{}:{}", if local_in_range { "rounded-offset" } else { "wall-clock-out-of-range" }, k));
                    // field formats with the wall clock in range: the theorem says IMPOSSIBLE
                    if local_in_range && !fmt.starts_with("%s") && k != "Impossible" {
                        c.fail("excluded zone-aware value: the reader does not answer IMPOSSIBLE", &format!("fmt {:?} value {} -> {}", fmt, v.tokens(), reply));
                    }
                }
            }
        }
    }
    // (c) leap representation off second :59
    let n = c.n(40, 400);
    for _ in 0..n {
        let mut secs = c.rng.range(0, 86398) as u32;
        if secs % 60 == 59 {
            secs -= 1;
        }
        let sub = *c.rng.pick(&[0u32, 1, 500_000_000, 999_999_999, 123_000_000]);
        let t0 = NaiveTime::from_num_seconds_from_midnight_opt(secs, 0).unwrap();
        let t = match t0.with_nanosecond(1_000_000_000 + sub) {
            Some(t) => t,
            None => continue,
        };
        let v = Val::T(t);
        for (fmt, keep) in [("%H:%M:%S%.f", true), ("%H:%M:%S", false), ("%I:%M:%S%.9f %p", true), ("%H:%M", false)] {
            let text = v.format(fmt);
            let (reply, got) = match &text {
                Ok(Ok(s)) => {
                    let r = parse_as("time", s, fmt);
                    (format!("{} {}", hex(s.as_bytes()), show_parse(&r)), Some(show_parse(&r)))
                }
                Ok(Err(())) => ("err".to_string(), None),
                Err(()) => ("panic".to_string(), None),
            };
            c.op(&format!("pf.rt time {} {}", hex(fmt.as_bytes()), v.tokens()), &reply);
            // the text is that of the normalised time one second later; that time (cut to the printed
            // precision) is what comes back
            let ns = secs + 1;
            let want = if fmt == "%H:%M" { format!("ok {} 0", ns / 60 * 60) } else { format!("ok {} {}", ns, if keep { sub } else { 0 }) };
            c.count("gap:leap-off-59");
            if got.as_deref() != Some(want.as_str()) {
                c.fail("leap representation off :59 does not read back as the normalised time", &format!("time fmt {:?} value {} -> {} want [{}]", fmt, v.tokens(), reply, want));
            }
        }
    }
}

pub fn run(c: &mut Ctx) {
    crate::aliases::c13(c);
    run_name_bytes(c);
    run_numeric_table(c);
    run_family(c);
    run_outside_family(c);
    run_entry_points(c);
    run_audit_gaps(c);
    run_stage1(c);
}
