//! C18 — `Local` uses the zone the environment names, and notices changes.
//!
//! Three streams, all compared with the Lean model (`lc.*` ops) and judged by direct oracles:
//!  * `lc.select`: `TimeZone::local(tz)` through the guarded hook `__verif_tz::from_env_tz`
//!    (selection without the fallbacks), in-process, many TZ values;
//!  * `lc.zone` / fast `lc.run`: the real `chrono::Local` on freshly spawned threads of this process
//!    with `TZ` set through `std::env::set_var` (selection with the fallbacks, new-thread behaviour,
//!    reuse inside the window) — no sleeping, so thousands of cases;
//!  * timed `lc.run`: histories run in CHILD PROCESSES (this binary re-invoked with
//!    `CHK_C18_CHILD=<history>`), with real sleeps of 0.15 / 0.6 / 1.1 s, because what is decided is
//!    the behaviour of the per-thread cache against the wall clock.
//! The model never sees a file system: every op line carries, for each path the model may ask for,
//! what the harness found there (absent / unreadable / not TZif / the zone's content number), which
//! strings are valid POSIX rules, the system zone's name and the mtime of /etc/localtime.
use crate::ctx::*;
use chrono::__verif_tz as vt;
use chrono::{Local, MappedLocalTime, NaiveDate, NaiveDateTime, TimeZone, Utc};
use std::collections::BTreeMap;
use std::io::Read;
use std::os::unix::ffi::OsStrExt;
use std::sync::mpsc::{channel, Receiver, Sender};
use std::time::{Duration, SystemTime, UNIX_EPOCH};

const PROBE_UTC: i64 = 1_705_320_000; // 2024-01-15T12:00:00Z
const PROBES: [i64; 3] = [PROBE_UTC, 1_721_044_800, -315_619_200]; // + 2024-07-15T12:00Z, 1960-01-01
const ZONE_DIRS: [&str; 6] = [
    "/usr/share/zoneinfo",
    "/share/zoneinfo",
    "/etc/zoneinfo",
    "/usr/share/lib/zoneinfo",
    "/usr/lib/zoneinfo",
    "/usr/local/share/zoneinfo",
];
const TZDB: &str = "/usr/share/zoneinfo";
const LOCALTIME: &str = "/etc/localtime";
/// the window of the cache is one second; a measured elapsed time is taken as "inside" below
/// REUSE_US and as "outside" above REFRESH_US, anything between is not judged
const REUSE_US: u64 = 800_000;
const REFRESH_US: u64 = 1_050_000;

fn probe_utc() -> NaiveDateTime {
    NaiveDate::from_ymd_opt(2024, 1, 15).unwrap().and_hms_opt(12, 0, 0).unwrap()
}

// ------------------------------------------------------------------------------------ TZif writer
/// POSIX TZ string of a fixed offset (seconds east): the sign is inverted
fn posix_fixed(name: &str, off: i32) -> String {
    let a = off.unsigned_abs();
    format!("{}{}{}:{:02}:{:02}", name, if off > 0 { "-" } else { "" }, a / 3600, a / 60 % 60, a % 60)
}
fn tzif_block(version: u8, off: i32, abbr: &str) -> Vec<u8> {
    let mut b = Vec::new();
    b.extend_from_slice(b"TZif");
    b.push(version);
    b.extend_from_slice(&[0u8; 15]);
    // isutcnt, isstdcnt, leapcnt, timecnt, typecnt, charcnt
    for n in [0u32, 0, 0, 0, 1, abbr.len() as u32 + 1] {
        b.extend_from_slice(&n.to_be_bytes());
    }
    b.extend_from_slice(&off.to_be_bytes());
    b.push(0); // is_dst
    b.push(0); // abbreviation index
    b.extend_from_slice(abbr.as_bytes());
    b.push(0);
    b
}
/// a version-2 file with no transitions, one type and the given footer
fn tzif_v2(off: i32, abbr: &str, footer: &str) -> Vec<u8> {
    let mut out = tzif_block(b'2', off, abbr);
    out.extend(tzif_block(b'2', off, abbr));
    out.push(b'\n');
    out.extend_from_slice(footer.as_bytes());
    out.push(b'\n');
    out
}
/// a version-1 file (single block, no footer)
fn tzif_v1(off: i32, abbr: &str) -> Vec<u8> {
    tzif_block(0, off, abbr)
}

// ------------------------------------------------------------------------------------ digests
/// content number of a zone for `lc.select`: its offsets at three instants, packed
fn dg3_of(offs: [i64; 3]) -> i64 {
    ((offs[0] + 200_000) * 1_000_000 + (offs[1] + 200_000)) * 1_000_000 + (offs[2] + 200_000)
}
fn dg3(z: &vt::Zone) -> i64 {
    let mut o = [0i64; 3];
    for (i, t) in PROBES.iter().enumerate() {
        o[i] = z.offset_at(*t).map(|x| x.0 as i64).unwrap_or(-200_000);
    }
    dg3_of(o)
}
/// content number of a zone for `lc.zone` / `lc.run`: its offset at the probe instant
fn dg1(z: &vt::Zone) -> i64 {
    z.offset_at(PROBE_UTC).map(|x| x.0 as i64).unwrap_or(-200_000)
}

// ------------------------------------------------------------------------------------ fixtures
#[derive(Clone, Debug)]
struct TzVal {
    /// `None` = unset; bytes otherwise (possibly not UTF-8)
    v: Option<Vec<u8>>,
    kind: &'static str,
    /// offset at the probe instant that the PROPERTY demands for this value, where the harness knows
    /// it independently of chrono's selection code (it wrote the file / the rule is standard / it is
    /// the documented fallback); `None` = no independent expectation, model comparison only
    expect: Option<i64>,
}
impl TzVal {
    fn tok(&self) -> String {
        match &self.v {
            None => "-".into(),
            Some(b) if std::str::from_utf8(b).is_err() => "!".into(),
            Some(b) => hex(b),
        }
    }
    fn show(&self) -> String {
        match &self.v {
            None => "<unset>".into(),
            Some(b) => format!("{:?}", String::from_utf8_lossy(b)),
        }
    }
}

struct Fx {
    syn: Vec<(String, i32)>, // absolute path, fixed offset
    bad: Vec<String>,        // absolute paths of readable non-TZif files
    dir: String,             // absolute path of a directory
    real: Vec<(&'static str, i64)>,
    rules: Vec<(&'static str, i64)>,
    sysname: Option<String>,
    mtime: Option<u128>,
    sys_expect: i64,
    /// families of TZ values that are textual variants of one another (element 0 is the base);
    /// kinds are `<family>:<variant>`
    families: Vec<Vec<TzVal>>,
}

fn system_zone_name() -> Option<String> {
    // what iana_time_zone does on Linux: the target of /etc/localtime below a `zoneinfo/` directory,
    // else the content of /etc/timezone
    if let Ok(p) = std::fs::canonicalize(LOCALTIME) {
        let s = p.to_string_lossy().into_owned();
        if let Some(i) = s.find("zoneinfo/") {
            return Some(s[i + 9..].to_string());
        }
    }
    std::fs::read_to_string("/etc/timezone").ok().map(|s| s.trim().to_string()).filter(|s| !s.is_empty())
}

/// Textual variants with (mostly) a different meaning: what a cache key computed from a normalised
/// form of the TZ text (trimmed, case-folded, colon stripped, truncated, basename only …) would
/// confuse.  Expectations are the property's table applied by hand.
fn variant_families(cwd: &str, syn: &[(String, i32)], real: &[(&'static str, i64)], sys: i64) -> Vec<Vec<TzVal>> {
    let mk = |s: String, kind: &'static str, e: Option<i64>| TzVal { v: Some(s.into_bytes()), kind, expect: e };
    let mut fams = vec![];
    // POSIX rules with distinctive offsets: (rule, offset, one digit shorter, its offset, west form)
    for (r, off, short, short_off, west, kinds) in [
        ("XYZ-7:13", 25980i64, "XYZ-7:1", 25260i64, "XYZ7:13",
         ["vrule:plain", "vrule:colon", "vrule:lead-space", "vrule:trail-space", "vrule:lower-case", "vrule:digit-appended", "vrule:digit-dropped", "vrule:sign-dropped", "vrule:tab-newline"]),
        ("QRS-4:47", 17220, "QRS-4:4", 14640, "QRS4:47",
         ["vrule2:plain", "vrule2:colon", "vrule2:lead-space", "vrule2:trail-space", "vrule2:lower-case", "vrule2:digit-appended", "vrule2:digit-dropped", "vrule2:sign-dropped", "vrule2:tab-newline"]),
    ] {
        fams.push(vec![
            mk(r.to_string(), kinds[0], Some(off)),
            mk(format!(":{}", r), kinds[1], Some(sys)),            // forced file lookup, no such file
            mk(format!(" {}", r), kinds[2], Some(off)),            // trimmed before rule reading: same zone
            mk(format!("{} ", r), kinds[3], Some(off)),
            mk(r.to_ascii_lowercase(), kinds[4], Some(off)),       // the name is arbitrary letters: same zone
            mk(format!("{}0", r), kinds[5], None),                 // minutes 130 / 470: model comparison only
            mk(short.to_string(), kinds[6], Some(short_off)),
            mk(west.to_string(), kinds[7], Some(-off)),
            mk(format!("\t{}\n", r), kinds[8], Some(off)),
        ]);
    }
    // a zone name: white space and case are NOT ignored for the file lookup
    if let Some((n, off)) = real.first() {
        fams.push(vec![
            mk(n.to_string(), "vname:plain", Some(*off)),
            mk(format!(" {}", n), "vname:lead-space", Some(sys)),
            mk(format!("{} ", n), "vname:trail-space", Some(sys)),
            mk(n.to_ascii_lowercase(), "vname:lower-case", Some(sys)),
            mk(n.to_ascii_uppercase(), "vname:upper-case", Some(sys)),
            mk(format!(":{}", n), "vname:colon", Some(*off)),
            mk(format!("{}/", n), "vname:slash-appended", Some(sys)),
        ]);
    }
    // an absolute path
    let (p0, o0) = (&syn[0].0, syn[0].1 as i64);
    fams.push(vec![
        mk(p0.clone(), "vpath:plain", Some(o0)),
        mk(format!(" {}", p0), "vpath:lead-space", Some(sys)),
        mk(format!("{} ", p0), "vpath:trail-space", Some(sys)),
        mk(format!(":{}", p0), "vpath:colon", Some(o0)),
        mk(format!(": {}", p0), "vpath:colon-space", Some(sys)),
    ]);
    // same basename in two directories (paths differ in the middle), with and without colon
    let n = syn.len();
    let ((pa, oa), (pb, ob)) = ((&syn[n - 2].0, syn[n - 2].1 as i64), (&syn[n - 1].0, syn[n - 1].1 as i64));
    fams.push(vec![
        mk(pa.clone(), "vtwin:a", Some(oa)),
        mk(format!(":{}", pb), "vtwin:colon-b", Some(ob)),
        mk(pb.clone(), "vtwin:b", Some(ob)),
        mk(format!(":{}", pa), "vtwin:colon-a", Some(oa)),
    ]);
    // a path, the same path one character longer (another file), one character shorter (no file)
    let ext = format!("{}0", p0);
    let ext_off = 4 * 3600 + 3i64;
    std::fs::write(&ext, tzif_v2(ext_off as i32, "SYX", &posix_fixed("SYX", ext_off as i32))).unwrap();
    fams.push(vec![
        mk(p0.clone(), "vext:plain", Some(o0)),
        mk(ext, "vext:char-appended", Some(ext_off)),
        mk(p0[..p0.len() - 1].to_string(), "vext:char-dropped", Some(sys)),
    ]);
    // names that differ in case only (skipped on a case-insensitive file system)
    let (pu, pl) = (format!("{}/Case.tzif", cwd), format!("{}/case.tzif", cwd));
    let (ou, ol) = (8 * 3600 + 9i64, -(8 * 3600 + 9i64));
    std::fs::write(&pu, tzif_v2(ou as i32, "SYU", &posix_fixed("SYU", ou as i32))).unwrap();
    std::fs::write(&pl, tzif_v2(ol as i32, "SYL", &posix_fixed("SYL", ol as i32))).unwrap();
    if std::fs::read(&pu).ok() == Some(tzif_v2(ou as i32, "SYU", &posix_fixed("SYU", ou as i32))) {
        fams.push(vec![mk(pu, "vcase:upper", Some(ou)), mk(pl, "vcase:lower", Some(ol))]);
    }
    // empty / unset / one space (all three mean different things; on a machine whose system zone
    // is UTC they give the same offset, so only the model comparison of the branch sees them)
    fams.push(vec![
        mk(String::new(), "vempty:empty", Some(0)),
        TzVal { v: None, kind: "vempty:unset", expect: Some(sys) },
        mk(" ".to_string(), "vempty:space", None),
    ]);
    fams
}

fn family_of(kind: &str) -> Option<&str> {
    if kind.starts_with('v') { kind.split_once(':').map(|x| x.0) } else { None }
}

fn fixtures() -> Fx {
    let cwd = std::env::current_dir().unwrap().join("c18fx");
    let _ = std::fs::create_dir_all(&cwd);
    let cwd = cwd.to_string_lossy().into_owned();
    let mut syn = vec![];
    // distinct offsets, none of them equal to a real zone's or a rule's used below, none 0
    for (i, off) in [5400i32, -8100, 25620, 40260, -35100, 13 * 3600 + 1, -11 * 3600 - 59, 1].iter().enumerate() {
        let p = format!("{}/syn{}.tzif", cwd, i);
        // abbreviations that together use every character class a designation may contain (letters of
        // both cases, every digit, `+`, `-`)
        let abbr = ["SYA", "+0918", "-27z", "q36", "SYE", "A45", "Zz+-", "b90"][i].to_string();
        let quoted = if abbr.bytes().all(|b| b.is_ascii_alphabetic()) { abbr.clone() } else { format!("<{}>", abbr) };
        let bytes = if i == 2 { tzif_v1(*off, &abbr) } else { tzif_v2(*off, &abbr, &posix_fixed(&quoted, *off)) };
        std::fs::write(&p, bytes).unwrap();
        syn.push((p, *off));
    }
    // two files whose paths differ only in the middle
    for (sub, off) in [("a", 6 * 3600 + 7i32), ("b", -(6 * 3600 + 7))] {
        let _ = std::fs::create_dir_all(format!("{}/{}", cwd, sub));
        let p = format!("{}/{}/z.tzif", cwd, sub);
        std::fs::write(&p, tzif_v2(off, "SYM", &posix_fixed("SYM", off))).unwrap();
        syn.push((p, off));
    }
    let mut bad = vec![];
    let good = tzif_v2(3600, "BAD", "BAD-1");
    for (name, bytes) in [
        ("bad_empty", vec![]),
        ("bad_text", b"Europe/Paris\n".to_vec()),
        ("bad_trunc", good[..30].to_vec()),
        ("bad_magic", {
            let mut g = good.clone();
            g[0] = b'X';
            g
        }),
    ] {
        let p = format!("{}/{}", cwd, name);
        std::fs::write(&p, bytes).unwrap();
        bad.push(p);
    }
    let dir = format!("{}/adir", cwd);
    let _ = std::fs::create_dir_all(&dir);
    let real: Vec<(&'static str, i64)> = [
        ("Asia/Tokyo", 32400i64),
        ("America/New_York", -18000),
        ("Asia/Kolkata", 19800),
        ("Australia/Sydney", 39600),
        ("America/St_Johns", -12600),
        // numeric abbreviations (`+09`, `-0930`, `+0545`)
        ("Asia/Yakutsk", 32400),
        ("Pacific/Marquesas", -34200),
        ("Asia/Kathmandu", 20700),
    ]
    .into_iter()
    .filter(|(n, _)| std::fs::metadata(format!("{}/{}", TZDB, n)).map(|m| m.is_file()).unwrap_or(false))
    .collect();
    // decoys (seed R5-C18-a: a relative TZ name opened against the working directory before the zoneinfo
    // directories): a readable zone file at the same RELATIVE path below the working directory, with an offset no
    // real zone or rule here has; a relative name must never select it
    let here = std::env::current_dir().unwrap();
    for (n, _) in &real {
        let p = here.join(n);
        if let Some(d) = p.parent() {
            let _ = std::fs::create_dir_all(d);
        }
        let _ = std::fs::write(&p, tzif_v2(4500, "DCY", "DCY-1:15"));
    }
    let rules = vec![
        ("XYZ-3", 10800i64),
        ("ABC5", -18000 + 0),
        ("<+0545>-5:45", 20700),
        ("EST4:30EDT,M3.2.0,M11.1.0", -16200),
        ("AAA-2BBB,M3.5.0,M10.5.0", 7200),
        ("  XYZ-7:30\t", 27000),
        ("QQQ-9:15:30", 33330),
        ("<+09>-9:00:01", 32401),
        ("<-0930>9:30:02", -34202),
        ("<12345>-1:01", 3660),
        ("<67890>1:02", -3720),
        ("<aZ+-9>-3:03", 10980),
        // the largest offsets a rule may state (F32: 24 h and more are refused, see the garbage list)
        ("AAA23:59:59", -86399),
        ("XXX-23:59:59", 86399),
    ];
    let sysname = system_zone_name();
    let mtime = std::fs::symlink_metadata(LOCALTIME)
        .and_then(|m| m.modified())
        .ok()
        .and_then(|t| t.duration_since(UNIX_EPOCH).ok())
        .map(|d| d.as_nanos());
    // the property's rule for "unset / unusable": /etc/localtime, else the named system zone, else UTC
    let read_off = |p: &str| std::fs::read(p).ok().and_then(|b| vt::from_tzif(&b).ok()).map(|z| dg1(&z));
    let named = sysname.as_ref().and_then(|n| read_off(&format!("{}/{}", TZDB, n)));
    let sys_expect = read_off(LOCALTIME).or(named).unwrap_or(0);
    let families = variant_families(&cwd, &syn, &real, sys_expect);
    Fx { syn, bad, dir, real, rules, sysname, mtime, sys_expect, families }
}

impl Fx {
    /// the value pool: (value, kind, expectation)
    fn pool(&self) -> Vec<TzVal> {
        let mut p = vec![];
        let mk = |s: String, kind: &'static str, e: Option<i64>| TzVal { v: Some(s.into_bytes()), kind, expect: e };
        for (path, off) in &self.syn {
            p.push(mk(path.clone(), "abs-path", Some(*off as i64)));
            p.push(mk(format!(":{}", path), "colon-abs-path", Some(*off as i64)));
        }
        // relative names that climb out of the first zoneinfo directory to a synthetic file
        if std::fs::metadata(TZDB).map(|m| m.is_dir()).unwrap_or(false) {
            let (path, off) = &self.syn[0];
            p.push(mk(format!("../../..{}", path), "rel-climb", Some(*off as i64)));
            p.push(mk(format!(":../../..{}", path), "colon-rel-climb", Some(*off as i64)));
        }
        for (n, off) in &self.real {
            p.push(mk(n.to_string(), "zone-name", Some(*off)));
            p.push(mk(format!(":{}", n), "colon-zone-name", Some(*off)));
        }
        for (r, off) in &self.rules {
            p.push(mk(r.to_string(), "posix-rule", Some(*off)));
        }
        p.push(mk(String::new(), "empty", Some(0)));
        p.push(mk("localtime".into(), "localtime", Some(self.sys_expect)));
        p.push(TzVal { v: None, kind: "unset", expect: Some(self.sys_expect) });
        p.push(TzVal { v: Some(vec![0xff, 0xfe, b'/', b'x']), kind: "not-unicode", expect: Some(self.sys_expect) });
        for g in [
            "garbage", "Not/AZone", ":/nonexistent/zone", "/nonexistent", ":", "XYZ", "+3", "Asia", ":Asia",
            "XYZ-25", ":XYZ-3", " Asia/Tokyo", "Asia/Tokyo ", "asia/tokyo", "::Asia/Tokyo",
            "XYZ-3,", "\u{e9}t\u{e9}", "localtimeX", "localtim", "Localtime", "localtime ", " localtime", "XYZ-3 4",
            "XY-3", "XYZ--3", "../../../nonexistent", ":../../../nonexistent",
            // offsets of 24 h or more are not readable values (F32): like any other invalid rule they
            // fall through to the system zone / UTC
            "AAA24", "XXX-24:30", "AAA-24", "AAA24:00:00", "AAA-24:00:01",
            // second review G7: a DST rule without dates is refused by the rule reader, also when it is
            // reached only because white space hid the zone FILE of that name; ':' never reads a rule
            " EST5EDT ", "EST5EDT ", ": EST5EDT", " CET-1CEST",
        ] {
            p.push(mk(g.to_string(), "garbage", Some(self.sys_expect)));
        }
        // exists on some systems as a link to /etc/localtime: no independent expectation
        p.push(mk(":localtime".into(), "other", None));
        p.push(mk("posixrules".into(), "other", None));
        p.push(mk(" ".into(), "other", None));
        p.push(mk("/etc/localtime".into(), "abs-path", Some(self.sys_expect)));
        p.push(mk(":/etc/localtime".into(), "colon-abs-path", Some(self.sys_expect)));
        for b in &self.bad {
            p.push(mk(b.clone(), "bad-file", Some(self.sys_expect)));
            p.push(mk(format!(":{}", b), "colon-bad-file", Some(self.sys_expect)));
        }
        for f in &self.families {
            p.extend(f.iter().cloned());
        }
        p.push(mk(self.dir.clone(), "directory", Some(self.sys_expect)));
        p.push(mk(format!(":{}", self.dir), "colon-directory", Some(self.sys_expect)));
        p
    }
    /// values whose zones differ pairwise and from the system zone (good for cache histories)
    fn distinct_pool(&self) -> Vec<TzVal> {
        let mut seen = vec![self.sys_expect];
        let mut out = vec![];
        for v in self.pool() {
            if let Some(e) = v.expect {
                if !seen.contains(&e) {
                    seen.push(e);
                    out.push(v);
                }
            }
        }
        out
    }
}

fn trim_ws(s: &str) -> &str {
    s.trim_matches(|c: char| matches!(c, ' ' | '\t' | '\n' | '\x0c' | '\r'))
}

/// one-edit mutations of a value (the malformed stream)
fn mutate(c: &mut Ctx, s: &str) -> String {
    let mut cs: Vec<char> = s.chars().collect();
    let ins = [':', '/', ' ', '-', '+', '0', '9', ',', 'M', '.', 'x', '<', '>', '\t', '\n'];
    match c.rng.below(7) {
        0 if !cs.is_empty() => {
            let i = c.rng.below(cs.len() as u64) as usize;
            cs.remove(i);
        }
        1 => {
            let i = c.rng.below(cs.len() as u64 + 1) as usize;
            cs.insert(i, *c.rng.pick(&ins));
        }
        2 if !cs.is_empty() => {
            let i = c.rng.below(cs.len() as u64) as usize;
            cs[i] = *c.rng.pick(&ins);
        }
        3 => cs.insert(0, *c.rng.pick(&[':', ' ', '/', '\t'])),
        4 => cs.push(*c.rng.pick(&[' ', '/', ',', '\n', '0'])),
        5 if !cs.is_empty() => {
            let i = c.rng.below(cs.len() as u64) as usize;
            cs[i] = if cs[i].is_ascii_uppercase() { cs[i].to_ascii_lowercase() } else { cs[i].to_ascii_uppercase() };
        }
        _ => cs.truncate(c.rng.below(cs.len() as u64 + 1) as usize),
    }
    cs.into_iter().filter(|ch| *ch != '\0').collect()
}

// ------------------------------------------------------------------------------------ world tokens
fn probe_file(path: &str, dg: &dyn Fn(&vt::Zone) -> i64) -> Option<String> {
    let mut f = std::fs::File::open(path).ok()?;
    let mut bytes = vec![];
    if f.read_to_end(&mut bytes).is_err() {
        return Some("d".into());
    }
    Some(match vt::from_tzif(&bytes) {
        Ok(z) => dg(&z).to_string(),
        Err(_) => "b".into(),
    })
}

/// everything the model may ask about the world when the TZ values are `vals`
fn world_tokens(fx: &Fx, vals: &[&TzVal], dg: &dyn Fn(&vt::Zone) -> i64, utc_dg: i64) -> String {
    world_tokens_with(&fx.sysname, fx.mtime, &[], vals, dg, utc_dg)
}

/// the same for an explicit system zone name / mtime (the namespace children describe THEIR world)
fn world_tokens_with(sysname: &Option<String>, mtime: Option<u128>, extra: &[String], vals: &[&TzVal], dg: &dyn Fn(&vt::Zone) -> i64, utc_dg: i64) -> String {
    struct F<'a> {
        sysname: &'a Option<String>,
        mtime: Option<u128>,
    }
    let fx = F { sysname, mtime };
    let mut paths: Vec<String> = vec![LOCALTIME.to_string()];
    paths.extend(extra.iter().cloned());
    if let Some(n) = fx.sysname {
        paths.push(format!("{}/{}", TZDB, n));
    }
    let mut rules: BTreeMap<String, i64> = BTreeMap::new();
    for v in vals {
        let Some(bytes) = &v.v else { continue };
        let Ok(s) = std::str::from_utf8(bytes) else { continue };
        for name in [s, s.strip_prefix(':').unwrap_or(s)] {
            if name.starts_with('/') {
                paths.push(name.to_string());
            } else {
                for d in ZONE_DIRS {
                    paths.push(format!("{}/{}", d, name));
                }
            }
        }
        let t = trim_ws(s);
        if vt::rule_from_tz_string(t.as_bytes(), false).is_ok() {
            // the zone a rule denotes, built independently of `from_posix_tz`: a TZif file without
            // transitions whose footer is the rule
            if let Ok(z) = vt::from_tzif(&tzif_v2(0, "UTC", t)) {
                rules.insert(t.to_string(), dg(&z));
            }
        }
    }
    paths.sort();
    paths.dedup();
    let mut toks = vec![format!("U{}", utc_dg)];
    if let Some(n) = fx.sysname {
        toks.push(format!("N{}", hex(n.as_bytes())));
    }
    if let Some(m) = fx.mtime {
        toks.push(format!("M{}", m));
    }
    for p in paths {
        if let Some(st) = probe_file(&p, dg) {
            toks.push(format!("F{}={}", hex(p.as_bytes()), st));
        }
    }
    for (r, d) in rules {
        toks.push(format!("R{}={}", hex(r.as_bytes()), d));
    }
    toks.join(" ")
}

// ------------------------------------------------------------------------------------ histories
#[derive(Clone, Debug)]
enum St {
    Set(TzVal),
    Wait(u64), // milliseconds
    Spawn(usize),
    Conv(usize, bool), // thread, local→UTC direction
    /// a conversion of the given reading (seconds of the naive date-time) instead of the probe: used
    /// with readings in a gap / fold of one of the zones, where the two directions disagree
    ConvAt(usize, bool, i64),
    /// first step only: the value TZ has when the process starts
    Start(TzVal),
    /// namespace children only: /etc/localtime is re-linked to that zone of the zoneinfo directory
    Link(String),
}

/// marker file that exists only inside the private mount namespace set up by `run_ns_children`
const NS_MARKER: &str = "/etc/.c18ns";
/// the zone /etc/localtime names when a namespace child starts (UTC+5:45: neither UTC nor in the pools)
const NS_SYS0: &str = "Asia/Kathmandu";

fn lt_mtime() -> Option<u128> {
    std::fs::symlink_metadata(LOCALTIME).and_then(|m| m.modified()).ok().and_then(|t| t.duration_since(UNIX_EPOCH).ok()).map(|d| d.as_nanos())
}

/// what iana_time_zone reports on Linux: the target of the /etc/localtime LINK (not canonicalised)
/// below a zoneinfo prefix, else /etc/timezone
fn iana_name() -> Option<String> {
    if let Ok(t) = std::fs::read_link(LOCALTIME) {
        let s = t.to_string_lossy().into_owned();
        for p in ["/usr/share/zoneinfo/", "../usr/share/zoneinfo/", "/etc/zoneinfo/", "../etc/zoneinfo/"] {
            if let Some(r) = s.strip_prefix(p) {
                return Some(r.to_string());
            }
        }
    }
    std::fs::read_to_string("/etc/timezone").ok().map(|s| s.trim_end().to_string())
}

fn encode(steps: &[St]) -> String {
    steps
        .iter()
        .map(|s| match s {
            St::Set(v) => match &v.v {
                None => "S-".to_string(),
                Some(b) => format!("S{}", hex(b)),
            },
            St::Wait(ms) => format!("W{}", ms),
            St::Spawn(t) => format!("T{}", t),
            St::Conv(t, l) => format!("C{}:{}", t, if *l { 'l' } else { 'u' }),
            St::ConvAt(t, l, r) => format!("D{}:{}:{}", t, if *l { 'l' } else { 'u' }, r),
            St::Start(v) => match &v.v {
                None => "E-".to_string(),
                Some(b) => format!("E{}", hex(b)),
            },
            St::Link(n) => format!("L{}", hex(n.as_bytes())),
        })
        .collect::<Vec<_>>()
        .join(" ")
}

fn unhex(s: &str) -> Vec<u8> {
    let s = &s[1..];
    (0..s.len() / 2).map(|i| u8::from_str_radix(&s[2 * i..2 * i + 2], 16).unwrap()).collect()
}

fn decode(text: &str) -> Vec<St> {
    text.split_whitespace()
        .map(|t| {
            let (k, rest) = t.split_at(1);
            match k {
                "S" if rest == "-" => St::Set(TzVal { v: None, kind: "", expect: None }),
                "S" => St::Set(TzVal { v: Some(unhex(rest)), kind: "", expect: None }),
                "W" => St::Wait(rest.parse().unwrap()),
                "T" => St::Spawn(rest.parse().unwrap()),
                "E" if rest == "-" => St::Start(TzVal { v: None, kind: "", expect: None }),
                "E" => St::Start(TzVal { v: Some(unhex(rest)), kind: "", expect: None }),
                "L" => St::Link(String::from_utf8_lossy(&unhex(rest)).into_owned()),
                "D" => {
                    let mut it = rest.split(':');
                    let t = it.next().unwrap().parse().unwrap();
                    let l = it.next().unwrap() == "l";
                    St::ConvAt(t, l, it.next().unwrap().parse().unwrap())
                }
                _ => {
                    let (t, d) = rest.split_once(':').unwrap();
                    St::Conv(t.parse().unwrap(), d == "l")
                }
            }
        })
        .collect()
}

fn now_us() -> u64 {
    SystemTime::now().duration_since(UNIX_EPOCH).map(|d| d.as_micros() as u64).unwrap_or(0)
}

/// one public conversion with `chrono::Local` on the calling thread
fn convert(local: bool, at: Option<i64>) -> (u64, u64, String) {
    let rd = at.and_then(|s| chrono::DateTime::from_timestamp(s, 0)).map(|d| d.naive_utc()).unwrap_or_else(probe_utc);
    let probe_utc = move || rd;
    let before = now_us();
    let r = if local {
        gs(
            || Local.from_local_datetime(&probe_utc()),
            |m| match m {
                MappedLocalTime::Single(dt) => dt.offset().local_minus_utc().to_string(),
                MappedLocalTime::Ambiguous(a, b) => {
                    format!("amb({},{})", a.offset().local_minus_utc(), b.offset().local_minus_utc())
                }
                MappedLocalTime::None => "none".to_string(),
            },
        )
    } else {
        gs(|| Local.offset_from_utc_datetime(&probe_utc()), |o| o.local_minus_utc().to_string())
    };
    (before, now_us(), r)
}

struct Worker {
    tx: Sender<(bool, Option<i64>)>,
    rx: Receiver<(u64, u64, String)>,
}
fn worker() -> Worker {
    let (tx, rx_cmd) = channel::<(bool, Option<i64>)>();
    let (tx_res, rx) = channel();
    std::thread::spawn(move || {
        while let Ok((local, at)) = rx_cmd.recv() {
            if tx_res.send(convert(local, at)).is_err() {
                break;
            }
        }
    });
    Worker { tx, rx }
}

struct Ev {
    step: usize,
    before: u64,
    after: u64,
    res: String,
}

/// run a history against the real crate IN THIS PROCESS (TZ is process-global)
fn exec_history(steps: &[St]) -> Vec<Ev> {
    let mut workers: BTreeMap<usize, Worker> = BTreeMap::new();
    let mut evs = vec![];
    for (i, s) in steps.iter().enumerate() {
        match s {
            St::Set(v) => match &v.v {
                None => std::env::remove_var("TZ"),
                Some(b) => std::env::set_var("TZ", std::ffi::OsStr::from_bytes(b)),
            },
            St::Wait(ms) => std::thread::sleep(Duration::from_millis(*ms)),
            St::Spawn(t) => {
                workers.insert(*t, worker());
            }
            St::Start(_) => {}
            St::Link(name) => {
                // never outside the private mount namespace
                let res = if std::path::Path::new(NS_MARKER).exists() && std::env::var("CHK_C18_NS").is_ok() {
                    let _ = std::fs::remove_file(LOCALTIME);
                    let _ = std::os::unix::fs::symlink(format!("{}/{}", TZDB, name), LOCALTIME);
                    format!(
                        "link {}:{}:{}",
                        lt_mtime().map(|m| m.to_string()).unwrap_or("-".into()),
                        probe_file(LOCALTIME, &dg1).unwrap_or("a".into()),
                        iana_name().map(|n| hex(n.as_bytes())).unwrap_or("-".into())
                    )
                } else {
                    "link-refused".to_string()
                };
                evs.push(Ev { step: i, before: 0, after: 0, res });
            }
            St::Conv(..) | St::ConvAt(..) => {
                let (t, l, at) = match s {
                    St::Conv(t, l) => (t, l, None),
                    St::ConvAt(t, l, r) => (t, l, Some(*r)),
                    _ => unreachable!(),
                };
                let w = workers.entry(*t).or_insert_with(worker);
                let r = if w.tx.send((*l, at)).is_ok() { w.rx.recv().ok() } else { None };
                let (before, after, res) = r.unwrap_or((now_us(), now_us(), "thread-died".into()));
                evs.push(Ev { step: i, before, after, res });
            }
        }
    }
    evs
}

/// per-thread knowledge of the parent about `last_checked`, from measured times only
#[derive(Default)]
struct Track {
    /// candidate (before, after) stamps of the call that last set `last_checked`
    cands: Vec<(u64, u64)>,
    tainted: bool,
}

/// the zone a TZ value names, built WITHOUT chrono's selection code (zone file below the zoneinfo
/// directory / absolute path, else the POSIX rule); only for the values of the gap/fold histories
fn zone_of_val(v: &TzVal) -> Option<vt::Zone> {
    let s = std::str::from_utf8(v.v.as_ref()?).ok()?;
    if s.is_empty() {
        return None;
    }
    let name = s.strip_prefix(':').unwrap_or(s);
    let path = if name.starts_with('/') { name.to_string() } else { format!("{}/{}", TZDB, name) };
    if let Ok(bytes) = std::fs::read(&path) {
        return vt::from_tzif(&bytes).ok();
    }
    if s.starts_with(':') {
        return None;
    }
    let t = trim_ws(s);
    vt::rule_from_tz_string(t.as_bytes(), false).ok()?;
    vt::from_tzif(&tzif_v2(0, "UTC", t)).ok()
}

/// what a zone answers for a reading, in the text form `convert` prints
fn zone_answer(z: &vt::Zone, at: i64, local: bool) -> String {
    if local {
        let d = chrono::DateTime::from_timestamp(at, 0).unwrap().naive_utc();
        z.offsets_for_local(d).map(show_m).unwrap_or("panic".into())
    } else {
        z.offset_at(at).map(|x| x.0.to_string()).unwrap_or("panic".into())
    }
}

/// what a namespace child reported about its world
struct NsCtx {
    world: String,
    /// offset at the probe of the zone /etc/localtime names when the child starts
    sys0: i64,
}

fn judge(c: &mut Ctx, fx: &Fx, steps: &[St], evs: &[Ev], tag: &str) {
    judge_ns(c, fx, steps, evs, tag, None)
}

/// turn an executed history into its op line, expected output and oracle verdicts
fn judge_ns(c: &mut Ctx, fx: &Fx, steps: &[St], evs: &[Ev], tag: &str, ns: Option<&NsCtx>) {
    let vals: Vec<&TzVal> = steps.iter().filter_map(|s| if let St::Set(v) | St::Start(v) = s { Some(v) } else { None }).collect();
    let world = match ns {
        Some(n) => n.world.clone(),
        None => world_tokens(fx, &vals, &dg1, 0),
    };
    // the system zone as the history goes (changes with `Link` steps inside a namespace)
    let mut cur_sys: i64 = ns.map(|n| n.sys0).unwrap_or(fx.sys_expect);
    let mut linked_since_change = false;
    // gap/fold readings: every zone named so far with its content number, to map an answer back
    let has_at = steps.iter().any(|s| matches!(s, St::ConvAt(..)));
    let mut zcands: Vec<(i64, vt::Zone)> = vec![];
    let mut zcands_complete = ns.is_none();
    if has_at && ns.is_none() {
        match std::fs::read(LOCALTIME).ok().and_then(|b| vt::from_tzif(&b).ok()) {
            Some(z) => zcands.push((dg1(&z), z)),
            None => zcands_complete = false,
        }
    }
    let mut toks: Vec<String> = vec![];
    let mut outs: Vec<String> = vec![];
    let mut tracks: BTreeMap<usize, Track> = BTreeMap::new();
    let mut cur: Option<&TzVal> = None; // None = TZ as the process started: unset
    // offsets of every zone TZ has named so far (None once a value without expectation was set)
    let mut named_so_far: Option<Vec<i64>> = Some(vec![cur_sys]);
    // the TZ token under which each thread's cache was last (re)built or re-checked
    let mut fresh_tok: BTreeMap<usize, String> = BTreeMap::new();
    // kind of the value under which each thread's cache was last (re)built, and of the value that
    // was current before the last change of TZ: for the variant-pair counters
    let mut fresh_kind: BTreeMap<usize, &'static str> = BTreeMap::new();
    let mut before_change: Option<&'static str> = None;
    let mut prev_mid: Option<u64> = None;
    let mut ei = 0;
    for (i, s) in steps.iter().enumerate() {
        match s {
            St::Link(name) => {
                if ei >= evs.len() || evs[ei].step != i || !evs[ei].res.starts_with("link ") {
                    c.fail("C18 harness: namespace child did not re-link /etc/localtime", &format!("{} step {}", encode(steps), i));
                    return;
                }
                toks.push(format!("L{}", &evs[ei].res[5..]));
                ei += 1;
                match std::fs::read(format!("{}/{}", TZDB, name)).ok().and_then(|b| vt::from_tzif(&b).ok()) {
                    Some(z) => cur_sys = dg1(&z),
                    None => {
                        c.fail("C18 harness: link target is not a zone file", name);
                        return;
                    }
                }
                linked_since_change = true;
                if let Some(xs) = named_so_far.as_mut() {
                    xs.push(cur_sys);
                }
                c.count(&format!("{}.relink-etc-localtime", tag));
            }
            St::Set(v) | St::Start(v) => {
                before_change = cur.map(|x| x.kind);
                cur = Some(v);
                linked_since_change = false;
                if has_at {
                    match zone_of_val(v) {
                        Some(z) => zcands.push((dg1(&z), z)),
                        None => zcands_complete = false,
                    }
                }
                toks.push(format!("{}{}", if matches!(s, St::Start(_)) { "E" } else { "S" }, v.tok()));
                let ex = if v.kind.starts_with("ns-sys") { Some(cur_sys) } else { v.expect };
                named_so_far = match (named_so_far, ex) {
                    (Some(mut xs), Some(e)) => {
                        xs.push(e);
                        Some(xs)
                    }
                    _ => None,
                };
            }
            St::Wait(_) => {}
            St::Spawn(t) => {
                tracks.remove(t);
                fresh_tok.remove(t);
                fresh_kind.remove(t);
                toks.push(format!("T{}", t));
            }
            St::Conv(..) | St::ConvAt(..) => {
                let (t, l, at) = match s {
                    St::Conv(t, l) => (t, l, None),
                    St::ConvAt(t, l, r) => (t, l, Some(*r)),
                    _ => unreachable!(),
                };
                if ei >= evs.len() || evs[ei].step != i {
                    c.fail("C18 harness: child did not report a conversion", &format!("{} step {}", encode(steps), i));
                    return;
                }
                let raw = &evs[ei];
                ei += 1;
                // a gap/fold reading: the answer is mapped back to the ONE zone named so far that gives
                // it for this reading in this direction (content number = its offset at the probe)
                let mut unmappable = false;
                let mapped: Option<String> = at.and_then(|r| {
                    let mut nums: Vec<i64> = zcands.iter().filter(|(_, z)| zone_answer(z, r, *l) == raw.res).map(|x| x.0).collect();
                    nums.sort();
                    nums.dedup();
                    if nums.len() == 1 {
                        c.count(&format!("{}.gapfold.answer.{}", tag, if raw.res.starts_with("amb") { "ambiguous" } else if raw.res == "none" { "none" } else { "single" }));
                        Some(nums[0].to_string())
                    } else if nums.is_empty() && zcands_complete {
                        c.fail(
                            "C18 a conversion answered with what no zone named so far answers for that reading",
                            &format!("history [{}] step {}: reading {} {} got {}", encode(steps), i, r, if *l { "local" } else { "utc" }, raw.res),
                        );
                        None
                    } else {
                        unmappable = true;
                        None
                    }
                });
                let e = &Ev { step: raw.step, before: raw.before, after: raw.after, res: mapped.unwrap_or(raw.res.clone()) };
                let mid = (e.before + e.after) / 2;
                let delta = prev_mid.map(|p| mid.saturating_sub(p)).unwrap_or(0);
                prev_mid = Some(mid);
                let tr = tracks.entry(*t).or_default();
                let cls = if tr.cands.is_empty() {
                    tr.cands = vec![(e.before, e.after)];
                    tr.tainted = false;
                    'n'
                } else {
                    let hi = tr.cands.iter().map(|(b, _)| e.after.saturating_sub(*b)).max().unwrap();
                    let lo = tr.cands.iter().map(|(_, a)| e.before.saturating_sub(*a)).min().unwrap();
                    if hi < REUSE_US {
                        if tr.tainted { '?' } else { 'r' }
                    } else if lo > REFRESH_US {
                        tr.cands = vec![(e.before, e.after)];
                        tr.tainted = false;
                        'f'
                    } else {
                        tr.cands.push((e.before, e.after));
                        tr.tainted = true;
                        '?'
                    }
                };
                let cls = if unmappable { '?' } else { cls };
                toks.push(format!("A{}", delta));
                toks.push(format!("C{}:{}:{}", t, if *l { 'l' } else { 'u' }, cls));
                outs.push(if cls == '?' { "?".to_string() } else { e.res.clone() });
                c.count(&format!("{}.class.{}", tag, match cls { 'n' => "new-thread", 'r' => "reuse<1s", 'f' => "refresh>=1s", _ => "ambiguous-not-judged" }));
                // ---- direct oracles: the property itself, no model involved
                let want = match cur {
                    Some(v) if v.kind.starts_with("ns-sys") => Some(cur_sys),
                    Some(v) => v.expect,
                    None => Some(cur_sys),
                };
                // the direct form for a gap/fold reading: the raw answer is what the zone of the
                // current TZ value answers for that reading in that direction
                if let (Some(r), Some(v)) = (at, cur) {
                    if cls == 'f' || cls == 'n' {
                        if let Some(z) = zone_of_val(v) {
                            let w = zone_answer(&z, r, *l);
                            if raw.res != w {
                                c.fail(
                                    "C18 a gap/fold reading is not answered by the zone TZ names (>= 1 s after the change / new thread)",
                                    &format!("history [{}] step {}: TZ={} reading {} {} demands {}, got {}", encode(steps), i, v.show(), r, if *l { "local" } else { "utc" }, w, raw.res),
                                );
                            }
                            c.count(&format!("{}.gapfold.judged.{}.{}", tag, if *l { "local" } else { "utc" }, if cls == 'f' { "refresh>=1s" } else { "new-thread" }));
                        }
                    }
                }
                if let Some(w) = want {
                    let cur_s = cur.map(|v| v.show()).unwrap_or("<unset>".into());
                    if cls == 'f' && linked_since_change && cur.map(|v| v.v.is_none()).unwrap_or(true) && e.res != w.to_string() {
                        c.fail(
                            "C18 a change of /etc/localtime (TZ unset) is not honoured by a conversion >= 1 s later on the same thread",
                            &format!("history [{}] step {}: /etc/localtime now demands offset {}, got {}", encode(steps), i, w, e.res),
                        );
                    } else if cls == 'f' && e.res != w.to_string() {
                        c.fail(
                            "C18 a change of TZ is not honoured by a conversion >= 1 s later on the same thread",
                            &format!("history [{}] step {}: TZ={} demands offset {}, got {}", encode(steps), i, cur_s, w, e.res),
                        );
                    }
                    if cls == 'n' && e.res != w.to_string() {
                        c.fail(
                            "C18 a new thread does not use the zone TZ names at that moment",
                            &format!("history [{}] step {}: TZ={} demands offset {}, got {}", encode(steps), i, cur_s, w, e.res),
                        );
                    }
                }
                if let Some(v) = cur {
                    if cls == 'n' || cls == 'f' {
                        c.count(&format!("{}.fresh-kind.{}", tag, v.kind));
                    }
                }
                // "no single conversion mixes two zones": the answer is the offset of ONE zone that
                // TZ named at some point of this history (or the system zone)
                if let Some(xs) = &named_so_far {
                    if !xs.iter().any(|x| x.to_string() == e.res) {
                        c.fail(
                            "C18 a conversion answered with an offset that no zone named so far has",
                            &format!("history [{}] step {}: got {}, zones named so far have {:?}", encode(steps), i, e.res, xs),
                        );
                    }
                }
                let tok_now = cur.map(|v| v.tok()).unwrap_or("-".into());
                if cls == 'f' {
                    let same = fresh_tok.get(t) == Some(&tok_now);
                    c.count(&format!("{}.refresh.{}", tag, if same { "same-value(recheck)" } else { "changed-value(reload)" }));
                }
                if cls == 'n' || cls == 'f' {
                    fresh_tok.insert(*t, tok_now);
                }
                // variant pairs: a judged refresh whose cache was built under a textual variant of
                // the current value, or a new thread right after a change between variants
                if let Some(v) = cur {
                    if let Some(fam) = family_of(v.kind) {
                        let from = if cls == 'f' { fresh_kind.get(t).copied() } else if cls == 'n' { before_change } else { None };
                        if let Some(from) = from {
                            if family_of(from) == Some(fam) && from != v.kind {
                                let how = if cls == 'f' { "same-thread>=1s" } else { "new-thread" };
                                c.count(&format!("{}.variant.{}.{}=>{}", tag, how, from, v.kind.split_once(':').map(|x| x.1).unwrap_or("")));
                                c.count(&format!("{}.variant-pairs.{}", tag, how));
                            }
                        }
                    }
                    if cls == 'n' || cls == 'f' {
                        fresh_kind.insert(*t, v.kind);
                    }
                } else if cls == 'n' || cls == 'f' {
                    fresh_kind.remove(t);
                }
                if e.res == "panic" || e.res == "thread-died" {
                    c.fail("C18 conversion panicked", &format!("history [{}] step {}", encode(steps), i));
                }
            }
        }
    }
    let line = format!("lc.run {} | {}", world, toks.join(" "));
    c.op(&line, &if outs.is_empty() { "-".to_string() } else { outs.join(" ") });
}

// ------------------------------------------------------------------------------------ generators
fn pickv<'a>(c: &mut Ctx, pool: &'a [TzVal]) -> &'a TzVal {
    &pool[c.rng.below(pool.len() as u64) as usize]
}

/// histories for child processes: scenario templates aimed at each branch of `Cache::offset`,
/// then random ones; at most 6 non-wait steps
fn gen_timed(c: &mut Ctx, fx: &Fx, k: usize) -> Vec<St> {
    let pool = fx.pool();
    let dist = fx.distinct_pool();
    let a = pickv(c, &dist).clone();
    let mut b = pickv(c, &dist).clone();
    while b.expect == a.expect {
        b = pickv(c, &dist).clone();
    }
    let any = pickv(c, &pool).clone();
    let unset = TzVal { v: None, kind: "unset", expect: Some(fx.sys_expect) };
    let l = |c: &mut Ctx| c.rng.chance(1, 2);
    use St::*;
    match k % 14 {
        // stale inside the window, honoured after it
        0 => vec![Set(a), Conv(0, l(c)), Set(b), Wait(150), Conv(0, l(c)), Wait(1100), Conv(0, l(c))],
        // a new thread sees the change at once, the old thread does not
        1 => vec![Set(a), Conv(0, l(c)), Set(b), Spawn(1), Conv(1, l(c)), Conv(0, l(c))],
        // reuse does not move `last_checked`: 0.6 s + 0.6 s is past the window
        2 => vec![Set(a), Conv(0, l(c)), Set(b), Wait(600), Conv(0, l(c)), Wait(600), Conv(0, l(c))],
        // environment -> unset -> environment (source kind changes)
        3 => vec![Set(a.clone()), Conv(0, l(c)), Set(unset), Wait(1100), Conv(0, l(c)), Set(a), Wait(1100), Conv(0, l(c))],
        // same value set again: re-checked, zone kept
        4 => vec![Set(a.clone()), Conv(0, l(c)), Set(a), Wait(1100), Conv(0, l(c)), Conv(0, l(c))],
        // unset first (source = mtime of /etc/localtime), re-check keeps, then a value
        5 => vec![Set(unset), Conv(0, l(c)), Wait(1100), Conv(0, l(c)), Set(b), Wait(1100), Conv(0, l(c))],
        // a value that cannot be used falls back, then a usable one
        6 => vec![Set(any), Conv(0, l(c)), Set(b), Wait(1100), Conv(0, l(c)), Wait(150), Conv(0, l(c))],
        // two threads with different ages
        7 => vec![Set(a), Conv(0, l(c)), Wait(600), Set(b), Spawn(1), Conv(1, l(c)), Wait(600), Conv(0, l(c)), Conv(1, l(c))],
        // change, change back within the window
        8 => vec![Set(a.clone()), Conv(0, l(c)), Set(b), Wait(150), Set(a), Wait(1100), Conv(0, l(c)), Conv(0, l(c))],
        // usable -> unusable after the window
        9 => vec![Set(a), Conv(0, l(c)), Set(any), Wait(1100), Conv(0, l(c))],
        // a -> b -> a, each honoured after the window (the recorded source must follow the zone)
        10 => vec![Set(a.clone()), Conv(0, l(c)), Set(b), Wait(1100), Conv(0, l(c)), Set(a), Wait(1100), Conv(0, l(c))],
        // values that differ in one character only (end / middle of the string): the source
        // comparison must see the whole value
        11 => {
            let mk = |s: &str, e: i64| TzVal { v: Some(s.as_bytes().to_vec()), kind: "near-twin", expect: Some(e) };
            let n = fx.syn.len();
            let pairs = [
                (mk(&fx.syn[0].0, fx.syn[0].1 as i64), mk(&fx.syn[1].0, fx.syn[1].1 as i64)),
                (mk(&fx.syn[n - 2].0, fx.syn[n - 2].1 as i64), mk(&fx.syn[n - 1].0, fx.syn[n - 1].1 as i64)),
                (mk("QRS-4", 14400), mk("QRS-5", 18000)),
                (mk("QRS-4", 14400), mk("QRS-4:01", 14460)),
            ];
            let (x, y) = pairs[(k / 14) % pairs.len()].clone();
            let (x, y) = if l(c) { (x, y) } else { (y, x) };
            vec![Set(x), Conv(0, l(c)), Set(y), Wait(1100), Conv(0, l(c))]
        }
        _ => {
            let mut steps = vec![Set(pickv(c, &pool).clone())];
            let mut threads = 1usize;
            let mut n = 1;
            while n < 6 {
                match c.rng.below(10) {
                    0..=2 => steps.push(Set(if c.rng.chance(2, 3) { pickv(c, &dist).clone() } else { pickv(c, &pool).clone() })),
                    3 => {
                        steps.push(Spawn(threads));
                        threads += 1;
                    }
                    _ => {
                        if c.rng.chance(2, 3) {
                            steps.push(Wait(*c.rng.pick(&[150u64, 150, 600, 1100, 1100])));
                        }
                        steps.push(Conv(c.rng.below(threads as u64) as usize, l(c)));
                    }
                }
                n += 1;
            }
            steps
        }
    }
}

/// Finding F33 (repaired): two valid TZ values with the same `DefaultHasher::new()` hash
/// (a46d3dde525f155a).  The cache used to remember that hash instead of the text, so a change from
/// one to the other was never noticed on a thread that had converted before.
const HASH_TWIN_A: (&str, i64) = ("<lVhnH9Y>-02<fch>,M3.2.0,M11.1.0", 7200);
const HASH_TWIN_B: (&str, i64) = ("<MIa3-7z>-11<h7b>,M3.2.0,M11.1.0", 39600);

fn default_hash(s: &str) -> u64 {
    use std::hash::Hasher;
    #[allow(deprecated)]
    let mut h = std::collections::hash_map::DefaultHasher::new();
    h.write(s.as_bytes());
    h.finish()
}

/// directed histories with the colliding pair, each on ONE thread: a -> b, b -> a, a -> b -> a, and
/// a -> b with a second thread started in between; every change must be honoured >= 1 s later
fn hash_twin_histories() -> Vec<Vec<St>> {
    use St::*;
    let mk = |x: (&str, i64)| TzVal { v: Some(x.0.as_bytes().to_vec()), kind: "hash-twin", expect: Some(x.1) };
    let (a, b) = (mk(HASH_TWIN_A), mk(HASH_TWIN_B));
    vec![
        vec![Set(a.clone()), Conv(0, false), Set(b.clone()), Wait(1100), Conv(0, false), Conv(0, true)],
        vec![Set(b.clone()), Conv(0, true), Set(a.clone()), Wait(1100), Conv(0, true), Conv(0, false)],
        vec![Set(a.clone()), Conv(0, false), Set(b.clone()), Wait(1100), Conv(0, true), Set(a.clone()), Wait(1100), Conv(0, false)],
        vec![Set(a), Conv(0, true), Set(b), Spawn(1), Conv(1, false), Wait(1100), Conv(0, false), Conv(1, true)],
    ]
}

/// a history that switches between two textual variants `x` -> `y`
fn variant_history(c: &mut Ctx, x: &TzVal, y: &TzVal, shape: usize, timed: bool) -> Vec<St> {
    use St::*;
    let l = |c: &mut Ctx| c.rng.chance(1, 2);
    let (x, y) = (x.clone(), y.clone());
    if !timed {
        // no sleeping: the old thread keeps its cache, new threads see each value at once
        return vec![Set(x.clone()), Conv(0, l(c)), Set(y.clone()), Spawn(1), Conv(1, l(c)), Conv(0, l(c)), Set(x), Spawn(2), Conv(2, l(c)), Conv(1, l(c))];
    }
    match shape % 3 {
        // honoured >= 1 s later on the same thread, and at once on a fresh thread
        0 => vec![Set(x), Conv(0, l(c)), Set(y), Wait(1100), Conv(0, l(c)), Spawn(1), Conv(1, l(c))],
        // x -> y -> x on one thread
        1 => vec![Set(x.clone()), Conv(0, l(c)), Set(y), Wait(1100), Conv(0, l(c)), Set(x), Wait(1100), Conv(0, l(c))],
        // a second thread built under x, re-checked under y; then the first thread is new under y
        _ => vec![Set(x), Spawn(1), Conv(1, l(c)), Set(y), Wait(1100), Conv(1, l(c)), Conv(0, l(c))],
    }
}

/// all ordered (base, variant) pairs, plus all pairs of the small families
fn variant_pairs(fx: &Fx) -> Vec<(TzVal, TzVal)> {
    let mut out = vec![];
    for f in &fx.families {
        if f.len() <= 4 {
            for a in f {
                for b in f {
                    if a.kind != b.kind {
                        out.push((a.clone(), b.clone()));
                    }
                }
            }
        } else {
            for b in &f[1..] {
                out.push((f[0].clone(), b.clone()));
                out.push((b.clone(), f[0].clone()));
            }
        }
    }
    out
}

/// a random history whose TZ values all come from one family of variants
fn gen_family_history(c: &mut Ctx, fx: &Fx, timed: bool) -> Vec<St> {
    use St::*;
    let fam = &fx.families[c.rng.below(fx.families.len() as u64) as usize];
    let mut steps = vec![Set(pickv(c, fam).clone()), Conv(0, c.rng.chance(1, 2))];
    let mut threads = 1usize;
    let mut n = 2;
    while n < 6 {
        match c.rng.below(6) {
            0 | 1 => {
                steps.push(Set(pickv(c, fam).clone()));
                if timed {
                    steps.push(Wait(*c.rng.pick(&[1100u64, 1100, 150])));
                }
                steps.push(Conv(c.rng.below(threads as u64) as usize, c.rng.chance(1, 2)));
                n += 2;
            }
            2 => {
                steps.push(Set(pickv(c, fam).clone()));
                steps.push(Spawn(threads));
                steps.push(Conv(threads, c.rng.chance(1, 2)));
                threads += 1;
                n += 3;
            }
            _ => {
                if timed && c.rng.chance(1, 2) {
                    steps.push(Wait(*c.rng.pick(&[150u64, 600, 1100])));
                }
                steps.push(Conv(c.rng.below(threads as u64) as usize, c.rng.chance(1, 2)));
                n += 1;
            }
        }
    }
    steps
}

/// histories without waits, run in this process
fn gen_fast(c: &mut Ctx, fx: &Fx, pool: &[TzVal]) -> Vec<St> {
    let _ = fx;
    use St::*;
    let mut steps = vec![];
    let mut threads = 1usize;
    let n = 2 + c.rng.below(7);
    steps.push(Set(pickv(c, pool).clone()));
    for _ in 0..n {
        match c.rng.below(8) {
            0 | 1 => steps.push(Set(pickv(c, pool).clone())),
            2 | 3 => {
                steps.push(Spawn(threads));
                steps.push(Conv(threads, c.rng.chance(1, 2)));
                threads += 1;
            }
            _ => steps.push(Conv(c.rng.below(threads as u64) as usize, c.rng.chance(1, 2))),
        }
    }
    steps
}

// ------------------------------------------------------------------------------------ directions
fn show_m(m: MappedLocalTime<i32>) -> String {
    match m {
        MappedLocalTime::Single(o) => o.to_string(),
        MappedLocalTime::Ambiguous(a, b) => format!("amb({},{})", a, b),
        MappedLocalTime::None => "none".to_string(),
    }
}

fn direction_oracles(c: &mut Ctx, fx: &Fx) {
    // (TZ value, the zone it names, built without chrono's selection code)
    let mut zones: Vec<(String, vt::Zone)> = vec![];
    for (n, _) in &fx.real {
        if let Some(z) = std::fs::read(format!("{}/{}", TZDB, n)).ok().and_then(|b| vt::from_tzif(&b).ok()) {
            zones.push((n.to_string(), z));
        }
        if let Some(z) = std::fs::read(format!("{}/{}", TZDB, n)).ok().and_then(|b| vt::from_tzif(&b).ok()) {
            zones.push((format!(":{}", n), z));
        }
    }
    for r in ["EST5EDT,M3.2.0,M11.1.0", "AAA-2BBB,M3.5.0,M10.5.0", "XYZ-3", "NZST-12NZDT,M9.5.0,M4.1.0/3"] {
        if let Ok(z) = vt::from_tzif(&tzif_v2(0, "UTC", r)) {
            zones.push((r.to_string(), z));
        }
    }
    for (p, _) in fx.syn.iter().take(3) {
        if let Some(z) = std::fs::read(p).ok().and_then(|b| vt::from_tzif(&b).ok()) {
            zones.push((p.clone(), z));
        }
    }
    // wall-clock / UTC readings: mid-winter, mid-summer, and every half hour of the days on which
    // the zones above change (2024-03-10, 03-31, 04-07, 09-29, 10-06, 10-27, 11-03), plus random ones
    let mut dts: Vec<NaiveDateTime> = vec![];
    for (m, d) in [(1u32, 15u32), (7, 15), (3, 10), (3, 31), (4, 7), (9, 29), (10, 6), (10, 27), (11, 3)] {
        for h in 0..24 {
            for mi in [0u32, 30] {
                dts.push(NaiveDate::from_ymd_opt(2024, m, d).unwrap().and_hms_opt(h, mi, 0).unwrap());
            }
        }
    }
    for _ in 0..c.n(50, 2000) {
        let t = c.rng.range(-2_000_000_000, 4_000_000_000);
        dts.push(chrono::DateTime::from_timestamp(t, 0).unwrap().naive_utc());
    }
    for (tz, zone) in &zones {
        std::env::set_var("TZ", tz);
        let dts2 = dts.clone();
        // everything on one fresh thread: its cache is built now, under this TZ
        #[allow(deprecated)]
        let got: Vec<(String, String, String, String, String)> = std::thread::spawn(move || {
            dts2.iter()
                .map(|d| {
                    (
                        gs(|| Local.offset_from_utc_datetime(d), |o| o.local_minus_utc().to_string()),
                        gs(|| Local.offset_from_local_datetime(d), |m| show_m(m.map(|o| o.local_minus_utc()))),
                        gs(|| Local.from_utc_datetime(d), |x| format!("{} {}", x.offset().local_minus_utc(), x.naive_utc() == *d)),
                        gs(
                            || Local.from_local_datetime(d),
                            |m| match m {
                                MappedLocalTime::Single(x) => format!("{} {}", x.offset().local_minus_utc(), x.naive_local() == *d),
                                MappedLocalTime::Ambiguous(a, b) => format!(
                                    "amb({},{}) {}",
                                    a.offset().local_minus_utc(),
                                    b.offset().local_minus_utc(),
                                    a.naive_local() == *d && b.naive_local() == *d
                                ),
                                MappedLocalTime::None => "none".to_string(),
                            },
                        ),
                        // `DateTime<Utc>::with_timezone(&Local)` directly (what `Local::now` is made of)
                        gs(|| Utc.from_utc_datetime(d).with_timezone(&Local), |x| format!("{} {}", x.offset().local_minus_utc(), x.naive_utc() == *d)),
                    )
                })
                .collect()
        })
        .join()
        .unwrap_or_default();
        if got.len() != dts.len() {
            c.fail("C18 conversion thread died", tz);
            continue;
        }
        // correspondence with the model's entry points (`lc.off`, Props/C18.lean
        // `one_lookup_per_entry_point`): the world as the model may ask for it under this TZ value, plus
        // what the named zone answers for the reading in each direction; the reply is the answer of the
        // direction the entry point routes to, from the zone the model selects
        let tzv = TzVal { v: Some(tz.as_bytes().to_vec()), kind: "direction", expect: None };
        let world = world_tokens(fx, &[&tzv], &dg1, 0);
        let zn = dg1(zone);
        let mut k_same = 0usize;
        for (d, g) in dts.iter().zip(got) {
            let want_u = zone.offset_at(d.and_utc().timestamp()).map(|x| x.0.to_string()).unwrap_or("panic".into());
            let want_l = zone.offsets_for_local(*d).map(show_m).unwrap_or("panic".into());
            k_same += 1;
            if want_u != want_l || k_same % 8 == 0 {
                let ts = d.and_utc().timestamp();
                let tail = format!("{} {} {} A{}:u={} A{}:l={}", tzv.tok(), ts, world, zn, want_u, zn, want_l);
                let first = |x: &str| x.split(' ').next().unwrap_or("").to_string();
                c.op(&format!("lc.off ou {}", tail), &g.0);
                c.op(&format!("lc.off ol {}", tail), &g.1);
                c.op(&format!("lc.off fu {}", tail), &first(&g.2));
                c.op(&format!("lc.off fl {}", tail), &first(&g.3));
                c.op(&format!("lc.off wt {}", tail), &first(&g.4));
                c.count(if want_u != want_l { "direction.model-ops.directions-differ" } else { "direction.model-ops.directions-agree" });
            }
            c.count(&format!("direction.local-result.{}", if want_l.starts_with("amb") { "ambiguous" } else if want_l == "none" { "none" } else { "single" }));
            if want_u != want_l {
                c.count("direction.readings-where-directions-differ");
            }
            if g.0 != want_u {
                c.fail("C18 Local.offset_from_utc_datetime is not the named zone's answer for that instant", &format!("TZ={:?} utc={} got {} want {}", tz, d, g.0, want_u));
            }
            if g.1 != want_l {
                c.fail("C18 Local.offset_from_local_datetime is not the named zone's answer for that wall-clock time", &format!("TZ={:?} local={} got {} want {}", tz, d, g.1, want_l));
            }
            if g.2 != format!("{} true", want_u) {
                c.fail("C18 Local.from_utc_datetime does not keep the instant / use the zone's offset", &format!("TZ={:?} utc={} got {} want {}", tz, d, g.2, want_u));
            }
            if g.4 != format!("{} true", want_u) {
                c.fail("C18 DateTime<Utc>::with_timezone(&Local) does not keep the instant / use the zone's offset", &format!("TZ={:?} utc={} got {} want {}", tz, d, g.4, want_u));
            }
            let want_fl = if want_l == "none" { "none".to_string() } else { format!("{} true", want_l) };
            if g.3 != want_fl {
                c.fail("C18 Local.from_local_datetime does not keep the wall-clock time / use the zone's offsets", &format!("TZ={:?} local={} got {} want {}", tz, d, g.3, want_fl));
            }
        }
        // the deprecated date forms read the offset at midnight, and `now()` uses the zone at "now"
        #[allow(deprecated)]
        for (m, dd) in [(1u32, 15u32), (3, 10), (7, 15), (11, 3)] {
            let date = NaiveDate::from_ymd_opt(2024, m, dd).unwrap();
            let mid = date.and_hms_opt(0, 0, 0).unwrap();
            let (gu, gl) = std::thread::spawn(move || {
                (
                    gs(|| Local.offset_from_utc_date(&date), |o| o.local_minus_utc().to_string()),
                    gs(|| Local.offset_from_local_date(&date), |m| show_m(m.map(|o| o.local_minus_utc()))),
                )
            })
            .join()
            .unwrap_or_default();
            let want_u = zone.offset_at(mid.and_utc().timestamp()).map(|x| x.0.to_string()).unwrap_or("panic".into());
            let want_l = zone.offsets_for_local(mid).map(show_m).unwrap_or("panic".into());
            {
                let tail = format!("{} {} {} A{}:u={} A{}:l={}", tzv.tok(), mid.and_utc().timestamp(), world, zn, want_u, zn, want_l);
                c.op(&format!("lc.off du {}", tail), &gu);
                c.op(&format!("lc.off dl {}", tail), &gl);
            }
            if gu != want_u || gl != want_l {
                c.fail("C18 Local.offset_from_*_date is not the named zone's answer at midnight", &format!("TZ={:?} date={} got {} / {} want {} / {}", tz, date, gu, gl, want_u, want_l));
            }
        }
        let now = std::thread::spawn(|| gs(Local::now, |x| format!("{} {}", x.timestamp(), x.offset().local_minus_utc()))).join().unwrap_or_default();
        let mut it = now.split(' ');
        if let (Some(ts), Some(off)) = (it.next().and_then(|x| x.parse::<i64>().ok()), it.next()) {
            let want = zone.offset_at(ts).map(|x| x.0.to_string()).unwrap_or("panic".into());
            c.op(&format!("lc.off now {} {} {} A{}:u={} A{}:l=-", tzv.tok(), ts, world, zn, want, zn), off);
            if off != want {
                c.fail("C18 Local::now() does not carry the named zone's offset", &format!("TZ={:?} ts={} got {} want {}", tz, ts, off, want));
            }
        } else {
            c.fail("C18 Local::now() panicked", tz);
        }
        c.count("direction.zones");
    }
}

// ------------------------------------------------------------------------------------ entry
fn child_main(text: &str) -> ! {
    let steps = decode(text);
    if !matches!(steps.first(), Some(St::Start(_))) {
        std::env::remove_var("TZ");
    }
    if std::env::var("CHK_C18_NS").is_ok() {
        // inside `unshare -m`: /etc is a private tmpfs copy, /etc/localtime a link the harness made
        if !std::path::Path::new(NS_MARKER).exists() {
            println!("NS setup-failed");
            std::process::exit(0)
        }
        // files named like POSIX rules in a zoneinfo directory: one that is not TZif, one that is
        let _ = std::fs::create_dir_all("/etc/zoneinfo");
        let _ = std::fs::write("/etc/zoneinfo/QQQ-3", b"not a TZif file");
        let _ = std::fs::write("/etc/zoneinfo/QQS-3", tzif_v1(4560, "QQS"));
        let vals: Vec<&TzVal> = steps.iter().filter_map(|s| if let St::Set(v) | St::Start(v) = s { Some(v) } else { None }).collect();
        let extra: Vec<String> = steps.iter().filter_map(|s| if let St::Link(n) = s { Some(format!("{}/{}", TZDB, n)) } else { None }).collect();
        println!("W {}", world_tokens_with(&iana_name(), lt_mtime(), &extra, &vals, &dg1, 0));
    }
    for e in exec_history(&steps) {
        println!("E {} {} {} {}", e.step, e.before, e.after, e.res);
    }
    std::process::exit(0)
}

/// Second review G2: histories run in a PRIVATE MOUNT NAMESPACE (`unshare -m`), where /etc is a tmpfs
/// copy: /etc/localtime is a link the harness controls (system zone = Asia/Kathmandu, not UTC, so
/// "falls back to the system zone" and "falls back to UTC" differ), it can be re-linked during a
/// history (the mtime branch of the cache), and /etc/zoneinfo — one of ZONE_INFO_DIRECTORIES — holds
/// files named like POSIX rules (fall-through to the rule reader would show).  The host is untouched.
fn ns_histories() -> Vec<Vec<St>> {
    use St::*;
    let mk = |s: &str, kind: &'static str, e: Option<i64>| TzVal { v: Some(s.as_bytes().to_vec()), kind, expect: e };
    let unset = || TzVal { v: None, kind: "ns-sys-unset", expect: None };
    let ny = || mk("America/New_York", "ns-zone-name", Some(-18000));
    vec![
        // the mtime branch: TZ unset throughout, /etc/localtime re-linked
        vec![Conv(0, false), Link("America/New_York".into()), Wait(150), Conv(0, true), Wait(1100), Conv(0, false), Conv(0, true), Spawn(1), Conv(1, false)],
        // clause 5: unusable values fall back to the system zone, which is not UTC here
        vec![Set(mk("garbage!", "ns-sys-garbage", None)), Conv(0, false), Set(mk("QQQ-3", "ns-sys-rule-named-bad-file", None)), Wait(1100), Conv(0, true),
             Set(mk(":QQR-3", "ns-sys-colon-missing-rule-name", None)), Spawn(1), Conv(1, false), Wait(1100), Conv(0, false)],
        // a file named like a rule beats the rule; a readable non-TZif file and a directory fall back
        vec![Set(mk("QQS-3", "ns-file-beats-rule", Some(4560))), Conv(0, false), Set(mk("/etc/passwd", "ns-sys-not-tzif", None)), Wait(1100), Conv(0, false),
             Set(mk("Europe", "ns-sys-directory", None)), Spawn(1), Conv(1, true)],
        // environment -> /etc/localtime with a link changed meanwhile, then two re-links in a row
        vec![Set(ny()), Conv(0, false), Link("Europe/Berlin".into()), Set(unset()), Wait(1100), Conv(0, false), Link("Pacific/Chatham".into()),
             Link("Asia/Tokyo".into()), Wait(1100), Conv(0, true)],
        // unchanged mtime: re-checked and kept; then re-linked: both threads follow
        vec![Conv(0, false), Spawn(1), Conv(1, false), Wait(1100), Conv(0, false), Link("America/New_York".into()), Wait(1100), Conv(1, true), Conv(0, false)],
    ]
}

fn run_ns_children(c: &mut Ctx, fx: &Fx, hists: Vec<Vec<St>>) {
    let permitted = std::process::Command::new("unshare")
        .args(["-m", "true"])
        .stdin(std::process::Stdio::null())
        .stdout(std::process::Stdio::null())
        .stderr(std::process::Stdio::null())
        .status()
        .map(|s| s.success())
        .unwrap_or(false);
    if !permitted {
        c.count("ns.skipped.unshare-not-permitted");
        c.sample("namespace histories skipped: `unshare -m true` fails here (clause 5 / mtime branch not observed)");
        return;
    }
    let Some(sys0) = std::fs::read(format!("{}/{}", TZDB, NS_SYS0)).ok().and_then(|b| vt::from_tzif(&b).ok()).map(|z| dg1(&z)) else {
        c.count("ns.skipped.no-zoneinfo");
        return;
    };
    let exe = std::env::current_exe().unwrap();
    let mnt = std::env::temp_dir().join(format!("c18ns-{}", std::process::id()));
    let _ = std::fs::create_dir_all(&mnt);
    let script = r#"set -e; mount -t tmpfs tmpfs "$1"; cp -a /etc/. "$1"/ 2>/dev/null || true; mount --bind "$1" /etc; rm -f /etc/localtime /etc/timezone; ln -s "$2" /etc/localtime; : > /etc/.c18ns; exec "$0" c18"#;
    let kids: Vec<_> = hists
        .iter()
        .map(|h| {
            std::process::Command::new("unshare")
                .args(["-m", "sh", "-c", script])
                .arg(&exe)
                .arg(&mnt)
                .arg(format!("{}/{}", TZDB, NS_SYS0))
                .env("CHK_C18_CHILD", encode(h))
                .env("CHK_C18_NS", "1")
                .env_remove("TZ")
                .stdin(std::process::Stdio::null())
                .stdout(std::process::Stdio::piped())
                .stderr(std::process::Stdio::null())
                .spawn()
        })
        .collect();
    for (h, k) in hists.iter().zip(kids) {
        let out = match k.and_then(|k| k.wait_with_output()) {
            Ok(o) => o,
            Err(e) => {
                c.fail("C18 harness: namespace child could not run", &format!("{} [{}]", e, encode(h)));
                continue;
            }
        };
        let text = String::from_utf8_lossy(&out.stdout);
        let Some(world) = text.lines().find_map(|l| l.strip_prefix("W ")) else {
            c.fail("C18 harness: namespace child reported no world (mount setup failed?)", &format!("[{}] output {:?}", encode(h), text));
            continue;
        };
        let evs = parse_evs(&text);
        c.count("ns.histories");
        c.sample(&format!("namespace history: {}", encode(h)));
        judge_ns(c, fx, h, &evs, "ns", Some(&NsCtx { world: world.to_string(), sys0 }));
    }
    let _ = std::fs::remove_dir(&mnt);
}

fn parse_evs(text: &str) -> Vec<Ev> {
    text.lines()
        .filter_map(|l| {
            let mut it = l.splitn(5, ' ');
            if it.next()? != "E" {
                return None;
            }
            Some(Ev { step: it.next()?.parse().ok()?, before: it.next()?.parse().ok()?, after: it.next()?.parse().ok()?, res: it.next()?.to_string() })
        })
        .collect()
}

/// cache state x direction (second review G4): after a change of TZ the conversions read a wall-clock
/// time in a gap or a fold of one of the two zones, where `from_local_datetime` and
/// `offset_from_utc_datetime` disagree; a refresh skipped on the local path only would show
fn gapfold_histories() -> Vec<Vec<St>> {
    use St::*;
    let mk = |s: &str, e: i64| TzVal { v: Some(s.as_bytes().to_vec()), kind: "gapfold", expect: Some(e) };
    let (ny, ber) = (|| mk("America/New_York", -18000), || mk("Europe/Berlin", 3600));
    let at = |m: u32, d: u32, h: u32, mi: u32| NaiveDate::from_ymd_opt(2024, m, d).unwrap().and_hms_opt(h, mi, 0).unwrap().and_utc().timestamp();
    let (ber_gap, ny_gap, ber_fold, ny_fold) = (at(3, 31, 2, 30), at(3, 10, 2, 30), at(10, 27, 2, 30), at(11, 3, 1, 30));
    vec![
        vec![Set(ny()), ConvAt(0, true, ber_gap), Set(ber()), Wait(150), ConvAt(0, true, ber_gap), Wait(1100), ConvAt(0, true, ber_gap), ConvAt(0, false, ber_gap)],
        vec![Set(ber()), ConvAt(0, false, ny_gap), Set(ny()), Wait(1100), ConvAt(0, true, ny_gap), ConvAt(0, true, ny_fold)],
        vec![Set(ny()), ConvAt(0, true, ber_fold), Set(ber()), Spawn(1), ConvAt(1, true, ber_fold), Wait(1100), ConvAt(0, true, ber_fold), ConvAt(0, false, ber_fold)],
        vec![Set(ber()), ConvAt(0, true, ny_fold), Set(ny()), Wait(600), ConvAt(0, true, ny_fold), Wait(600), ConvAt(0, true, ny_fold)],
    ]
}

fn run_children(c: &mut Ctx, fx: &Fx, hists: Vec<Vec<St>>, par: usize) {
    let exe = std::env::current_exe().unwrap();
    for batch in hists.chunks(par) {
        let kids: Vec<_> = batch
            .iter()
            .map(|h| {
                let mut cmd = std::process::Command::new(&exe);
                match h.first() {
                    Some(St::Start(TzVal { v: Some(b), .. })) => cmd.env("TZ", std::ffi::OsStr::from_bytes(b)),
                    _ => cmd.env_remove("TZ"),
                };
                cmd
                    .arg("c18")
                    .env("CHK_C18_CHILD", encode(h))
                    .stdin(std::process::Stdio::null())
                    .stdout(std::process::Stdio::piped())
                    .stderr(std::process::Stdio::null())
                    .spawn()
            })
            .collect();
        for (h, k) in batch.iter().zip(kids) {
            let out = match k.and_then(|k| k.wait_with_output()) {
                Ok(o) => o,
                Err(e) => {
                    c.fail("C18 harness: child process could not run", &format!("{} [{}]", e, encode(h)));
                    continue;
                }
            };
            let text = String::from_utf8_lossy(&out.stdout);
            let evs: Vec<Ev> = parse_evs(&text);
            c.count("timed.histories");
            c.sample(&format!("timed history: {}", encode(h)));
            judge(c, fx, h, &evs, "timed");
        }
    }
}

pub fn run(c: &mut Ctx) {
    if let Ok(text) = std::env::var("CHK_C18_CHILD") {
        child_main(&text);
    }
    std::env::remove_var("TZ");
    let fx = fixtures();
    let pool = fx.pool();
    c.sample(&format!(
        "system zone: name={:?} offset@probe={} mtime={:?}; {} synthetic TZif files, {} real zones, {} rules",
        fx.sysname, fx.sys_expect, fx.mtime, fx.syn.len(), fx.real.len(), fx.rules.len()
    ));

    // ---- 1. selection without fallbacks (hook), pool + mutations ------------------------------
    let utc3 = dg3_of([0, 0, 0]);
    let mut sel: Vec<TzVal> = pool.iter().filter(|v| v.tok() != "!").cloned().collect();
    let nmut = c.n(600, 12000);
    for _ in 0..nmut {
        let base = pickv(c, &pool).clone();
        let Some(b) = &base.v else { continue };
        let Ok(s) = std::str::from_utf8(b) else { continue };
        let mut m = mutate(c, s);
        if c.rng.chance(1, 4) {
            m = mutate(c, &m);
        }
        sel.push(TzVal { v: Some(m.into_bytes()), kind: "mutation", expect: None });
    }
    for v in &sel {
        let s: Option<String> = v.v.as_ref().map(|b| String::from_utf8(b.clone()).unwrap());
        let world = world_tokens(&fx, &[v], &dg3, utc3);
        let got = gs(|| vt::from_env_tz(s.as_deref()), |r| match r {
            Ok(z) => dg3(&z).to_string(),
            Err(_) => "err".to_string(),
        });
        c.op(&format!("lc.select {} {}", v.tok(), world), &got);
        c.count(&format!("select.kind.{}", v.kind));
        c.count(if got == "err" { "select.result.err" } else if got == utc3.to_string() { "select.result.utc-like" } else { "select.result.zone" });
        // direct oracle: the property's table, for the shapes the harness built itself
        let want: Option<String> = match v.kind {
            "abs-path" | "colon-abs-path" | "rel-climb" | "colon-rel-climb" | "posix-rule" | "empty" => {
                v.expect.map(|e| dg3_of([e, e, e]).to_string())
            }
            "zone-name" | "colon-zone-name" => {
                let n = s.as_deref().unwrap().trim_start_matches(':');
                std::fs::read(format!("{}/{}", TZDB, n)).ok().and_then(|b| vt::from_tzif(&b).ok()).map(|z| dg3(&z).to_string())
            }
            "garbage" | "bad-file" | "colon-bad-file" | "directory" | "colon-directory" => Some("err".into()),
            "unset" | "localtime" => {
                Some(std::fs::read(LOCALTIME).ok().and_then(|b| vt::from_tzif(&b).ok()).map(|z| dg3(&z).to_string()).unwrap_or("err".into()))
            }
            _ => None,
        };
        // rules with a DST part have different offsets at the three instants: check the probe only
        let want = if v.kind == "posix-rule" && s.as_deref().map(|x| x.contains(',')).unwrap_or(false) { None } else { want };
        if let Some(w) = want {
            if got != w {
                c.fail("C18 TZ value does not select the source the property names", &format!("TZ={} selected {} instead of {}", v.show(), got, w));
            }
        }
    }

    // ---- 2. current_zone with the fallbacks: the real Local on a fresh thread -------------------
    let mut zone_vals: Vec<TzVal> = pool.clone();
    for _ in 0..c.n(150, 3000) {
        let base = pickv(c, &pool).clone();
        let Some(b) = &base.v else { continue };
        let Ok(s) = std::str::from_utf8(b) else { continue };
        let m = mutate(c, s);
        zone_vals.push(TzVal { v: Some(m.into_bytes()), kind: "mutation", expect: None });
    }
    for v in &zone_vals {
        let steps = vec![St::Set(v.clone()), St::Spawn(1), St::Conv(1, false)];
        let evs = exec_history(&steps);
        let world = world_tokens(&fx, &[v], &dg1, 0);
        let got = evs.first().map(|e| e.res.clone()).unwrap_or("none".into());
        c.op(&format!("lc.zone {} {}", v.tok(), world), &got);
        c.count(&format!("zone.kind.{}", v.kind));
        if let Some(w) = v.expect {
            if got != w.to_string() {
                c.fail("C18 a new thread does not use the zone TZ names (or the documented fallback)", &format!("TZ={} demands offset {}, got {}", v.show(), w, got));
            }
        }
    }
    std::env::remove_var("TZ");

    // ---- 3. fast histories in this process (new threads, reuse inside the window) ---------------
    let dist = fx.distinct_pool();
    for i in 0..c.n(300, 6000) {
        let h = if i % 2 == 0 { gen_fast(c, &fx, &dist) } else { gen_fast(c, &fx, &pool) };
        let evs = exec_history(&h);
        if i < 2 {
            c.sample(&format!("fast history: {}", encode(&h)));
        }
        c.count("fast.histories");
        judge(c, &fx, &h, &evs, "fast");
    }
    // textual variants with a different meaning, without sleeping: every ordered pair, then random
    // histories inside one family
    let vpairs = variant_pairs(&fx);
    for rep in 0..c.n(1, 6) {
        for (x, y) in &vpairs {
            let h = variant_history(c, x, y, rep, false);
            let evs = exec_history(&h);
            c.count("fast.variant-histories");
            judge(c, &fx, &h, &evs, "fast");
        }
    }
    for _ in 0..c.n(150, 3000) {
        let h = gen_family_history(c, &fx, false);
        let evs = exec_history(&h);
        c.count("fast.family-histories");
        judge(c, &fx, &h, &evs, "fast");
    }
    std::env::remove_var("TZ");

    // ---- 3b. direction and routing of the public conversions (mod.rs): what `Local` answers on a
    // fresh thread is what the zone TZ names answers through the hook, in the same direction, also
    // next to transitions (gap, fold) where the two directions differ
    direction_oracles(c, &fx);
    std::env::remove_var("TZ");

    // ---- 4. timed histories in child processes --------------------------------------------------
    let n = c.n(28, 168);
    let mut hists: Vec<Vec<St>> = (0..n).map(|k| gen_timed(c, &fx, k)).collect();
    // every ordered pair of textual variants: the change must be honoured >= 1 s later on the same
    // thread and at once on a fresh thread (quick: shape 0; thorough: all three shapes)
    for shape in 0..c.n(1, 3) {
        for (x, y) in &vpairs {
            hists.push(variant_history(c, x, y, shape, true));
            c.count("timed.variant-histories");
        }
    }
    for _ in 0..c.n(6, 120) {
        hists.push(gen_family_history(c, &fx, true));
        c.count("timed.family-histories");
    }
    // finding F33 (repaired): the pair of values with equal DefaultHasher hash, both orders and a -> b -> a
    {
        let (ha, hb) = (default_hash(HASH_TWIN_A.0), default_hash(HASH_TWIN_B.0));
        c.sample(&format!("hash twins: DefaultHasher {:016x} / {:016x} for {:?} / {:?}", ha, hb, HASH_TWIN_A.0, HASH_TWIN_B.0));
        c.count(if ha == hb { "timed.hash-twin.DefaultHasher-equal" } else { "timed.hash-twin.DefaultHasher-differs(other std)" });
        for h in hash_twin_histories() {
            hists.push(h);
            c.count("timed.hash-twin-histories");
        }
    }
    // second review G4: gap/fold readings after a change (cache state x direction)
    for h in gapfold_histories() {
        hists.push(h);
        c.count("timed.gapfold-histories");
    }
    // TZ already set when the process starts (the model's e0 is not `unset`)
    {
        let dist = fx.distinct_pool();
        let (a, b) = (dist[0].clone(), dist[dist.len() / 2].clone());
        let unset = TzVal { v: None, kind: "unset", expect: Some(fx.sys_expect) };
        hists.push(vec![St::Start(a.clone()), St::Conv(0, false), St::Set(unset), St::Wait(1100), St::Conv(0, true)]);
        hists.push(vec![St::Start(a), St::Spawn(1), St::Conv(1, true), St::Set(b), St::Wait(1100), St::Conv(1, false)]);
        c.count("timed.start-with-TZ-set-histories");
        c.count("timed.start-with-TZ-set-histories");
        // a refresh must move `last_checked`: a change made right after a refresh is NOT seen for the
        // next second (model comparison only: the property does not demand staleness)
        let (a, b) = (dist[1 % dist.len()].clone(), dist[dist.len() / 3].clone());
        hists.push(vec![St::Set(a), St::Conv(0, false), St::Wait(1100), St::Conv(0, true), St::Set(b), St::Wait(150), St::Conv(0, false), St::Conv(0, true)]);
        c.count("timed.change-right-after-refresh-histories");
    }
    let par = c.n(128, 64);
    run_children(c, &fx, hists, par);
    // second review G2: the system zone is not UTC, /etc/localtime changes: private mount namespace
    run_ns_children(c, &fx, ns_histories());
    let _ = std::fs::remove_dir_all(std::env::current_dir().unwrap().join("c18fx"));
    for d in ["Asia", "America", "Australia", "Pacific"] {
        let _ = std::fs::remove_dir_all(std::env::current_dir().unwrap().join(d));
    }
}
