//! C11 — RFC 2822 output round-trips and obsolete forms are read as specified.
//!
//! Correspondence (implementation vs the Lean model, ops `r2.write`, `r2.rt`, `r2.parse`, `r2.item`):
//!   * renderings: `DateTime<FixedOffset>::to_rfc2822` on boundary-directed (date, time, offset) values
//!     (wall-clock years around 0 and 9999, leap seconds, every whole-minute offset class, some
//!     offsets with seconds), text compared and re-parsed; the same value through the item form
//!     `format_with_items([Fixed::RFC2822])` (text / `fmt::Error`, op `r2.item`, and a direct oracle
//!     against the independently formatted text);
//!   * grammar-generated strings: every optional part of the adapted RFC 2822 grammar toggled
//!     (day-name, one/two digit day, 2/3/4/5+ digit years, seconds, numeric / named / military zones,
//!     runs of the 25 Unicode white-space code points, nested and escaped comments to depth 4),
//!     with boundary-invalid field values mixed in;
//!   * single-edit mutations of such strings, and arbitrary text.
//! Direct oracles (implementation vs the property, no model involved): an independent reader of the
//! generated fields (reference calendar of c01, the year rule, the zone table of RFC 2822 §4.3) says
//! what instant and offset every grammar-generated string denotes or that it must be rejected
//! (non-existing date, contradicting day-name, field out of range); the writer's text is compared
//! with an independently formatted `Www, D Mon YYYY HH:MM:SS +HHMM`; the implementation's own round
//! trip returns the value truncated to whole seconds with a leap second kept; exhaustive tables for
//! the year rule (all 2-, 3- and 4-digit years), the zone names in every letter case, every single
//! letter, and all 7 day-names against sampled dates; every BMP character in the mandatory-space
//! positions is accepted iff it is one of the 25 `White_Space` code points (and `char::is_whitespace`
//! is that table on all code points); comments nested to depth 300, balanced / unbalanced / escaped.
use super::c01::{day_num, gen_date, month_len, yof, MAX_YEAR, MIN_YEAR};
use super::c13::{dump_parsed, err_kind};
use crate::ctx::*;
use crate::items::encode_items;
use chrono::format::{parse, parse_and_remainder, Fixed, Item, Parsed};
use chrono::{DateTime, Datelike, FixedOffset, NaiveDate, NaiveTime, TimeZone, Timelike, Utc};

const WS: [char; 25] = [
    '\t', '\n', '\u{b}', '\u{c}', '\r', ' ', '\u{85}', '\u{a0}', '\u{1680}', '\u{2000}', '\u{2001}', '\u{2002}', '\u{2003}', '\u{2004}',
    '\u{2005}', '\u{2006}', '\u{2007}', '\u{2008}', '\u{2009}', '\u{200a}', '\u{2028}', '\u{2029}', '\u{202f}', '\u{205f}', '\u{3000}',
];
const DAYS: [&str; 7] = ["Mon", "Tue", "Wed", "Thu", "Fri", "Sat", "Sun"];
const MONTHS: [&str; 12] = ["Jan", "Feb", "Mar", "Apr", "May", "Jun", "Jul", "Aug", "Sep", "Oct", "Nov", "Dec"];
/// RFC 2822 §4.3 obs-zone: name and hours east of UTC
const ZONES: [(&str, i32); 10] =
    [("UT", 0), ("GMT", 0), ("EST", -5), ("EDT", -4), ("CST", -6), ("CDT", -5), ("MST", -7), ("MDT", -6), ("PST", -8), ("PDT", -7)];

fn show_dt(dt: &DateTime<FixedOffset>) -> String {
    let u = dt.naive_utc();
    format!("{} {} {} {}", yof(&u.date()), u.time().num_seconds_from_midnight(), u.time().nanosecond(), dt.offset().local_minus_utc())
}
fn show_parse(s: &str) -> String {
    gs(
        || DateTime::parse_from_rfc2822(s),
        |r| match r {
            Ok(dt) => format!("ok {}", show_dt(&dt)),
            Err(e) => format!("err {}", err_kind(&e)),
        },
    )
}
/// `[Literal("<"), Fixed(RFC2822), Literal(">")]`: the item inside a longer item list
fn items_in_list() -> [Item<'static>; 3] {
    [Item::Literal("<"), Item::Fixed(Fixed::RFC2822), Item::Literal(">")]
}
/// `parse(&mut Parsed::new(), s, items)?; parsed.to_datetime()` in the form of `show_parse`
fn show_parse_items(s: &str, items: &[Item<'static>]) -> String {
    gs(
        || {
            let mut p = Parsed::new();
            parse(&mut p, s, items.iter()).and_then(|_| p.to_datetime())
        },
        |r| match r {
            Ok(dt) => format!("ok {}", show_dt(&dt)),
            Err(e) => format!("err {}", err_kind(&e)),
        },
    )
}

// ---- independent reference arithmetic ------------------------------------------------------------

/// (year, month, day) of a day number (0001-01-01 = 1); civil-from-days, shares nothing with chrono
fn civil(n: i64) -> (i64, i64, i64) {
    let z = n - 719163 + 719468;
    let era = z.div_euclid(146097);
    let doe = z.rem_euclid(146097);
    let yoe = (doe - doe / 1460 + doe / 36524 - doe / 146096) / 365;
    let doy = doe - (365 * yoe + yoe / 4 - yoe / 100);
    let mp = (5 * doy + 2) / 153;
    let d = doy - (153 * mp + 2) / 5 + 1;
    let m = if mp < 10 { mp + 3 } else { mp - 9 };
    let y = yoe + era * 400 + (m <= 2) as i64;
    (y, m, d)
}
fn ts_min() -> i64 {
    (day_num(MIN_YEAR as i64, 1, 1) - 719163) * 86400
}
fn ts_max() -> i64 {
    (day_num(MAX_YEAR as i64, 12, 31) - 719163) * 86400 + 86399
}
/// the documented text `Www, D Mon YYYY HH:MM:SS +HHMM` of a UTC reading shown at a whole-minute offset
fn doc_text(utc_day: i64, secs: i64, leap: bool, off: i64) -> Option<String> {
    let l = secs + off;
    let n = utc_day + l.div_euclid(86400);
    let sod = l.rem_euclid(86400);
    let (y, m, d) = civil(n);
    if !(0..=9999).contains(&y) {
        return None;
    }
    let wd = (n + 6).rem_euclid(7) as usize;
    let a = off.abs();
    Some(format!(
        "{}, {} {} {:04} {:02}:{:02}:{:02} {}{:02}{:02}",
        DAYS[wd],
        d,
        MONTHS[(m - 1) as usize],
        y,
        sod / 3600,
        sod / 60 % 60,
        sod % 60 + leap as i64,
        if off < 0 { '-' } else { '+' },
        a / 3600,
        a / 60 % 60
    ))
}

// ---- generators ------------------------------------------------------------------------------------

fn rnd_case(c: &mut Ctx, s: &str) -> String {
    match c.rng.below(5) {
        0 | 1 => s.to_string(),
        2 => s.to_uppercase(),
        3 => s.to_lowercase(),
        _ => s.chars().map(|ch| if c.rng.chance(1, 2) { ch.to_ascii_uppercase() } else { ch.to_ascii_lowercase() }).collect(),
    }
}
/// a run of at least `min` white-space characters
fn ws(c: &mut Ctx, min: usize) -> String {
    if c.rng.chance(2, 3) {
        return " ".repeat(min);
    }
    let n = min + c.rng.below(3) as usize;
    let mut s = String::new();
    for _ in 0..n {
        let k = c.rng.below(25) as usize;
        c.count(&format!("ws:U+{:04X}", WS[k] as u32));
        s.push(WS[k]);
    }
    s
}
fn gen_comment(c: &mut Ctx, depth: u32, maxdepth: &mut u32) -> String {
    *maxdepth = (*maxdepth).max(depth);
    let mut s = String::from("(");
    let n = c.rng.below(5);
    for _ in 0..n {
        match c.rng.below(10) {
            0 | 1 | 2 => s.push(*c.rng.pick(&['a', 'Z', '0', ' ', ',', ':', '+', '-', 'é', '日', '\t', '\u{2003}', '😀'])),
            3 => {
                s.push('\\');
                s.push(*c.rng.pick(&['(', ')', '\\', 'x', ' ', 'é', '日']));
                c.count("comment:escape");
            }
            4 | 5 if depth < 4 => s.push_str(&gen_comment(c, depth + 1, maxdepth)),
            _ => s.push_str(*c.rng.pick(&["UTC", "comment", "1 Jan 2000", "+0100", "x y"])),
        }
    }
    s.push(')');
    s
}

/// what an independent reading of the generated fields says
#[derive(Clone, Debug, PartialEq)]
enum Want {
    /// UTC seconds since the epoch, leap second, offset
    Ok(i64, bool, i32),
    Err(&'static str),
}

struct Gen {
    text: String,
    want: Want,
}

fn gen_year_text(c: &mut Ctx) -> (String, Option<i64>, &'static str) {
    match c.rng.below(12) {
        0 | 1 | 2 => {
            let r1 = c.rng.range(0, 99);
            let v = *c.rng.pick(&[0i64, 1, 49, 50, 51, 69, 70, 99, 24, 48, r1]);
            (format!("{:02}", v), Some(if v <= 49 { v + 2000 } else { v + 1900 }), if v <= 49 { "year:2digit-lo" } else { "year:2digit-hi" })
        }
        3 | 4 => {
            let r1 = c.rng.range(0, 999);
            let v = *c.rng.pick(&[0i64, 9, 49, 50, 99, 100, 112, 999, r1]);
            (format!("{:03}", v), Some(v + 1900), "year:3digit")
        }
        5 | 6 | 7 | 8 => {
            let (r1, r2) = (c.rng.range(0, 9999), c.rng.range(1900, 2100));
            let v = *c.rng.pick(&[0i64, 1, 49, 50, 99, 100, 654, 999, 1000, 1900, 1970, 2000, 2024, 9999, r1, r2]);
            (format!("{:04}", v), Some(v), "year:4digit")
        }
        9 | 10 => {
            let r1 = c.rng.range(0, 300000);
            let v = *c.rng.pick(&[0i64, 49, 99, 2024, 9999, 10000, 99999, 262141, 262142, 262143, 262144, 2147483647, 2147483648, r1]);
            let w = 5 + c.rng.below(6) as usize;
            (format!("{:0w$}", v, w = w), Some(v), "year:5+digit")
        }
        _ => (c.rng.pick(&["99999999999999999999", "9223372036854775808", "9223372036854775807", "18446744073709551616"]).to_string(), None, "year:overflow"),
    }
}

/// (text, offset seconds or the reason it is no zone, class)
fn gen_zone(c: &mut Ctx) -> (String, Result<i32, &'static str>, String) {
    match c.rng.below(12) {
        0 | 1 | 2 | 3 | 4 => {
            let hh = match c.rng.below(8) {
                0 => *c.rng.pick(&[23i32, 24, 25, 99]),
                _ => c.rng.range(0, 23) as i32,
            };
            let mm = match c.rng.below(8) {
                0 => *c.rng.pick(&[59i32, 60, 61, 99]),
                1 => c.rng.range(0, 59) as i32,
                _ => *c.rng.pick(&[0i32, 0, 30, 45]),
            };
            let neg = c.rng.chance(1, 2);
            let text = format!("{}{:02}{:02}", if neg { '-' } else { '+' }, hh, mm);
            if mm > 59 {
                (text, Err("zone minutes > 59"), "zone:num-badmin".into())
            } else if hh > 23 {
                (text, Err("offset of a day or more"), "zone:num-toolarge".into())
            } else {
                let o = hh * 3600 + mm * 60;
                (text, Ok(if neg { -o } else { o }), if o == 0 && neg { "zone:-0000".into() } else { "zone:num".into() })
            }
        }
        5 | 6 | 7 => {
            let (n, h) = *c.rng.pick(&ZONES);
            (rnd_case(c, n), Ok(h * 3600), format!("zone:{}", n))
        }
        8 | 9 => {
            let l = (b'a' + c.rng.below(26) as u8) as char;
            let l = if c.rng.chance(1, 2) { l.to_ascii_uppercase() } else { l };
            if l == 'j' || l == 'J' {
                (l.to_string(), Err("J is no zone"), "zone:J".into())
            } else {
                (l.to_string(), Ok(0), if l == 'z' || l == 'Z' { "zone:Z".into() } else { "zone:military".into() })
            }
        }
        10 => ("-0000".into(), Ok(0), "zone:-0000".into()),
        _ => {
            let t = *c.rng.pick(&["UTC", "CET", "Gp", "ESTX", "GM", "PS", "EDTT", "jj", "AB"]);
            (rnd_case(c, t), Err("unknown zone name"), "zone:unknown-name".into())
        }
    }
}

/// one string of the adapted grammar together with what it denotes
fn gen_grammar(c: &mut Ctx) -> Gen {
    // date fields
    let (ytext, year, ycls) = gen_year_text(c);
    c.count(ycls);
    let m = c.rng.range(1, 12);
    let ylen = month_len(year.unwrap_or(2000).clamp(-300000, 300000), m);
    let d = match c.rng.below(10) {
        0 => *c.rng.pick(&[0i64, ylen + 1, 32, 31, 30, 29]),
        1 => *c.rng.pick(&[1i64, ylen, 9, 10]),
        _ => c.rng.range(1, ylen),
    };
    let dtext = if d < 10 && c.rng.chance(1, 2) { format!("{}", d) } else { format!("{:02}", d) };
    c.count(if dtext.len() == 1 { "day:1digit" } else { "day:2digit" });
    let hour = if c.rng.chance(1, 15) { *c.rng.pick(&[23i64, 24, 25, 99]) } else { c.rng.range(0, 23) };
    let min = if c.rng.chance(1, 15) { *c.rng.pick(&[59i64, 60, 99]) } else { c.rng.range(0, 59) };
    let sec: Option<i64> = match c.rng.below(10) {
        0 | 1 | 2 => None,
        3 => Some(*c.rng.pick(&[59i64, 60, 60, 61, 99])),
        _ => Some(c.rng.range(0, 59)),
    };
    c.count(match sec {
        None => "sec:absent",
        Some(60) => "sec:60",
        Some(s) if s > 60 => "sec:>60",
        _ => "sec:present",
    });
    let (ztext, zone, zcls) = gen_zone(c);
    c.count(&zcls);
    // does the date exist?
    let date_ok = match year {
        Some(y) => y >= MIN_YEAR as i64 && y <= MAX_YEAR as i64 && d >= 1 && d <= month_len(y, m),
        None => false,
    };
    let true_wd = if date_ok { Some((day_num(year.unwrap(), m, d) + 6).rem_euclid(7) as usize) } else { None };
    // day-name: absent, the right one, a wrong one
    let wd: Option<usize> = match c.rng.below(10) {
        0 | 1 | 2 | 3 => None,
        4 | 5 => Some(c.rng.below(7) as usize),
        _ => Some(true_wd.unwrap_or(c.rng.below(7) as usize)),
    };
    c.count(match (wd, true_wd) {
        (None, _) => "dayname:absent",
        (Some(a), Some(b)) if a == b => "dayname:right",
        (Some(_), Some(_)) => "dayname:wrong",
        (Some(_), None) => "dayname:on-no-date",
    });
    // text
    let mut s = String::new();
    s.push_str(&ws(c, 0));
    if let Some(w) = wd {
        s.push_str(&rnd_case(c, DAYS[w]));
        s.push(',');
    }
    s.push_str(&ws(c, 0));
    s.push_str(&dtext);
    s.push_str(&ws(c, 1));
    s.push_str(&rnd_case(c, MONTHS[(m - 1) as usize]));
    s.push_str(&ws(c, 1));
    s.push_str(&ytext);
    s.push_str(&ws(c, 1));
    s.push_str(&format!("{:02}", hour));
    s.push_str(&ws(c, 0));
    s.push(':');
    s.push_str(&ws(c, 0));
    s.push_str(&format!("{:02}", min));
    if let Some(x) = sec {
        s.push_str(&ws(c, 0));
        s.push(':');
        s.push_str(&format!("{:02}", x));
    }
    s.push_str(&ws(c, 1));
    s.push_str(&ztext);
    let ncom = match c.rng.below(6) {
        0 => 1 + c.rng.below(3),
        1 => 1,
        _ => 0,
    };
    let mut maxdepth = 0;
    for _ in 0..ncom {
        s.push_str(&ws(c, 0));
        s.push_str(&gen_comment(c, 1, &mut maxdepth));
    }
    c.count(&format!("comments:{} depth:{}", ncom, maxdepth));
    // what it denotes
    let want = if !date_ok {
        Want::Err("date does not exist / year out of range")
    } else if wd.is_some() && wd != true_wd {
        Want::Err("day-name contradicts the date")
    } else if hour > 23 || min > 59 || sec.unwrap_or(0) > 60 {
        Want::Err("time field out of range")
    } else {
        match zone {
            Err(why) => Want::Err(why),
            Ok(off) => {
                let sv = sec.unwrap_or(0);
                let t = (day_num(year.unwrap(), m, d) - 719163) * 86400 + hour * 3600 + min * 60 + sv.min(59) - off as i64;
                if t < ts_min() || t > ts_max() {
                    Want::Err("instant outside the representable range")
                } else {
                    Want::Ok(t, sv == 60, off)
                }
            }
        }
    };
    Gen { text: s, want }
}

fn judge(c: &mut Ctx, g: &Gen) {
    let got = guard(|| DateTime::parse_from_rfc2822(&g.text));
    match (&g.want, got) {
        (_, Err(())) => c.fail("parse_from_rfc2822 panicked", &format!("{:?}", g.text)),
        (Want::Ok(t, leap, off), Ok(Ok(dt))) => {
            c.count("grammar:ok");
            let sub = dt.timestamp_subsec_nanos();
            if dt.timestamp() != *t || dt.offset().local_minus_utc() != *off || sub != if *leap { 1_000_000_000 } else { 0 } {
                c.fail(
                    "reader returned another instant/offset than the string denotes",
                    &format!("{:?}: got {} (ts {} +{}ns off {}), want ts {} leap {} off {}", g.text, dt, dt.timestamp(), sub, dt.offset().local_minus_utc(), t, leap, off),
                );
            }
        }
        (Want::Ok(t, leap, off), Ok(Err(e))) => {
            c.fail("reader rejected a string of the RFC 2822 date-time grammar", &format!("{:?}: {:?}, want ts {} leap {} off {}", g.text, e, t, leap, off))
        }
        (Want::Err(why), Ok(Ok(dt))) => c.fail("reader accepted a string it must reject", &format!("{:?} -> {} ({})", g.text, dt, why)),
        (Want::Err(why), Ok(Err(_))) => c.count(&format!("grammar:err ({})", why)),
    }
}

const MUT_CHARS: &[char] = &[
    '0', '1', '5', '6', '9', ' ', '\t', '\u{a0}', '\u{2003}', ',', ':', '+', '-', '(', ')', '\\', 'J', 'j', 'a', 'Z', 'M', 'n', 'é', '\u{2212}', '.',
];
fn mutate(c: &mut Ctx, s: &str) -> (String, &'static str) {
    let mut cs: Vec<char> = s.chars().collect();
    let n = cs.len();
    match c.rng.below(7) {
        0 if n > 0 => {
            let k = c.rng.below(n as u64) as usize;
            cs.remove(k);
            (cs.into_iter().collect(), "mut:delete")
        }
        1 => {
            let k = c.rng.below(n as u64 + 1) as usize;
            cs.insert(k, *c.rng.pick(MUT_CHARS));
            (cs.into_iter().collect(), "mut:insert")
        }
        2 if n > 0 => {
            let k = c.rng.below(n as u64) as usize;
            cs[k] = *c.rng.pick(MUT_CHARS);
            (cs.into_iter().collect(), "mut:replace")
        }
        3 => {
            let k = c.rng.below(n as u64 + 1) as usize;
            (cs[..k].iter().collect(), "mut:truncate")
        }
        4 if n > 1 => {
            let k = c.rng.below(n as u64 - 1) as usize;
            cs.swap(k, k + 1);
            (cs.into_iter().collect(), "mut:swap")
        }
        5 if n > 0 => {
            // duplicate a character (two-digit fields become three digits, `::`, `,,`, `((`)
            let k = c.rng.below(n as u64) as usize;
            let ch = cs[k];
            cs.insert(k, ch);
            (cs.into_iter().collect(), "mut:duplicate")
        }
        _ => {
            let mut t: String = cs.into_iter().collect();
            t.push_str(*c.rng.pick(&[" ", "x", "(", ")", "()", " ()", "\\", "( ", "0", "\n"]));
            (t, "mut:append")
        }
    }
}

const ARB: &[&str] = &[
    "0", "1", "2", "9", "00", "12", "60", " ", "  ", "\t", "\u{3000}", ",", ":", "+", "-", "(", ")", "\\", "Mon", "tue", "Jan", "dec", "May", "GMT",
    "ut", "est", "Z", "j", "é", "日", "+0000", "-0800", "2003", "03", "103", "10:52", ":37", "Sun,", "x",
];

fn gen_value(c: &mut Ctx) -> (NaiveDate, NaiveTime, i32) {
    let d = match c.rng.below(10) {
        0 | 1 => gen_date(c),
        2 | 3 => {
            // wall-clock year boundaries of the format
            let y = *c.rng.pick(&[-1i32, 0, 0, 1, 9998, 9999, 9999, 10000, 999, 1000, 99, 100]);
            let o = *c.rng.pick(&[1u32, 2, 364, 365, 366, 59, 60, 61]);
            NaiveDate::from_yo_opt(y, o).unwrap_or_else(|| NaiveDate::from_yo_opt(y, 365).unwrap())
        }
        _ => {
            let y = c.rng.range(0, 9999) as i32;
            NaiveDate::from_yo_opt(y, c.rng.range(1, 365) as u32).unwrap()
        }
    };
    let secs = match c.rng.below(6) {
        0 => *c.rng.pick(&[0u32, 1, 59, 60, 3599, 3600, 86399, 86398, 86340, 43200]),
        1 => c.rng.below(1440) as u32 * 60 + 59,
        _ => c.rng.below(86400) as u32,
    };
    let frac = match c.rng.below(6) {
        0 => 0u32,
        1 => *c.rng.pick(&[1u32, 999_999_999, 500_000_000, 1_000_000_000, 1_999_999_999, 1_500_000_000]),
        2 => 1_000_000_000 + c.rng.nanos(),
        _ => c.rng.nanos(),
    };
    let off = match c.rng.below(8) {
        0 => *c.rng.pick(&[0i32, 60, -60, 86340, -86340, 3600, -3600, 43200, -43200, 19800, -12600, 35940, -35940]),
        1 => *c.rng.pick(&[1i32, -1, 29, 30, 31, -29, -30, -31, 86399, -86399, 3599, 45296]),
        _ => c.rng.range(-1439, 1439) as i32 * 60,
    };
    (d, NaiveTime::from_num_seconds_from_midnight_opt(secs, 0).unwrap().with_nanosecond(frac).unwrap(), off)
}

fn items2822() -> [Item<'static>; 1] {
    [Item::Fixed(Fixed::RFC2822)]
}

pub fn run(c: &mut Ctx) {
    // ---- 1. renderings ---------------------------------------------------------------------------------
    for i in 0..c.n(60000, 300000) {
        let (d, t, off) = gen_value(c);
        let utc = d.and_time(t);
        let dt = FixedOffset::east_opt(off).unwrap().from_utc_datetime(&utc);
        let args = format!("{} {} {} {}", yof(&d), t.num_seconds_from_midnight(), t.nanosecond(), off);
        let text = guard(|| dt.to_rfc2822());
        c.op(
            &format!("r2.write {}", args),
            &match &text {
                Ok(s) => hex(s.as_bytes()),
                Err(()) => "panic".into(),
            },
        );
        // the same writer through the item form (`format_with_items([Fixed::RFC2822])`, `%c`-style use)
        if i % 2 == 0 {
            let via = guard(|| {
                use std::fmt::Write;
                let items = [chrono::format::Item::Fixed(chrono::format::Fixed::RFC2822)];
                let mut s = String::new();
                write!(s, "{}", dt.format_with_items(items.iter())).map(|_| s).map_err(|_| ())
            });
            c.count("render:item-form-compared");
            match (&text, &via) {
                (Ok(a), Ok(Ok(b))) if a == b => {}
                (Err(()), Ok(Err(()))) | (Err(()), Err(())) => {}
                _ => c.fail("the RFC 2822 item renders differently from to_rfc2822", &format!("{args}: to_rfc2822 {:?} item {:?}", text, via)),
            }
            // ... and against the MODEL of `format_with_items([RFC2822])` (op `r2.item`), not only crate vs crate
            c.op(
                &format!("r2.item {}", args),
                &match &via {
                    Ok(Ok(s)) => hex(s.as_bytes()),
                    Ok(Err(())) => "err".into(),
                    Err(()) => "panic".into(),
                },
            );
            // ... and against the property itself: the documented text of the wall clock (independent
            // formatter), `fmt::Error` — never a panic — when the wall-clock year is outside 0-9999
            let doc = doc_text(
                day_num(d.year() as i64, d.month() as i64, d.day() as i64),
                t.num_seconds_from_midnight() as i64,
                t.nanosecond() >= 1_000_000_000,
                off as i64,
            );
            match (&via, &doc) {
                (Err(()), _) => c.fail("item form: the RFC 2822 item panicked", &format!("{:?} off {}", utc, off)),
                (Ok(Ok(s)), None) => c.fail("item form: text for a wall-clock year outside 0-9999", &format!("{:?} off {} -> {:?}", utc, off, s)),
                (Ok(Err(())), Some(w)) => c.fail("item form: fmt::Error for a wall-clock year in 0-9999", &format!("{:?} off {} (want {:?})", utc, off, w)),
                (Ok(Ok(s)), Some(w)) if off % 60 == 0 && s != w => {
                    c.fail("item form: text differs from `Www, D Mon YYYY HH:MM:SS +HHMM` of the wall clock", &format!("{:?} off {}: {:?} vs {:?}", utc, off, s, w))
                }
                (Ok(Ok(s)), Some(w)) if off % 60 != 0 && s[..s.len().saturating_sub(5)] != w[..w.len().saturating_sub(5)] => {
                    c.fail("item form: text before the zone differs from `Www, D Mon YYYY HH:MM:SS ` of the wall clock", &format!("{:?} off {}: {:?} vs {:?}", utc, off, s, w))
                }
                _ => {}
            }
            c.count(if doc.is_some() { "render:item-form year0-9999" } else { "render:item-form year-outside (fmt::Error)" });
        }
        // the item INSIDE a longer item list (`<` item `>`): model (op `r2.items`) and the property itself
        if i % 4 == 1 {
            let via = guard(|| {
                use std::fmt::Write;
                let mut s = String::new();
                write!(s, "{}", dt.format_with_items(items_in_list().iter())).map(|_| s).map_err(|_| ())
            });
            c.op(
                &format!("r2.items {} {}", encode_items(&items_in_list()), args),
                &match &via {
                    Ok(Ok(s)) => hex(s.as_bytes()),
                    Ok(Err(())) => "err".into(),
                    Err(()) => "panic".into(),
                },
            );
            match (&via, &text) {
                (Ok(Ok(s)), Ok(t)) if *s == format!("<{}>", t) => {}
                (Ok(Err(())), Err(())) => {}
                _ => c.fail("item in a list: `<` RFC2822 `>` is not `<` + to_rfc2822() + `>` / fmt::Error where to_rfc2822 panics", &format!("{args}: {:?} vs {:?}", via, text)),
            }
            c.count("render:item-in-list");
        }
        // the generic `Tz`: the same instant as `DateTime<Utc>` is written at +0000
        if i % 16 == 3 {
            let u = dt.with_timezone(&Utc);
            let ut = guard(|| u.to_rfc2822());
            c.op(
                &format!("r2.write {} {} {} 0", yof(&d), t.num_seconds_from_midnight(), t.nanosecond()),
                &match &ut {
                    Ok(s) => hex(s.as_bytes()),
                    Err(()) => "panic".into(),
                },
            );
            let doc0 = doc_text(day_num(d.year() as i64, d.month() as i64, d.day() as i64), t.num_seconds_from_midnight() as i64, t.nanosecond() >= 1_000_000_000, 0);
            match (&ut, &doc0) {
                (Ok(s), Some(w)) if s == w => {}
                (Err(()), None) => {}
                _ => c.fail("DateTime<Utc>::to_rfc2822 differs from `Www, D Mon YYYY HH:MM:SS +0000` of the UTC reading", &format!("{:?}: {:?} vs {:?}", utc, ut, doc0)),
            }
            if let Ok(s) = &ut {
                // ... and reads back as the same instant at offset 0
                let back = gs(|| DateTime::parse_from_rfc2822(s), |r| match r {
                    Ok(b) => format!("{} {}", b.timestamp() + (b.timestamp_subsec_nanos() >= 1_000_000_000) as i64, b.offset().local_minus_utc()),
                    Err(e) => format!("err {}", err_kind(&e)),
                });
                let want = format!("{} 0", u.timestamp() + (u.timestamp_subsec_nanos() >= 1_000_000_000) as i64);
                if back != want {
                    c.fail("DateTime<Utc>::to_rfc2822 does not read back as the same instant at +0000", &format!("{:?}: {:?} -> {} (want {})", utc, s, back, want));
                }
            }
            c.count("render:Utc");
        }
        let secs = t.num_seconds_from_midnight() as i64;
        let leap = t.nanosecond() >= 1_000_000_000;
        let whole_minute = off % 60 == 0;
        let doc = doc_text(day_num(d.year() as i64, d.month() as i64, d.day() as i64), secs, leap, off as i64);
        c.count(match (&doc, whole_minute) {
            (Some(_), true) => "render:year0-9999 whole-minute",
            (Some(_), false) => "render:year0-9999 offset-with-seconds",
            (None, _) => "render:year-outside (documented panic)",
        });
        if leap {
            c.count(if secs % 60 == 59 { "render:leap on :59" } else { "render:leap repr on other second" });
        }
        match (&text, &doc) {
            (Err(()), Some(_)) => c.fail("to_rfc2822 panicked for a wall-clock year in 0-9999", &format!("{:?} off {}", utc, off)),
            (Ok(s), None) => c.fail("to_rfc2822 produced text for a wall-clock year outside 0-9999", &format!("{:?} off {} -> {:?}", utc, off, s)),
            (Ok(s), Some(want)) if whole_minute => {
                if s != want {
                    c.fail("to_rfc2822 text differs from `Www, D Mon YYYY HH:MM:SS +HHMM` of the wall clock", &format!("{:?} off {}: {:?} vs {:?}", utc, off, s, want));
                }
            }
            _ => {}
        }
        if let Ok(s) = &text {
            let back = show_parse(s);
            c.op(&format!("r2.rt {}", args), &back);
            if whole_minute {
                // to whole seconds; a leap second (second 59 of a minute) is kept; the in-band leap
                // representation on another second reads as the following second
                let (ws, wf) = if leap && secs % 60 == 59 { (secs, 1_000_000_000u32) } else { (secs + leap as i64, 0) };
                let want = format!("ok {} {} {} {}", yof(&d), ws, wf, off);
                if back != want {
                    c.fail("to_rfc2822 text does not parse back to the same instant and offset", &format!("{:?} off {}: {:?} -> {} (want {})", utc, off, s, back, want));
                }
                c.count("roundtrip:checked");
            }
            if i < 3 {
                c.sample(&format!("{:?} {:+} -> {:?} -> {}", utc, off, s, back));
            }
        }
    }

    // ---- 2. grammar-generated strings ----------------------------------------------------------------------
    let mut pool: Vec<String> = vec![];
    for i in 0..c.n(100000, 600000) {
        let g = gen_grammar(c);
        judge(c, &g);
        let r = show_parse(&g.text);
        c.op(&format!("r2.parse {}", hex(g.text.as_bytes())), &r);
        if i % 8 == 0 {
            // the field record itself (error kind included), through the shared `ps.items` op
            let got = gs(
                || {
                    let mut p = Parsed::new();
                    parse_and_remainder(&mut p, &g.text, items2822().iter()).map(|rest| (dump_parsed(&p), rest.len()))
                },
                |r| match r {
                    Ok((d, rest)) => format!("ok {} rest={}", d, rest),
                    Err(e) => format!("err {}", err_kind(&e)),
                },
            );
            c.op(&format!("ps.items FRFC2822 {}", hex(g.text.as_bytes())), &got);
            c.count("fields:compared");
        }
        if i % 8 == 4 {
            // the item inside a longer item list: `<` text `>` read with [Literal "<", RFC2822, Literal ">"]
            let wrapped = format!("<{}>", g.text);
            let enc = encode_items(&items_in_list());
            let got = gs(
                || {
                    let mut p = Parsed::new();
                    parse_and_remainder(&mut p, &wrapped, items_in_list().iter()).map(|rest| (dump_parsed(&p), rest.len()))
                },
                |r| match r {
                    Ok((d, rest)) => format!("ok {} rest={}", d, rest),
                    Err(e) => format!("err {}", err_kind(&e)),
                },
            );
            c.op(&format!("ps.items {} {}", enc, hex(wrapped.as_bytes())), &got);
            let rl = show_parse_items(&wrapped, &items_in_list());
            c.op(&format!("r2.pitems {} {}", enc, hex(wrapped.as_bytes())), &rl);
            // the property itself: `>` starts neither a letter nor a comment, so the list reads what the item alone reads
            let ok_of = |x: &str| x.strip_prefix("ok ").map(|v| v.to_string());
            if ok_of(&rl) != ok_of(&r) || rl == "panic" {
                c.fail("item in a list: `<` text `>` with [Literal, RFC2822, Literal] reads differently from parse_from_rfc2822(text)", &format!("{:?}: {} vs {}", g.text, rl, r));
            }
            c.count(if rl.starts_with("ok") { "list-read:ok" } else { "list-read:err" });
        }
        if matches!(g.want, Want::Ok(..)) && pool.len() < 4000 {
            pool.push(g.text.clone());
        }
        if i < 4 {
            c.sample(&format!("{:?} -> {} (want {:?})", g.text, r, g.want));
        }
    }

    // ---- 2b. the end of the representable range: the UTC reading must stay inside it ------------------------
    // (the specification's `Valid` also asks for a WALL-CLOCK year <= MAX_YEAR: `1 Jan 262143 00:00 +0001` denotes the
    // representable instant 262142-12-31T23:59Z at a valid offset and is nevertheless rejected — theorem
    // `wall_year_beyond_max_rejected`; an observation, not a violation: the property speaks of the supported range)
    {
        let s = "1 Jan 262143 00:00 +0001";
        let r = show_parse(s);
        if !r.starts_with("err") {
            c.fail("wall-clock year beyond MAX_YEAR was not rejected by value", &format!("{:?} -> {}", s, r));
        }
        c.op(&format!("r2.parse {}", hex(s.as_bytes())), &r);
        let legal = FixedOffset::east_opt(60).unwrap().from_utc_datetime(&NaiveDate::from_ymd_opt(262142, 12, 31).unwrap().and_hms_opt(23, 59, 0).unwrap());
        c.sample(&format!("{:?} -> {} although {:?} is a legal DateTime<FixedOffset>", s, r, legal.naive_utc()));
        c.count("range-edge:wall-year-beyond-max");
    }
    for _ in 0..c.n(400, 4000) {
        let (h, mi) = (c.rng.range(0, 23), c.rng.range(0, 59));
        let (oh, om) = (c.rng.range(0, 23), c.rng.range(0, 59));
        let neg = c.rng.chance(1, 2);
        let (y, m, d) = *c.rng.pick(&[(262142i64, 12i64, 31i64), (262142, 12, 30), (262142, 1, 1), (262143, 1, 1), (0, 1, 1)]);
        let off = (oh * 3600 + om * 60) * if neg { -1 } else { 1 };
        let text = format!("{} {} {} {:02}:{:02} {}{:02}{:02}", d, MONTHS[(m - 1) as usize], format!("{:04}", y), h, mi, if neg { '-' } else { '+' }, oh, om);
        let t = (day_num(y, m, d) - 719163) * 86400 + h * 3600 + mi * 60 - off;
        let want = if y > MAX_YEAR as i64 {
            Want::Err("date does not exist / year out of range")
        } else if t < ts_min() || t > ts_max() {
            Want::Err("instant outside the representable range")
        } else {
            Want::Ok(t, false, off as i32)
        };
        let g = Gen { text, want };
        judge(c, &g);
        c.op(&format!("r2.parse {}", hex(g.text.as_bytes())), &show_parse(&g.text));
        c.count("range-edge:compared");
    }

    // ---- 3. single-edit mutations of accepted strings ------------------------------------------------------
    for _ in 0..c.n(60000, 400000) {
        let base = if c.rng.chance(1, 4) { "Tue, 1 Jul 2003 10:52:37 +0200".to_string() } else { c.rng.pick(&pool).clone() };
        let (m, kind) = mutate(c, &base);
        let r = show_parse(&m);
        if let Some(k) = r.strip_prefix("err ") {
            c.count(&format!("mutation err kind: {}", k));
        }
        c.count(&format!("{} -> {}", kind, r.split(' ').next().unwrap_or("")));
        if r == "panic" {
            c.fail("parse_from_rfc2822 panicked", &format!("{:?}", m));
        }
        c.op(&format!("r2.parse {}", hex(m.as_bytes())), &r);
    }

    // ---- 4. arbitrary text -----------------------------------------------------------------------------------
    for _ in 0..c.n(20000, 100000) {
        let n = c.rng.below(14);
        let mut s = String::new();
        for _ in 0..n {
            s.push_str(*c.rng.pick(ARB));
            if c.rng.chance(1, 3) {
                s.push(' ');
            }
        }
        let r = show_parse(&s);
        c.count(&format!("arbitrary -> {}", r.split(' ').next().unwrap_or("")));
        if r == "panic" {
            c.fail("parse_from_rfc2822 panicked", &format!("{:?}", s));
        }
        c.op(&format!("r2.parse {}", hex(s.as_bytes())), &r);
    }

    // ---- 5. exhaustive tables: direct oracles (and the model on a part) ----------------------------------------
    // year rule: every two-, three- and four-digit year, some longer ones
    let year_of = |txt: &str| -> Result<Option<i32>, ()> {
        let s = format!("1 Jan {} 00:00 +0000", txt);
        guard(|| DateTime::parse_from_rfc2822(&s).ok().map(|d| d.year()))
    };
    for v in 0..100i32 {
        let want = if v <= 49 { 2000 + v } else { 1900 + v };
        if year_of(&format!("{:02}", v)) != Ok(Some(want)) {
            c.fail("year rule: two-digit year", &format!("{:02} -> {:?}, want {}", v, year_of(&format!("{:02}", v)), want));
        }
        c.op(&format!("r2.parse {}", hex(format!("1 Jan {:02} 00:00 +0000", v).as_bytes())), &show_parse(&format!("1 Jan {:02} 00:00 +0000", v)));
        c.count("yearrule:2digit");
    }
    for v in 0..1000i32 {
        if year_of(&format!("{:03}", v)) != Ok(Some(1900 + v)) {
            c.fail("year rule: three-digit year", &format!("{:03} -> {:?}, want {}", v, year_of(&format!("{:03}", v)), 1900 + v));
        }
        if v % 7 == 0 || v < 110 || v > 990 {
            c.op(&format!("r2.parse {}", hex(format!("1 Jan {:03} 00:00 +0000", v).as_bytes())), &show_parse(&format!("1 Jan {:03} 00:00 +0000", v)));
        }
        c.count("yearrule:3digit");
    }
    for v in 0..10000i32 {
        if year_of(&format!("{:04}", v)) != Ok(Some(v)) {
            c.fail("year rule: four-digit year", &format!("{:04} -> {:?}, want {}", v, year_of(&format!("{:04}", v)), v));
        }
        for w in [5usize, 6, 9] {
            if v % 97 == 0 && year_of(&format!("{:0w$}", v, w = w)) != Ok(Some(v)) {
                c.fail("year rule: longer year", &format!("{:0w$}", v, w = w));
            }
        }
        if v % 61 == 0 || v < 110 || v > 9990 {
            c.op(&format!("r2.parse {}", hex(format!("1 Jan {:04} 00:00 +0000", v).as_bytes())), &show_parse(&format!("1 Jan {:04} 00:00 +0000", v)));
        }
        c.count("yearrule:4digit");
    }
    // zone names in every letter case; every one- and some two-letter words
    let zone_of = |z: &str| -> Result<Option<i32>, ()> {
        let s = format!("1 Jan 2000 12:00 {}", z);
        guard(|| DateTime::parse_from_rfc2822(&s).ok().map(|d| d.offset().local_minus_utc()))
    };
    for (name, hours) in ZONES {
        for mask in 0..(1u32 << name.len()) {
            let v: String = name.chars().enumerate().map(|(i, ch)| if mask >> i & 1 == 1 { ch.to_ascii_lowercase() } else { ch }).collect();
            if zone_of(&v) != Ok(Some(hours * 3600)) {
                c.fail("zone name", &format!("{} -> {:?}, want {}", v, zone_of(&v), hours * 3600));
            }
            c.op(&format!("r2.parse {}", hex(format!("1 Jan 2000 12:00 {}", v).as_bytes())), &show_parse(&format!("1 Jan 2000 12:00 {}", v)));
            c.count("zonetable:name-case");
        }
    }
    for b in (b'a'..=b'z').chain(b'A'..=b'Z') {
        let l = (b as char).to_string();
        let want = if b == b'j' || b == b'J' { None } else { Some(0) };
        if zone_of(&l) != Ok(want) {
            c.fail("single-letter zone", &format!("{} -> {:?}, want {:?}", l, zone_of(&l), want));
        }
        c.op(&format!("r2.parse {}", hex(format!("1 Jan 2000 12:00 {}", l).as_bytes())), &show_parse(&format!("1 Jan 2000 12:00 {}", l)));
        c.count("zonetable:letter");
        for b2 in [b'a', b'T', b'z', b'J'] {
            let w = format!("{}{}", l, b2 as char);
            let known = ZONES.iter().any(|(n, _)| n.eq_ignore_ascii_case(&w));
            if !known && zone_of(&w) != Ok(None) {
                c.fail("two letters that are no zone name were accepted", &w);
            }
            c.op(&format!("r2.parse {}", hex(format!("1 Jan 2000 12:00 {}", w).as_bytes())), &show_parse(&format!("1 Jan 2000 12:00 {}", w)));
        }
    }
    // numeric zones: every hour 00-99 and every minute 00-99
    for hh in 0..100i32 {
        for mm in [0i32, 1, 30, 59, 60, 99] {
            for neg in [false, true] {
                let z = format!("{}{:02}{:02}", if neg { '-' } else { '+' }, hh, mm);
                let want = if mm < 60 && hh < 24 { Some(if neg { -(hh * 3600 + mm * 60) } else { hh * 3600 + mm * 60 }) } else { None };
                if zone_of(&z) != Ok(want) {
                    c.fail("numeric zone", &format!("{} -> {:?}, want {:?}", z, zone_of(&z), want));
                }
                if hh < 3 || hh > 21 {
                    c.op(&format!("r2.parse {}", hex(format!("1 Jan 2000 12:00 {}", z).as_bytes())), &show_parse(&format!("1 Jan 2000 12:00 {}", z)));
                }
                c.count("zonetable:numeric");
            }
        }
    }
    // day-names: each of the 7 against sampled dates, with and without the name
    for _ in 0..c.n(600, 6000) {
        let (r1, r2) = (c.rng.range(0, 9999), c.rng.range(1600, 2400));
        let y = *c.rng.pick(&[0i64, 1, 99, 100, 1900, 1999, 2000, 2024, 9999, r1, r2]);
        let m = c.rng.range(1, 12);
        let d = c.rng.range(1, month_len(y, m));
        let truth = (day_num(y, m, d) + 6).rem_euclid(7) as usize;
        for (k, name) in DAYS.iter().enumerate() {
            let s = format!("{}, {} {} {:04} 00:00:00 +0000", name, d, MONTHS[(m - 1) as usize], y);
            let r = show_parse(&s);
            if r.starts_with("ok") != (k == truth) {
                c.fail(if k == truth { "the right day-name was rejected" } else { "a contradicting day-name was accepted" }, &format!("{:?} -> {}", s, r));
            }
            c.op(&format!("r2.parse {}", hex(s.as_bytes())), &r);
            c.count(if k == truth { "dayname-table:right" } else { "dayname-table:wrong" });
        }
    }
    // ---- 6. white space: exactly the 25 `White_Space` code points, everywhere the standard form has a space ----
    // (a) the std predicate the scanners call is that table (trusted-base item checked on this tool-chain)
    for cp in 0..=0x10FFFFu32 {
        if let Some(ch) = char::from_u32(cp) {
            if ch.is_whitespace() != WS.contains(&ch) {
                c.fail("char::is_whitespace differs from the 25 White_Space code points", &format!("U+{:04X}", cp));
            }
        }
    }
    c.count("whitespace:std-predicate-checked");
    // (b) every BMP character (and some astral ones) in the three mandatory-space positions: accepted iff White_Space
    let astral = [0x10000u32, 0x1F600, 0xE0020, 0x10FFFF];
    for cp in (0..=0xFFFFu32).chain(astral.iter().copied()) {
        let ch = match char::from_u32(cp) {
            Some(ch) => ch,
            None => continue,
        };
        let s = format!("1{ch}Jan{ch}2000{ch}12:00{ch}+0000");
        let r = show_parse(&s);
        let is_ws = WS.contains(&ch);
        if r.starts_with("ok") != is_ws || r == "panic" {
            c.fail(
                if is_ws { "a White_Space character was not accepted as folding white space" } else { "a character that is no White_Space was accepted where a space belongs" },
                &format!("U+{:04X}: {:?} -> {}", cp, s, r),
            );
        }
        let near = WS.iter().any(|w| (*w as u32).abs_diff(cp) <= 1);
        if is_ws || near || cp % 251 == 0 || cp < 0x100 {
            c.op(&format!("r2.parse {}", hex(s.as_bytes())), &r);
            c.count(if is_ws { "whitespace:table ws" } else { "whitespace:table other" });
        }
    }
    // ---- 7. comments: nesting far beyond the generator's depth, balanced or not -------------------------------
    for depth in [1usize, 2, 5, 17, 64, 300] {
        for (open, close) in [(depth, depth), (depth, depth - 1), (depth, depth + 1)] {
            let s = format!("1 Jan 2000 12:00 +0000 {}{}", "(".repeat(open), ")".repeat(close));
            let r = show_parse(&s);
            if r.starts_with("ok") != (open == close) || r == "panic" {
                c.fail("nested comment: balanced parentheses must be accepted, unbalanced ones rejected", &format!("{} open {} close -> {}", open, close, r));
            }
            c.op(&format!("r2.parse {}", hex(s.as_bytes())), &r);
            // escapes: `\(` / `\)` inside do not count
            let e = format!("1 Jan 2000 12:00 +0000 {}\\(\\){}", "(".repeat(open), ")".repeat(close));
            let re = show_parse(&e);
            if re.starts_with("ok") != (open == close) {
                c.fail("nested comment with escaped parentheses", &format!("{:?} -> {}", e, re));
            }
            c.op(&format!("r2.parse {}", hex(e.as_bytes())), &re);
            c.count("comments:deep-nesting");
        }
    }
    let _ = civil;
}
