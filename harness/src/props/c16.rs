//! C16 — the TZif and TZ-rule readers accept well-formed data and survive everything else.
//!
//! Correspondence ops (model must print the same line):
//!   tzp.tzif x<bytes>            -> `err` | canonical zone dump
//!   tzp.rule x<bytes> <0|1>      -> `err` | canonical rule dump
//!   tzp.enc <ver> x<footer> <block> <block> -> x<bytes>   (the harness's writer vs Spec.encodeTzif)
//!   tzp.render <rule fields…>    -> x<bytes>              (the harness's canonical renderer vs Spec.renderTz)
//!   tzp.caps x<bytes>            -> the three `with_capacity` requests (element counts; accepted files)
//!   tzp.layout x<bytes>          -> the block lengths the header counts announce and the footer length (accepted files)
//!   tzp.at  <dump> t1,t2,…       -> o<off>:<dst> | err | panic   (three-valued lookup by instant on an accepted zone)
//!   tzp.loc <dump> ℓ1:y1,…       -> s<off> | a<o1>/<o2> | n | err | panic   (… by wall clock)
//! Direct oracles (`c.fail`): no panic in the readers or in lookups on accepted zones; a file written
//! by the writer below is accepted and dumps exactly what was written; a rendered rule parses to the
//! rule that was rendered; every system TZif file is accepted and decodes to what an independent
//! decoder reads; definitely-malformed mutations (magic, version, truncation, unsorted transitions,
//! indices out of bounds, DST flag, footer framing, …) are rejected.
use crate::ctx::*;
use chrono::__verif_tz as vt;
use chrono::{DateTime, Datelike, MappedLocalTime, NaiveDateTime};

/// Allocation probe: a counting wrapper around the system allocator, switched on only around a call
/// of the TZif reader (one relaxed atomic load per allocation otherwise).  It makes the property's
/// "no allocation beyond the input size" clause observable on the implementation.
mod alloc_probe {
    use std::alloc::{GlobalAlloc, Layout, System};
    use std::sync::atomic::{AtomicBool, AtomicUsize, Ordering::Relaxed};
    pub static ON: AtomicBool = AtomicBool::new(false);
    pub static TOTAL: AtomicUsize = AtomicUsize::new(0);
    pub static MAX_REQ: AtomicUsize = AtomicUsize::new(0);
    pub struct Counting;
    fn note(n: usize) {
        if ON.load(Relaxed) {
            TOTAL.fetch_add(n, Relaxed);
            MAX_REQ.fetch_max(n, Relaxed);
        }
    }
    unsafe impl GlobalAlloc for Counting {
        unsafe fn alloc(&self, l: Layout) -> *mut u8 {
            note(l.size());
            System.alloc(l)
        }
        unsafe fn alloc_zeroed(&self, l: Layout) -> *mut u8 {
            note(l.size());
            System.alloc_zeroed(l)
        }
        unsafe fn dealloc(&self, p: *mut u8, l: Layout) {
            System.dealloc(p, l)
        }
        unsafe fn realloc(&self, p: *mut u8, l: Layout, new_size: usize) -> *mut u8 {
            note(new_size);
            System.realloc(p, l, new_size)
        }
    }
    #[global_allocator]
    static A: Counting = Counting;
    /// run `f` with counting on: `(result, total bytes requested, largest single request)`
    pub fn measure<T>(f: impl FnOnce() -> T) -> (T, usize, usize) {
        TOTAL.store(0, Relaxed);
        MAX_REQ.store(0, Relaxed);
        ON.store(true, Relaxed);
        let r = f();
        ON.store(false, Relaxed);
        (r, TOTAL.load(Relaxed), MAX_REQ.load(Relaxed))
    }
}

// ------------------------------------------------------------------------------------------ models
#[derive(Clone, Debug)]
struct Ty {
    off: i32,
    dst: bool,
    abbr: usize,
}
#[derive(Clone, Debug, Default)]
struct Block {
    trans: Vec<(i64, u8)>,
    types: Vec<Ty>,
    names: Vec<u8>,
    leaps: Vec<(i64, i32)>,
    std_walls: Vec<u8>,
    ut_locals: Vec<u8>,
}
#[derive(Clone, Debug)]
struct TzFile {
    version: u8, // 1, 2, 3
    v1: Block,
    v2: Block,
    footer: Vec<u8>, // the TZ string between the two newlines
}
/// where things are in the encoded file (for structured mutations)
#[derive(Clone, Debug, Default)]
struct Layout {
    headers: Vec<usize>,   // start of each header
    edges: Vec<usize>,     // every block edge
    time_size: usize,      // of the decoded block
    times_off: usize,      // decoded block: transition times
    ttypes_off: usize,     // decoded block: transition type bytes
    types_off: usize,      // decoded block: ltt records
    names_off: usize,      // decoded block: designations
    leaps_off: usize,
    std_off: usize,
    ut_off: usize,
    footer_off: Option<usize>, // position of the first '\n' of the footer
}

fn put_header(out: &mut Vec<u8>, ver: u8, b: &Block) {
    out.extend_from_slice(b"TZif");
    out.push(match ver {
        1 => 0,
        2 => b'2',
        _ => b'3',
    });
    out.extend_from_slice(&[0u8; 15]);
    for n in [b.ut_locals.len(), b.std_walls.len(), b.leaps.len(), b.trans.len(), b.types.len(), b.names.len()] {
        out.extend_from_slice(&(n as u32).to_be_bytes());
    }
}
fn put_body(out: &mut Vec<u8>, b: &Block, ts: usize, mut mark: impl FnMut(&str, usize)) {
    mark("times", out.len());
    for (t, _) in &b.trans {
        if ts == 4 {
            out.extend_from_slice(&(*t as i32).to_be_bytes());
        } else {
            out.extend_from_slice(&t.to_be_bytes());
        }
    }
    mark("ttypes", out.len());
    for (_, i) in &b.trans {
        out.push(*i);
    }
    mark("types", out.len());
    for t in &b.types {
        out.extend_from_slice(&t.off.to_be_bytes());
        out.push(t.dst as u8);
        out.push(t.abbr as u8);
    }
    mark("names", out.len());
    out.extend_from_slice(&b.names);
    mark("leaps", out.len());
    for (t, c) in &b.leaps {
        if ts == 4 {
            out.extend_from_slice(&(*t as i32).to_be_bytes());
        } else {
            out.extend_from_slice(&t.to_be_bytes());
        }
        out.extend_from_slice(&c.to_be_bytes());
    }
    mark("std", out.len());
    out.extend_from_slice(&b.std_walls);
    mark("ut", out.len());
    out.extend_from_slice(&b.ut_locals);
    mark("end", out.len());
}
/// the conforming writer (RFC 8536): v1 = header + 32-bit block; v2/v3 = that, a second header,
/// the 64-bit block and the footer `\n<TZ string>\n`
fn encode(f: &TzFile) -> (Vec<u8>, Layout) {
    let mut out = vec![];
    let mut l = Layout::default();
    let decoded_first = f.version == 1;
    l.headers.push(0);
    put_header(&mut out, f.version, &f.v1);
    {
        let mut edges = vec![out.len()];
        let mut marks: Vec<(String, usize)> = vec![];
        put_body(&mut out, &f.v1, 4, |k, p| {
            edges.push(p);
            marks.push((k.to_string(), p));
        });
        l.edges.extend(edges);
        if decoded_first {
            set_marks(&mut l, &marks, 4);
        }
    }
    if f.version >= 2 {
        l.headers.push(out.len());
        put_header(&mut out, f.version, &f.v2);
        let mut edges = vec![out.len()];
        let mut marks: Vec<(String, usize)> = vec![];
        put_body(&mut out, &f.v2, 8, |k, p| {
            edges.push(p);
            marks.push((k.to_string(), p));
        });
        l.edges.extend(edges);
        set_marks(&mut l, &marks, 8);
        l.footer_off = Some(out.len());
        out.push(b'\n');
        out.extend_from_slice(&f.footer);
        out.push(b'\n');
        l.edges.push(out.len());
    }
    l.edges.sort();
    l.edges.dedup();
    (out, l)
}
fn set_marks(l: &mut Layout, marks: &[(String, usize)], ts: usize) {
    l.time_size = ts;
    for (k, p) in marks {
        match k.as_str() {
            "times" => l.times_off = *p,
            "ttypes" => l.ttypes_off = *p,
            "types" => l.types_off = *p,
            "names" => l.names_off = *p,
            "leaps" => l.leaps_off = *p,
            "std" => l.std_off = *p,
            "ut" => l.ut_off = *p,
            _ => {}
        }
    }
}
fn block_token(b: &Block) -> String {
    let mut v: Vec<String> = vec![b.trans.len().to_string()];
    for (t, i) in &b.trans {
        v.push(t.to_string());
        v.push(i.to_string());
    }
    v.push(b.types.len().to_string());
    for t in &b.types {
        v.push(t.off.to_string());
        v.push((t.dst as u8).to_string());
        v.push(t.abbr.to_string());
    }
    v.push(b.names.len().to_string());
    v.extend(b.names.iter().map(|x| x.to_string()));
    v.push(b.leaps.len().to_string());
    for (t, c) in &b.leaps {
        v.push(t.to_string());
        v.push(c.to_string());
    }
    v.push(b.std_walls.len().to_string());
    v.extend(b.std_walls.iter().map(|x| x.to_string()));
    v.push(b.ut_locals.len().to_string());
    v.extend(b.ut_locals.iter().map(|x| x.to_string()));
    v.join(",")
}
fn name_at(names: &[u8], at: usize) -> String {
    let tail = &names[at..];
    let n = tail.iter().position(|&c| c == 0).unwrap_or(tail.len());
    if n == 0 {
        "-".to_string()
    } else {
        String::from_utf8_lossy(&tail[..n]).into_owned()
    }
}
/// the dump the property demands for a written file (everything but the rule part)
fn expected_prefix(b: &Block, ts: usize) -> String {
    let types: Vec<String> =
        b.types.iter().map(|t| format!("{},{},{}", t.off, t.dst as u8, name_at(&b.names, t.abbr))).collect();
    let trans: Vec<String> = b
        .trans
        .iter()
        .map(|(t, i)| format!("{}:{}", if ts == 4 { *t as i32 as i64 } else { *t }, i))
        .collect();
    let leaps: Vec<String> =
        b.leaps.iter().map(|(t, c)| format!("{}:{}", if ts == 4 { *t as i32 as i64 } else { *t }, c)).collect();
    format!("types=[{}] trans=[{}] leaps=[{}]", types.join(";"), trans.join(","), leaps.join(","))
}

// ------------------------------------------------------------------------------------- rule model
#[derive(Clone, Debug, PartialEq)]
enum Day {
    J1(u32),
    J0(u32),
    M(u32, u32, u32),
}
#[derive(Clone, Debug)]
struct Hms {
    neg: bool,
    h: u32,
    m: u32,
    s: u32,
}
impl Hms {
    fn secs(&self) -> i64 {
        let v = self.h as i64 * 3600 + self.m as i64 * 60 + self.s as i64;
        if self.neg {
            -v
        } else {
            v
        }
    }
}
#[derive(Clone, Debug)]
struct DstM {
    name: Vec<u8>,
    off: Option<Hms>,
    start: Day,
    start_time: Option<Hms>,
    end: Day,
    end_time: Option<Hms>,
}
#[derive(Clone, Debug)]
struct RuleM {
    std_name: Vec<u8>,
    std_off: Hms,
    dst: Option<DstM>,
}
fn day_text(d: &Day) -> String {
    match d {
        Day::J1(n) => format!("J{}", n),
        Day::J0(n) => format!("{}", n),
        Day::M(m, w, d) => format!("M{}.{}.{}", m, w, d),
    }
}
fn name_text(n: &[u8]) -> Vec<u8> {
    if n.iter().all(|c| c.is_ascii_alphabetic()) {
        n.to_vec()
    } else {
        let mut v = vec![b'<'];
        v.extend_from_slice(n);
        v.push(b'>');
        v
    }
}
/// style 0 = canonical (`[-]h[:mm[:ss]]` with the shortest form), other styles pad / add `+`
fn hms_text(t: &Hms, style: u64) -> String {
    let sign = if t.neg {
        "-"
    } else if style & 1 == 1 {
        "+"
    } else {
        ""
    };
    let h = if style & 2 == 2 { format!("{:02}", t.h) } else { format!("{}", t.h) };
    let full = style & 4 == 4;
    let pad = style & 8 == 8;
    let f = |x: u32| if pad { format!("{:02}", x) } else { format!("{}", x) };
    if t.s != 0 || (full && style & 16 == 16) {
        format!("{}{}:{}:{}", sign, h, f(t.m), f(t.s))
    } else if t.m != 0 || full {
        format!("{}{}:{}", sign, h, f(t.m))
    } else {
        format!("{}{}", sign, h)
    }
}
fn render_rule(r: &RuleM, mut style: impl FnMut() -> u64) -> Vec<u8> {
    let mut v = name_text(&r.std_name);
    v.extend_from_slice(hms_text(&r.std_off, style()).as_bytes());
    if let Some(d) = &r.dst {
        v.extend_from_slice(&name_text(&d.name));
        if let Some(o) = &d.off {
            v.extend_from_slice(hms_text(o, style()).as_bytes());
        }
        for (day, time) in [(&d.start, &d.start_time), (&d.end, &d.end_time)] {
            v.push(b',');
            v.extend_from_slice(day_text(day).as_bytes());
            if let Some(t) = time {
                v.push(b'/');
                v.extend_from_slice(hms_text(t, style() & !1).as_bytes());
            }
        }
    }
    v
}
fn ltt_text(off: i64, dst: bool, name: &[u8]) -> String {
    format!("{},{},{}", off, dst as u8, String::from_utf8_lossy(name))
}
/// the offsets (east of Greenwich, seconds) a rule states, the DST one possibly defaulted
fn rule_offsets(r: &RuleM) -> Vec<i64> {
    let std_ut = -r.std_off.secs();
    let mut v = vec![std_ut];
    if let Some(d) = &r.dst {
        v.push(match &d.off {
            Some(o) => -o.secs(),
            None => std_ut + 3600,
        });
    }
    v
}
/// F32: every stated offset strictly within 24 hours of UTC
fn rule_within_24h(r: &RuleM) -> bool {
    rule_offsets(r).iter().all(|o| -86400 < *o && *o < 86400)
}
/// the rule the property says a rendered string denotes
fn expected_rule(r: &RuleM) -> String {
    let std_ut = -r.std_off.secs();
    match &r.dst {
        None => format!("fixed({})", ltt_text(std_ut, false, &r.std_name)),
        Some(d) => {
            let dst_ut = match &d.off {
                Some(o) => -o.secs(),
                None => std_ut + 3600,
            };
            let st = d.start_time.as_ref().map(|t| t.secs()).unwrap_or(7200);
            let et = d.end_time.as_ref().map(|t| t.secs()).unwrap_or(7200);
            format!(
                "alt(std=({}),dst=({}),start={}/{},end={}/{})",
                ltt_text(std_ut, false, &r.std_name),
                ltt_text(dst_ut, true, &d.name),
                day_text(&d.start),
                st,
                day_text(&d.end),
                et
            )
        }
    }
}
fn uses_ext(r: &RuleM) -> bool {
    match &r.dst {
        None => false,
        Some(d) => [&d.start_time, &d.end_time].iter().any(|t| match t {
            Some(t) => t.neg || t.h > 24,
            None => false,
        }),
    }
}

// -------------------------------------------------------------------------------------- generators
const NAME_CHARS: &[u8] = b"ABCDEFGHIJKLMNOPQRSTUVWXYZabcdefghijklmnopqrstuvwxyz0123456789+-";
fn gen_name(c: &mut Ctx, alpha_only: bool) -> Vec<u8> {
    let len = *c.rng.pick(&[3usize, 3, 4, 4, 5, 6, 7]);
    (0..len)
        .map(|_| {
            if alpha_only {
                NAME_CHARS[c.rng.below(52) as usize]
            } else {
                NAME_CHARS[c.rng.below(NAME_CHARS.len() as u64) as usize]
            }
        })
        .collect()
}
fn gen_hms(c: &mut Ctx, hmax: u32, allow_neg: bool) -> Hms {
    let h = match c.rng.below(4) {
        0 => *c.rng.pick(&[0, 1, hmax, hmax.saturating_sub(1), 12, 23, 24.min(hmax)]),
        _ => c.rng.below(hmax as u64 + 1) as u32,
    };
    let (m, s) = match c.rng.below(4) {
        0 => (0, 0),
        1 => (*c.rng.pick(&[0u32, 1, 30, 59]), 0),
        2 => (*c.rng.pick(&[0u32, 1, 30, 59]), *c.rng.pick(&[0u32, 1, 30, 59])),
        _ => (c.rng.below(60) as u32, c.rng.below(60) as u32),
    };
    Hms { neg: allow_neg && c.rng.chance(1, 3), h, m, s }
}
fn gen_day(c: &mut Ctx) -> Day {
    match c.rng.below(3) {
        0 => Day::J1(*c.rng.pick(&[1u32, 2, 59, 60, 61, 364, 365, 100, 200])),
        1 => Day::J0(*c.rng.pick(&[0u32, 1, 58, 59, 60, 364, 365, 150])),
        _ => Day::M(1 + c.rng.below(12) as u32, 1 + c.rng.below(5) as u32, c.rng.below(7) as u32),
    }
}
fn gen_rule(c: &mut Ctx, ext: bool) -> RuleM {
    let alpha = c.rng.chance(1, 2);
    let std_name = gen_name(c, alpha);
    let std_off = gen_hms(c, 24, true);
    let dst = if c.rng.chance(3, 4) {
        let tmax = if ext { 167 } else { 24 };
        let alpha = c.rng.chance(1, 2);
        Some(DstM {
            name: gen_name(c, alpha),
            off: if c.rng.chance(1, 2) { Some(gen_hms(c, 24, true)) } else { None },
            start: gen_day(c),
            start_time: if c.rng.chance(2, 3) { Some(gen_hms(c, tmax, ext)) } else { None },
            end: gen_day(c),
            end_time: if c.rng.chance(2, 3) { Some(gen_hms(c, tmax, ext)) } else { None },
        })
    } else {
        None
    };
    RuleM { std_name, std_off, dst }
}

fn gen_off(c: &mut Ctx) -> i32 {
    match c.rng.below(10) {
        0 => *c.rng.pick(&[i32::MAX, i32::MIN + 1, 0, 1, -1, 86400, -86400, 93599, -93599]),
        1 => c.rng.range(i32::MIN as i64 + 1, i32::MAX as i64) as i32,
        _ => c.rng.range(-26 * 3600, 26 * 3600) as i32,
    }
}
/// a names block (designations separated and terminated by NUL) and the legal start indices
fn gen_names(c: &mut Ctx, forced: &[Vec<u8>]) -> (Vec<u8>, Vec<usize>, Vec<usize>) {
    let mut names = vec![];
    let mut starts = vec![];
    let mut main = vec![];
    let n = 1 + c.rng.below(4) as usize;
    let mut all: Vec<Vec<u8>> = forced.to_vec();
    for _ in 0..n {
        all.push(gen_name(c, false));
    }
    for nm in all {
        starts.push(names.len());
        main.push(names.len());
        // a suffix of a designation is a designation too, as long as it keeps 3 characters
        for k in 1..nm.len().saturating_sub(2) {
            if c.rng.chance(1, 4) {
                starts.push(names.len() + k);
            }
        }
        names.extend_from_slice(&nm);
        names.push(0);
    }
    (names, starts, main)
}
/// a random well-formed data block; `ts` = 4 restricts times to i32
fn gen_block(c: &mut Ctx, ts: usize, forced_types: &[(i32, bool, Vec<u8>)], big: bool) -> Block {
    let forced_names: Vec<Vec<u8>> = forced_types.iter().map(|t| t.2.clone()).collect();
    let (names, starts, main) = gen_names(c, &forced_names);
    let mut types = vec![];
    for (i, (off, dst, _)) in forced_types.iter().enumerate() {
        types.push(Ty { off: *off, dst: *dst, abbr: main[i] });
    }
    let extra = if forced_types.is_empty() { 1 + c.rng.below(5) as usize } else { c.rng.below(4) as usize };
    for _ in 0..extra {
        let abbr = if c.rng.chance(1, 12) { names.len() - 1 } else { *c.rng.pick(&starts) };
        types.push(Ty { off: gen_off(c), dst: c.rng.chance(1, 2), abbr });
    }
    let (lo, hi) = if ts == 4 { (i32::MIN as i64, i32::MAX as i64) } else { (i64::MIN, i64::MAX) };
    let nt = if big { 50 + c.rng.below(200) as usize } else { *c.rng.pick(&[0usize, 0, 1, 2, 3, 5, 8, 12]) };
    let mut trans: Vec<(i64, u8)> = vec![];
    let mut t: i128 = match c.rng.below(5) {
        0 => lo as i128,
        1 => (hi as i128) - (nt as i128) * 3,
        2 => c.rng.range(lo, hi) as i128,
        _ => c.rng.range(-4_000_000_000, 2_000_000_000).max(lo).min(hi) as i128,
    };
    for _ in 0..nt {
        if t > hi as i128 {
            break;
        }
        trans.push((t as i64, c.rng.below(types.len() as u64) as u8));
        let step: i128 = match c.rng.below(4) {
            0 => 1,
            1 => c.rng.range(1, 100_000) as i128,
            2 => c.rng.range(1, 40_000_000) as i128,
            _ => (c.rng.log_i64().unsigned_abs() as i128).max(1),
        };
        t += step;
    }
    let mut leaps = vec![];
    if c.rng.chance(1, 6) {
        let n = 1 + c.rng.below(3);
        let mut lt: i64 = c.rng.range(0, 1_000_000_000);
        let mut corr: i32 = if c.rng.chance(1, 2) { 1 } else { -1 };
        for _ in 0..n {
            leaps.push((lt, corr));
            lt += *c.rng.pick(&[2419199i64, 2419200, 15_552_000, 31_536_000]);
            corr += if c.rng.chance(1, 2) { 1 } else { -1 };
        }
        if ts == 4 {
            leaps.retain(|(t, _)| *t <= i32::MAX as i64);
        }
    }
    let pairs: [(u8, u8); 3] = [(0, 0), (1, 0), (1, 1)];
    let (mut sw, mut ul) = (vec![], vec![]);
    for _ in 0..types.len() {
        let p = c.rng.pick(&pairs);
        sw.push(p.0);
        ul.push(p.1);
    }
    match c.rng.below(4) {
        0 => {
            sw.clear();
            ul.clear();
        }
        1 => {
            // UT/local set requires standard/wall set: dropping std needs ut = 0 everywhere
            ul.clear();
        }
        2 => {
            sw.clear();
            // with no standard/wall indicators every pair is (0, x): x must be 0
            for x in ul.iter_mut() {
                *x = 0;
            }
        }
        _ => {}
    }
    Block { trans, types, names, leaps, std_walls: sw, ut_locals: ul }
}

// ------------------------------------------------------------------------------------- the probes
fn local_of(t: i64, off: i64) -> Option<NaiveDateTime> {
    DateTime::from_timestamp(t.checked_add(off)?, 0).map(|d| d.naive_utc())
}
/// offsets of the local time types in a canonical dump (`types=[off,dst,name;…]`)
fn dump_offsets(d: &str) -> Vec<i64> {
    let a = match d.find("types=[") {
        Some(a) => a + 7,
        None => return vec![],
    };
    let b = d[a..].find(']').map(|b| a + b).unwrap_or(a);
    d[a..b].split(';').filter_map(|p| p.split(',').next().and_then(|t| t.parse().ok())).collect()
}
fn show_at(r: &Result<Result<(i32, bool), String>, ()>) -> String {
    match r {
        Ok(Ok((o, d))) => format!("o{}:{}", o, *d as u8),
        Ok(Err(_)) => "err".to_string(),
        Err(()) => "panic".to_string(),
    }
}
fn show_loc(r: &Result<Result<MappedLocalTime<i32>, String>, ()>) -> String {
    match r {
        Ok(Ok(MappedLocalTime::Single(o))) => format!("s{}", o),
        Ok(Ok(MappedLocalTime::Ambiguous(a, b))) => format!("a{}/{}", a, b),
        Ok(Ok(MappedLocalTime::None)) => "n".to_string(),
        Ok(Err(_)) => "err".to_string(),
        Err(()) => "panic".to_string(),
    }
}
/// the property's last sentence: an accepted zone answers every query without panicking.
/// Direct oracle (a panic fails the property) AND correspondence: the three-valued lookup models
/// (`tzp.at` / `tzp.loc`, proved never to panic on accepted zones and equal to C05's models) must give
/// the same answer — value, `err` or `panic` — at the extremes of `i64` / `NaiveDateTime` and around
/// every transition (all of them up to 24 (quick) / 200 (thorough) per zone, else the first and last 8 and a sample).
/// timestamps of `NaiveDateTime::MIN` / `MAX` (the representable instants)
const NDT_MIN_TS: i64 = -8334601228800;
const NDT_MAX_TS: i64 = 8210266876799;
fn probe(c: &mut Ctx, z: &vt::Zone, times: &[i64], label: &str, bytes: &[u8]) {
    let dump = z.dump();
    let mut instants: Vec<i64> = vec![
        i64::MIN,
        i64::MIN + 1,
        i64::MIN + 951868800,
        i64::MIN + 951868799,
        -67768100567971200,
        -67768040609740800 - 1,
        67767976233532799,
        67768036191676799 + 1,
        i32::MIN as i64,
        -1,
        0,
        1,
        951868800,
        i32::MAX as i64,
        i64::MAX - 1,
        i64::MAX,
        -8334601228800,
        8210266876799,
    ];
    // the transitions to surround: all of them (thorough, or few), else first/last 8 and a sample
    let cap = c.n(24, 200);
    let mut picks: Vec<i64> = vec![];
    if times.len() <= cap {
        picks.extend_from_slice(times);
    } else {
        picks.extend_from_slice(&times[..8]);
        picks.extend_from_slice(&times[times.len() - 8..]);
        for _ in 0..cap - 16 {
            picks.push(*c.rng.pick(times));
        }
    }
    for t in &picks {
        for d in [-1i64, 0, 1] {
            instants.push(t.saturating_add(d));
        }
    }
    instants.sort_unstable();
    instants.dedup();
    for chunk in instants.chunks(1000) {
        let res: Vec<_> = chunk.iter().map(|&t| guard(|| z.offset_at(t))).collect();
        c.op(
            &format!("tzp.at {} {}", dump, chunk.iter().map(|t| t.to_string()).collect::<Vec<_>>().join(",")),
            &res.iter().map(show_at).collect::<Vec<_>>().join(","),
        );
        for (t, r) in chunk.iter().zip(&res) {
            match r {
                Ok(Ok(_)) => c.count("lookup.instant:ok"),
                // the property: an accepted zone ANSWERS for every representable instant — inside the
                // range of NaiveDateTime an `Err` is a failure (it is the `.expect` of Cache::offset;
                // theorem local_offset_total); outside it (i64 extremes) an `Err` is legitimate
                Ok(Err(e)) if (NDT_MIN_TS..=NDT_MAX_TS).contains(t) => {
                    c.count("lookup.instant:ERR-in-range");
                    c.fail("offset lookup by instant failed on an accepted zone for a representable instant", &format!("{} t={} err={} file={}", label, t, e, hex(bytes)));
                }
                Ok(Err(_)) => c.count("lookup.instant:err-outside-naive-range"),
                Err(()) => {
                    c.count("lookup.instant:PANIC");
                    c.fail("offset lookup by instant panicked on an accepted zone", &format!("{} t={} file={}", label, t, hex(bytes)));
                }
            }
        }
    }
    let mut locals: Vec<NaiveDateTime> = vec![
        NaiveDateTime::MIN,
        NaiveDateTime::MAX,
        DateTime::UNIX_EPOCH.naive_utc(),
        NaiveDateTime::MIN + chrono::TimeDelta::seconds(1),
        NaiveDateTime::MAX - chrono::TimeDelta::seconds(1),
    ];
    // wall-clock values at both ends of every window `transition + offset` (each type's offset), ±1 s
    let mut offs = dump_offsets(&dump);
    offs.sort_unstable();
    offs.dedup();
    if offs.len() > 4 {
        let keep: Vec<i64> = (0..4).map(|_| *c.rng.pick(&offs)).collect();
        offs = keep;
    }
    for o in [0i64, 93599] {
        offs.push(o);
    }
    offs.sort_unstable();
    offs.dedup();
    for t in &picks {
        for off in &offs {
            for d in [-1i64, 0, 1] {
                if let Some(l) = off.checked_add(d).and_then(|o| local_of(*t, o)) {
                    locals.push(l);
                }
            }
        }
    }
    locals.sort_unstable();
    locals.dedup();
    for chunk in locals.chunks(1000) {
        let res: Vec<_> = chunk.iter().map(|&l| guard(|| z.offsets_for_local(l))).collect();
        c.op(
            &format!(
                "tzp.loc {} {}",
                dump,
                chunk.iter().map(|l| format!("{}:{}", l.and_utc().timestamp(), l.year())).collect::<Vec<_>>().join(",")
            ),
            &res.iter().map(show_loc).collect::<Vec<_>>().join(","),
        );
        for (l, r) in chunk.iter().zip(&res) {
            match r {
                Ok(Ok(_)) => c.count("lookup.local:ok"),
                // every NaiveDateTime is a representable wall-clock time: the lookup must answer
                // (None / Single / Ambiguous), never `Err` (theorem lookup_local_total: always Ok)
                Ok(Err(e)) => {
                    c.count("lookup.local:ERR");
                    c.fail("offset lookup by wall clock failed on an accepted zone", &format!("{} local={:?} err={} file={}", label, l, e, hex(bytes)));
                }
                Err(()) => {
                    c.count("lookup.local:PANIC");
                    c.fail("offset lookup by wall clock panicked on an accepted zone", &format!("{} local={:?} file={}", label, l, hex(bytes)));
                }
            }
        }
    }
}

/// header-plus-data length the six counts of the header at the start of `b` announce (`ts`-byte times)
fn announced(b: &[u8], ts: u128) -> u128 {
    let cnt = |k: usize| -> u128 { b.iter().skip(20 + 4 * k).take(4).fold(0u128, |a, x| a * 256 + *x as u128) };
    44 + cnt(3) * ts + cnt(3) + cnt(4) * 6 + cnt(5) + cnt(2) * (ts + 4) + cnt(1) + cnt(0)
}
/// counts that disagree with the data: an ACCEPTED file must have exactly the layout its header
/// counts announce (v1: nothing else; v2+: second announced block, then a newline-framed footer);
/// the specification's `announcedLen` / `footerOf` must say the same (`tzp.layout`)
fn layout_oracle(c: &mut Ctx, bytes: &[u8], label: &str) {
    let len = bytes.len() as u128;
    let a4 = announced(bytes, 4);
    if bytes[4] == 0 {
        if len != a4 {
            c.fail("accepted v1 file whose length differs from what its counts announce", &format!("{} announced={} file={}", label, a4, hex(bytes)));
        }
        c.op(&format!("tzp.layout {}", hex(bytes)), &format!("{} - 0", a4));
        caps_op(c, bytes, bytes);
        return;
    }
    if a4 > len {
        c.fail("accepted file shorter than its first announced block", &format!("{} announced={} file={}", label, a4, hex(bytes)));
        return;
    }
    let a8 = announced(&bytes[a4 as usize..], 8);
    if a4 + a8 >= len || bytes[(a4 + a8) as usize] != b'\n' || bytes[bytes.len() - 1] != b'\n' {
        c.fail("accepted v2+ file without the announced blocks followed by a newline-framed footer", &format!("{} announced={}+{} file={}", label, a4, a8, hex(bytes)));
        return;
    }
    c.op(&format!("tzp.layout {}", hex(bytes)), &format!("{} {} {}", a4, a8, len - a4 - a8));
    caps_op(c, bytes, &bytes[a4 as usize..]);
}
/// the `Vec::with_capacity` requests the model logs (element counts) are the counts of the header
/// of the block that is decoded (`hdr` starts at that header)
/// Direct oracles on every ACCEPTED file (round 3; findings F35 / F36, both repaired in the crate —
/// the oracles stay as plain failures):
/// (1) "bad version" / "inconsistent data": the version field of the second header must equal the
/// first header's (RFC 8536 §3.1); the reader compares neither and decodes with the second one — a
/// second header saying version 1 makes it take the HIGH four bytes of every 8-byte time;
/// (2) "truncated data" / "malformed footer": a footer is NL TZ-string NL (RFC 8536 §3.3), at least
/// two bytes; the reader accepts the single byte "\n", i.e. a file cut right after its footer's
/// first newline, and drops the rule.
fn versions_oracle(c: &mut Ctx, bytes: &[u8], label: &str, dump: &str) {
    if bytes.len() < 5 || bytes[4] == 0 {
        return;
    }
    let a4 = announced(bytes, 4);
    if a4 + 44 > bytes.len() as u128 {
        return;
    }
    let a4 = a4 as usize;
    let name = |b: u8| match b {
        0 => "v1".to_string(),
        b'2' => "v2".to_string(),
        b'3' => "v3".to_string(),
        x => format!("0x{:02x}", x),
    };
    let (v1, v2) = (bytes[4], bytes[a4 + 4]);
    if v1 != v2 {
        c.count(&format!("accepted.versions:{}/{}", name(v1), name(v2)));
        c.fail(
            &format!("inconsistent header versions accepted: first={} second={}", name(v1), name(v2)),
            &format!("{} file={} dump={}", label, hex(bytes), dump),
        );
    }
    let a8 = announced(&bytes[a4..], 8);
    if a4 as u128 + a8 + 1 == bytes.len() as u128 && bytes[bytes.len() - 1] == b'\n' {
        c.count("accepted.footer:single-newline");
        c.fail(
            "truncated footer accepted: the footer is the single byte \\n (file cut right after the footer's first newline)",
            &format!("{} len={} file={} dump={}", label, bytes.len(), hex(bytes), dump),
        );
    }
}

fn caps_op(c: &mut Ctx, bytes: &[u8], hdr: &[u8]) {
    let cnt = |k: usize| be32(&hdr[20 + 4 * k..]);
    c.op(&format!("tzp.caps {}", hex(bytes)), &format!("{} {} {}", cnt(3), cnt(4), cnt(2)));
}

/// run the reader on `bytes`: emits the correspondence op, guards against panics, probes accepted
/// zones; returns the dump if accepted
fn read_tzif(c: &mut Ctx, bytes: &[u8], label: &str, times: &[i64]) -> Option<String> {
    let (r, total, max_req) = alloc_probe::measure(|| guard(|| vt::from_tzif(bytes)));
    // "no allocation beyond the input size": the three vectors of 16-byte elements may together ask
    // for up to 16/5 of the input (parse_allocs_bounded_bytes) and nothing else allocates on the Ok
    // path; on the Err path the hook additionally formats the error value (a short text)
    let slack: u128 = if matches!(r, Ok(Ok(_))) { 0 } else { 5 * 1024 };
    if 5 * (total as u128) > 16 * (bytes.len() as u128) + slack {
        c.fail("TZif reader allocated beyond 3.2 x the input size", &format!("{} total={} largest={} len={} file={}", label, total, max_req, bytes.len(), hex(&bytes[..bytes.len().min(200)])));
    }
    c.count(if total == 0 {
        "alloc:none"
    } else if 5 * total <= 16 * bytes.len() {
        "alloc:within-3.2x-input"
    } else {
        "alloc:error-text-only-excess"
    });
    match r {
        Err(()) => {
            c.count(&format!("{}:PANIC", label));
            c.op(&format!("tzp.tzif {}", hex(bytes)), "panic");
            c.fail("TZif reader panicked", &format!("{} file={}", label, hex(bytes)));
            None
        }
        Ok(Err(_)) => {
            c.count(&format!("{}:err", label));
            c.op(&format!("tzp.tzif {}", hex(bytes)), "err");
            None
        }
        Ok(Ok(z)) => {
            c.count(&format!("{}:ok", label));
            let d = z.dump();
            c.op(&format!("tzp.tzif {}", hex(bytes)), &d);
            layout_oracle(c, bytes, label);
            versions_oracle(c, bytes, label, &d);
            let own: Vec<i64>;
            let ts = if times.is_empty() {
                own = dump_times(&d);
                &own[..]
            } else {
                times
            };
            probe(c, &z, ts, label, bytes);
            Some(d)
        }
    }
}
fn dump_times(d: &str) -> Vec<i64> {
    let a = match d.find("trans=[") {
        Some(a) => a + 7,
        None => return vec![],
    };
    let b = d[a..].find(']').map(|b| a + b).unwrap_or(a);
    d[a..b].split(',').filter_map(|p| p.split(':').next().and_then(|t| t.parse().ok())).collect()
}
fn read_rule(c: &mut Ctx, s: &[u8], ext: bool, label: &str) -> Option<String> {
    let line = format!("tzp.rule {} {}", hex(s), b01(ext));
    match guard(|| vt::rule_from_tz_string(s, ext)) {
        Err(()) => {
            c.count(&format!("{}:PANIC", label));
            c.op(&line, "panic");
            c.fail("TZ rule reader panicked", &format!("{} ext={} text={:?}", label, ext, String::from_utf8_lossy(s)));
            None
        }
        Ok(Err(_)) => {
            c.count(&format!("{}:err", label));
            c.op(&line, "err");
            None
        }
        Ok(Ok(d)) => {
            c.count(&format!("{}:ok", label));
            c.op(&line, &d);
            Some(d)
        }
    }
}
fn must_reject(c: &mut Ctx, got: &Option<String>, what: &str, bytes: &[u8]) {
    if let Some(d) = got {
        c.fail(&format!("malformed TZif data accepted: {}", what), &format!("file={} dump={}", hex(bytes), d));
    }
}

// ---------------------------------------------------------------------- independent TZif decoder
struct RefFile {
    version: u8,
    prefix: String,
    footer: Option<Vec<u8>>,
    layout: Layout,
}
fn be32(b: &[u8]) -> u32 {
    u32::from_be_bytes([b[0], b[1], b[2], b[3]])
}
/// plain RFC 8536 decoding of a well-formed file (no validation beyond sizes); shares nothing with chrono
fn ref_decode(bytes: &[u8]) -> Option<RefFile> {
    let mut pos = 0usize;
    let mut layout = Layout::default();
    let mut result = None;
    let mut version = 0u8;
    for pass in 0..2 {
        if bytes.len() < pos + 44 || &bytes[pos..pos + 4] != b"TZif" {
            return None;
        }
        layout.headers.push(pos);
        let v = match bytes[pos + 4] {
            0 => 1,
            b'2' => 2,
            b'3' => 3,
            b'4' => 4,
            _ => return None,
        };
        if pass == 0 {
            version = v;
        }
        let cnt: Vec<usize> = (0..6).map(|i| be32(&bytes[pos + 20 + 4 * i..]) as usize).collect();
        let (isut, isstd, leap, time, typ, chr) = (cnt[0], cnt[1], cnt[2], cnt[3], cnt[4], cnt[5]);
        let ts = if pass == 0 { 4 } else { 8 };
        let mut p = pos + 44;
        layout.edges.push(p);
        let times_off = p;
        p += time * ts;
        let ttypes_off = p;
        p += time;
        let types_off = p;
        p += typ * 6;
        let names_off = p;
        p += chr;
        let leaps_off = p;
        p += leap * (ts + 4);
        let std_off = p;
        p += isstd;
        let ut_off = p;
        p += isut;
        if p > bytes.len() {
            return None;
        }
        layout.edges.extend([ttypes_off, types_off, names_off, leaps_off, std_off, ut_off, p]);
        let decode_this = (version == 1 && pass == 0) || (version >= 2 && pass == 1);
        if decode_this {
            layout.time_size = ts;
            layout.times_off = times_off;
            layout.ttypes_off = ttypes_off;
            layout.types_off = types_off;
            layout.names_off = names_off;
            layout.leaps_off = leaps_off;
            layout.std_off = std_off;
            layout.ut_off = ut_off;
            let rd = |o: usize| -> i64 {
                if ts == 4 {
                    be32(&bytes[o..]) as i32 as i64
                } else {
                    i64::from_be_bytes(bytes[o..o + 8].try_into().unwrap())
                }
            };
            let names = &bytes[names_off..names_off + chr];
            let mut types = vec![];
            for i in 0..typ {
                let r = &bytes[types_off + 6 * i..];
                let abbr = r[5] as usize;
                if abbr >= chr {
                    return None;
                }
                types.push(format!("{},{},{}", be32(r) as i32, r[4], name_at(names, abbr)));
            }
            let trans: Vec<String> =
                (0..time).map(|i| format!("{}:{}", rd(times_off + ts * i), bytes[ttypes_off + i])).collect();
            let leaps: Vec<String> = (0..leap)
                .map(|i| {
                    let o = leaps_off + (ts + 4) * i;
                    format!("{}:{}", rd(o), be32(&bytes[o + ts..]) as i32)
                })
                .collect();
            result = Some(format!("types=[{}] trans=[{}] leaps=[{}]", types.join(";"), trans.join(","), leaps.join(",")));
        }
        pos = p;
        if version == 1 {
            break;
        }
    }
    let footer = if version >= 2 {
        layout.footer_off = Some(pos);
        let f = &bytes[pos..];
        if f.len() < 2 || f[0] != b'\n' || f[f.len() - 1] != b'\n' {
            return None;
        }
        layout.edges.push(bytes.len());
        Some(f[1..f.len() - 1].to_vec())
    } else {
        if pos != bytes.len() {
            return None;
        }
        None
    };
    layout.edges.sort();
    layout.edges.dedup();
    Some(RefFile { version, prefix: result?, footer, layout })
}

// --------------------------------------------------------------------------- structured mutations
fn set32(b: &mut [u8], at: usize, v: u32) {
    b[at..at + 4].copy_from_slice(&v.to_be_bytes());
}
/// every mutation: (label, bytes, must be rejected?)
fn mutations(c: &mut Ctx, base: &[u8], l: &Layout, ext_footer: bool) -> Vec<(String, Vec<u8>, bool)> {
    let mut out: Vec<(String, Vec<u8>, bool)> = vec![];
    let field_names = ["isutcnt", "isstdcnt", "leapcnt", "timecnt", "typecnt", "charcnt"];
    // header counts: 0, 1, ±1, 2^31, u32::MAX
    for (hi, &h) in l.headers.iter().enumerate() {
        for (fi, fname) in field_names.iter().enumerate() {
            let at = h + 20 + 4 * fi;
            let orig = be32(&base[at..]);
            for v in [0u32, 1, orig.wrapping_sub(1), orig.wrapping_add(1), 0x8000_0000, u32::MAX, 0x2000_0000] {
                if v == orig {
                    continue;
                }
                let mut b = base.to_vec();
                set32(&mut b, at, v);
                // growing a count of a well-formed file beyond the data must be rejected
                let must = v > orig && (v - orig) as usize > base.len();
                out.push((format!("mut.count.h{}.{}", hi, fname), b, must));
            }
        }
        // magic and version
        for k in 0..4 {
            let mut b = base.to_vec();
            b[h + k] ^= *c.rng.pick(&[0x01u8, 0x20, 0x80, 0xff]);
            out.push(("mut.magic".into(), b, true));
        }
        for v in [1u8, b'1', b'4', b'0', 0x80, 0xff, 0x34] {
            let mut b = base.to_vec();
            b[h + 4] = v;
            out.push(("mut.version.bad".into(), b, true));
        }
        for v in [0u8, b'2', b'3'] {
            if base[h + 4] != v {
                let mut b = base.to_vec();
                b[h + 4] = v;
                // F35 (repaired): the base file carries the same version in both headers, so changing
                // either byte to another KNOWN version makes the pair inconsistent (or turns a v1 file
                // into a v2+ file without a second block, or the reverse): always rejected
                let _ = ext_footer;
                out.push(("mut.version.other".into(), b, true));
            }
        }
        // reserved bytes are ignored
        let mut b = base.to_vec();
        b[h + 5 + c.rng.below(15) as usize] = 0xAA;
        out.push(("mut.reserved".into(), b, false));
    }
    // truncation at every block edge, one byte either side, and a few random cuts
    let mut cuts: Vec<usize> = vec![0, 1, 3, 4, 5, 19, 20, 43, 44];
    for &e in &l.edges {
        cuts.extend([e.saturating_sub(1), e, e + 1]);
    }
    for _ in 0..4 {
        cuts.push(c.rng.below(base.len() as u64) as usize);
    }
    cuts.sort();
    cuts.dedup();
    for cut in cuts {
        if cut >= base.len() {
            continue;
        }
        // F36 (repaired): NO proper prefix of a well-formed file is accepted — the cut right after the
        // footer's first newline (a one-byte footer "\n") used to be; it keeps its own label
        let nl_cut = l.footer_off.map(|f| cut == f + 1).unwrap_or(false);
        out.push((if nl_cut { "mut.trunc.emptyfooter".into() } else { "mut.trunc".into() }, base[..cut].to_vec(), true));
    }
    // trailing data
    {
        let mut b = base.to_vec();
        b.push(*c.rng.pick(&[0u8, b'\n', b'A', 0xff]));
        let must = l.footer_off.is_none();
        out.push(("mut.trailing".into(), b, must));
    }
    let ts = l.time_size;
    let ntrans = (l.ttypes_off - l.times_off) / ts;
    let ntypes = (l.names_off - l.types_off) / 6;
    let nchars = l.leaps_off - l.names_off;
    let nleaps = (l.std_off - l.leaps_off) / (ts + 4);
    // unsorted / repeated transitions
    if ntrans >= 2 {
        for _ in 0..3 {
            let i = c.rng.below(ntrans as u64 - 1) as usize;
            let (a, b2) = (l.times_off + ts * i, l.times_off + ts * (i + 1));
            let mut b = base.to_vec();
            let (x, y) = (base[a..a + ts].to_vec(), base[b2..b2 + ts].to_vec());
            b[a..a + ts].copy_from_slice(&y);
            b[b2..b2 + ts].copy_from_slice(&x);
            out.push(("mut.trans.swapped".into(), b, true));
            let mut b = base.to_vec();
            b[b2..b2 + ts].copy_from_slice(&x);
            out.push(("mut.trans.repeated".into(), b, true));
        }
    }
    if ntrans >= 1 {
        // transition type index at the bound, one below, and 255
        for _ in 0..2 {
            let i = c.rng.below(ntrans as u64) as usize;
            for (v, must) in [(ntypes, true), (ntypes - 1, false), (255, true)] {
                if v <= 255 {
                    let mut b = base.to_vec();
                    b[l.ttypes_off + i] = v as u8;
                    out.push((format!("mut.trans.index.{}", if must { "oob" } else { "last" }), b, must && v >= ntypes));
                }
            }
        }
        // extreme transition times (the sorted order is kept: first to MIN, last to MAX)
        let mut b = base.to_vec();
        let first = l.times_off;
        let last = l.times_off + ts * (ntrans - 1);
        if ts == 8 {
            b[last..last + 8].copy_from_slice(&i64::MAX.to_be_bytes());
            out.push(("mut.trans.time.max".into(), b.clone(), false));
            let mut b = base.to_vec();
            b[last..last + 8].copy_from_slice(&(i64::MAX - 5).to_be_bytes());
            out.push(("mut.trans.time.max-5".into(), b, false));
            let mut b = base.to_vec();
            b[first..first + 8].copy_from_slice(&i64::MIN.to_be_bytes());
            out.push(("mut.trans.time.min".into(), b, false));
        } else {
            b[last..last + 4].copy_from_slice(&i32::MAX.to_be_bytes());
            out.push(("mut.trans.time.max".into(), b, false));
            let mut b = base.to_vec();
            b[first..first + 4].copy_from_slice(&i32::MIN.to_be_bytes());
            out.push(("mut.trans.time.min".into(), b, false));
        }
    }
    // local time type records
    for _ in 0..2 {
        let i = c.rng.below(ntypes as u64) as usize;
        let rec = l.types_off + 6 * i;
        for v in [2u8, 0xff, 0x80] {
            let mut b = base.to_vec();
            b[rec + 4] = v;
            out.push(("mut.type.dstflag".into(), b, true));
        }
        let mut b = base.to_vec();
        b[rec + 4] ^= 1;
        out.push(("mut.type.dstflip".into(), b, false));
        for (v, must) in [(nchars, true), (nchars - 1, false), (255usize, true)] {
            if v <= 255 {
                let mut b = base.to_vec();
                b[rec + 5] = v as u8;
                out.push((format!("mut.type.abbr.{}", if must && v >= nchars { "oob" } else { "inb" }), b, must && v >= nchars));
            }
        }
        let mut b = base.to_vec();
        b[rec..rec + 4].copy_from_slice(&i32::MIN.to_be_bytes());
        out.push(("mut.type.offset.min".into(), b, true));
        let mut b = base.to_vec();
        b[rec..rec + 4].copy_from_slice(&i32::MAX.to_be_bytes());
        out.push(("mut.type.offset.max".into(), b, true));
        // F32: the bound is 86400 s exactly, on either side
        for (v, must) in [(86399i32, false), (-86399, false), (86400, true), (-86400, true), (86401, true), (-86401, true), (90000, true), (-93599, true)] {
            let mut b = base.to_vec();
            b[rec..rec + 4].copy_from_slice(&v.to_be_bytes());
            out.push((format!("mut.type.offset.{}", v), b, must));
        }
        // the designation the record points at: illegal character, too short
        let at = base[rec + 5] as usize;
        if at < nchars && base[l.names_off + at] != 0 {
            for v in [b'!', b' ', 0x80, b'_', b'/'] {
                let mut b = base.to_vec();
                b[l.names_off + at] = v;
                out.push(("mut.name.char".into(), b, true));
            }
            let mut b = base.to_vec();
            b[l.names_off + at + 2] = 0;
            out.push(("mut.name.short".into(), b, true));
            let mut b = base.to_vec();
            b[l.names_off + at + 1] = 0;
            out.push(("mut.name.short".into(), b, true));
        }
    }
    // the final NUL of the designations
    {
        let mut b = base.to_vec();
        b[l.names_off + nchars - 1] = b'Z';
        out.push(("mut.name.nonul".into(), b, false));
    }
    // indicators: the forbidden couple (std/wall = 0, UT/local = 1)
    let nstd = l.ut_off - l.std_off;
    let nut = {
        let end = match l.footer_off {
            Some(f) => f,
            None => base.len(),
        };
        end - l.ut_off
    };
    if nut > 0 {
        let i = c.rng.below(nut as u64) as usize;
        let mut b = base.to_vec();
        b[l.ut_off + i] = 1;
        if nstd > 0 {
            b[l.std_off + i] = 0;
        }
        out.push(("mut.indicator.couple".into(), b, true));
        let mut b = base.to_vec();
        b[l.ut_off + i] = 2;
        out.push(("mut.indicator.other".into(), b, false));
    }
    // leap seconds
    if nleaps > 0 {
        let o = l.leaps_off;
        let mut b = base.to_vec();
        b[o + ts..o + ts + 4].copy_from_slice(&2i32.to_be_bytes());
        out.push(("mut.leap.corr".into(), b, true));
        let mut b = base.to_vec();
        b[o + ts..o + ts + 4].copy_from_slice(&i32::MIN.to_be_bytes());
        out.push(("mut.leap.corr".into(), b, true));
        let mut b = base.to_vec();
        b[o + ts..o + ts + 4].copy_from_slice(&0i32.to_be_bytes());
        out.push(("mut.leap.corr".into(), b, true));
        let mut b = base.to_vec();
        if ts == 8 {
            b[o..o + 8].copy_from_slice(&(-1i64).to_be_bytes());
        } else {
            b[o..o + 4].copy_from_slice(&(-1i32).to_be_bytes());
        }
        out.push(("mut.leap.negative".into(), b, true));
        if nleaps > 1 {
            let o2 = o + ts + 4;
            let mut b = base.to_vec();
            let x = base[o..o + ts].to_vec();
            b[o2..o2 + ts].copy_from_slice(&x);
            out.push(("mut.leap.close".into(), b, true));
        }
    }
    // footer framing
    if let Some(f) = l.footer_off {
        let body = &base[f + 1..base.len() - 1];
        let head = &base[..f];
        let mk = |foot: &[u8]| {
            let mut b = head.to_vec();
            b.extend_from_slice(foot);
            b
        };
        let mut v = body.to_vec();
        v.push(b'\n');
        out.push(("mut.footer.nofirstnl".into(), mk(&v), !body.is_empty()));
        let mut v = vec![b'\n'];
        v.extend_from_slice(body);
        out.push(("mut.footer.nolastnl".into(), mk(&v), !body.is_empty()));
        out.push(("mut.footer.absent".into(), mk(b""), true));
        let mut v = vec![b'\n', b':'];
        v.extend_from_slice(body);
        v.push(b'\n');
        out.push(("mut.footer.colon".into(), mk(&v), true));
        for pos in [0, body.len() / 2, body.len()] {
            for bad in [0u8, 0x80, 0xff, 0xc3] {
                let mut v = vec![b'\n'];
                v.extend_from_slice(&body[..pos]);
                v.push(bad);
                v.extend_from_slice(&body[pos..]);
                v.push(b'\n');
                out.push((if bad == 0 { "mut.footer.nul".into() } else { "mut.footer.nonutf8".into() }, mk(&v), true));
            }
        }
        for ws in [&b" "[..], b"\t", b"\r", b"\x0c", b"\n", b"\x0b"] {
            let mut v = vec![b'\n'];
            v.extend_from_slice(ws);
            v.extend_from_slice(body);
            v.extend_from_slice(ws);
            v.push(b'\n');
            out.push(("mut.footer.padded".into(), mk(&v), ws == b"\x0b"));
            let mut v = ws.to_vec();
            v.push(b'\n');
            v.extend_from_slice(body);
            v.push(b'\n');
            out.push(("mut.footer.leadingws".into(), mk(&v), ws != b"\n"));
        }
        out.push(("mut.footer.garbage".into(), mk(b"\nnot a rule\n"), true));
        out.push(("mut.footer.norules".into(), mk(b"\nEST5EDT\n"), true));
    }
    // random byte damage
    for _ in 0..6 {
        let mut b = base.to_vec();
        for _ in 0..1 + c.rng.below(3) {
            let at = c.rng.below(b.len() as u64) as usize;
            b[at] = match c.rng.below(3) {
                0 => c.rng.next() as u8,
                1 => b[at] ^ (1 << c.rng.below(8)),
                _ => *c.rng.pick(&[0u8, 1, 0x7f, 0x80, 0xff]),
            };
        }
        out.push(("mut.random".into(), b, false));
    }
    out
}

fn apply_mutations(c: &mut Ctx, base: &[u8], l: &Layout, ext_footer: bool) {
    for (label, b, must) in mutations(c, base, l, ext_footer) {
        let got = read_tzif(c, &b, &label, &[]);
        if must {
            must_reject(c, &got, &label, &b);
        }
    }
}

fn walk(dir: &std::path::Path, out: &mut Vec<std::path::PathBuf>) {
    if let Ok(rd) = std::fs::read_dir(dir) {
        let mut es: Vec<_> = rd.filter_map(|e| e.ok()).map(|e| e.path()).collect();
        es.sort();
        for p in es {
            if p.is_dir() {
                walk(&p, out);
            } else if p.is_file() {
                out.push(p);
            }
        }
    }
}

// ----------------------------------------------------------------------------------- TZ strings
fn tz_string_stage(c: &mut Ctx) {
    // the crate's own examples and the documented forms first
    for (s, ext) in [
        (&b"EST5EDT,M3.2.0,M11.1.0"[..], false),
        (b"HST10", false),
        (b"<-03>3<-02>,M3.5.0/-2,M10.5.0/-1", true),
        (b"<-03>3<-02>,M3.5.0/-2,M10.5.0/-1", false),
        (b"IST-2IDT,M3.4.4/26,M10.5.0", true),
        (b"IST-2IDT,M3.4.4/26,M10.5.0", false),
        (b"NZST-12:00:00NZDT-13:00:00,M10.1.0/02:00:00,M3.3.0/02:00:00", false),
        (b"UTC0", false),
        (b"", false),
        (b"EST5EDT", false),
        (b"EST5EDT,0/0,J365/25", true),
        (b"EST5EDT,0/0,J365/25", false),
    ] {
        read_rule(c, s, ext, "tz.fixed-example");
    }
    // F32, directed: offsets of exactly 86399 / 86400 / 86401 s (and the far end 24:59:59), either
    // sign, as the standard offset, as a given DST offset and as a defaulted DST offset
    for (s, accept) in [
        (&b"AAA23:59:59"[..], true),
        (b"AAA-23:59:59", true),
        (b"AAA24", false),
        (b"AAA-24", false),
        (b"AAA+24:00:00", false),
        (b"AAA24:00:01", false),
        (b"AAA-24:00:01", false),
        (b"AAA24:59:59", false),
        (b"AAA-24:59:59", false),
        (b"XXX-24:30", false),
        (b"AAA5BBB23:59:59,M3.2.0,M11.1.0", true),
        (b"AAA5BBB-23:59:59,M3.2.0,M11.1.0", true),
        (b"AAA5BBB24,M3.2.0,M11.1.0", false),
        (b"AAA5BBB-24,M3.2.0,M11.1.0", false),
        (b"AAA5BBB24:00:01,M3.2.0,M11.1.0", false),
        (b"AAA5BBB-24:00:01,M3.2.0,M11.1.0", false),
        (b"AAA5BBB-24:59:59,M3.2.0,M11.1.0", false),
        (b"AAA24BBB5,M3.2.0,M11.1.0", false),
        (b"AAA-23:59:59BBB-23:59:59,J1,J365", true),
        (b"AAA-22:59:59BBB,J1,J365", true),
        (b"AAA-23BBB,J1,J365", false),
        (b"AAA-23:00:01BBB,J1,J365", false),
        (b"AAA-23:59:59BBB,J1,J365", false),
        (b"AAA24:59:59BBB,J1,J365", false),
    ] {
        for ext in [false, true] {
            let got = read_rule(c, s, ext, "tz.f32-directed");
            match (&got, accept) {
                (Some(d), false) => c.fail("a TZ string stating a UTC offset of 24 hours or more was accepted (F32)", &format!("text={:?} ext={} got={}", String::from_utf8_lossy(s), ext, d)),
                (None, true) => c.fail("a well-formed POSIX TZ string was rejected", &format!("text={:?} ext={} (offsets below 24 h)", String::from_utf8_lossy(s), ext)),
                _ => {}
            }
        }
    }
    let n = c.n(4000, 60000);
    for i in 0..n {
        let ext = c.rng.chance(1, 2);
        let r = gen_rule(c, ext);
        let mut styles: Vec<u64> = (0..8).map(|_| c.rng.below(32)).collect();
        let text = render_rule(&r, || styles.pop().unwrap_or(0));
        let want = expected_rule(&r);
        let e = if uses_ext(&r) { true } else { c.rng.chance(1, 2) };
        let got = read_rule(c, &text, e, if r.dst.is_some() { "tz.gen.alt" } else { "tz.gen.fixed" });
        // F32 (repaired): the offsets a rule states — given or defaulted — must lie strictly within
        // 24 hours of UTC; the field ranges (hh = 0..24) reach 24:59:59, and such a text is REFUSED
        let within = rule_within_24h(&r);
        match &got {
            Some(d) if !within => c.fail("a TZ string stating a UTC offset of 24 hours or more was accepted (F32)", &format!("text={:?} ext={} got={}", String::from_utf8_lossy(&text), e, d)),
            None if !within => c.count("tz.gen:refused, offset of 24 h or more"),
            Some(d) if *d == want => {}
            Some(d) => c.fail("a POSIX TZ string was read as a different rule", &format!("text={:?} ext={} got={} want={}", String::from_utf8_lossy(&text), e, d, want)),
            None => c.fail("a well-formed POSIX TZ string was rejected", &format!("text={:?} ext={} want={}", String::from_utf8_lossy(&text), e, want)),
        }
        if !within {
            continue;
        }
        if i < 3 {
            c.sample(&format!("TZ string {:?} -> {}", String::from_utf8_lossy(&text), want));
        }
        let writable = match (&r.dst, abs_of(&r).dst) {
            (Some(_), Some((d, ..))) => d.0.abs() <= 89999,
            _ => true,
        };
        if i % 3 == 1 && writable {
            // the canonical text of the abstract rule: the Lean specification's `renderTz` must
            // produce the same bytes, and the reader must give the rule back
            let a = abs_of(&r);
            let text2 = render_abs(&a);
            c.op(&format!("tzp.render {}", abs_token(&a)), &hex(&text2));
            let e2 = uses_ext(&r) || c.rng.chance(1, 2);
            let got = read_rule(c, &text2, e2, "tz.canonical");
            if got.as_deref() != Some(&want[..]) {
                c.fail("the canonical text of a rule does not read back as that rule", &format!("text={:?} ext={} got={:?} want={}", String::from_utf8_lossy(&text2), e2, got, want));
            }
        }
        // the zone `TZ=<text>` selects (`TimeZone::from_posix_tz`: no transitions, the rule's own types):
        // both lookups answer everywhere, and as the three-valued models do
        if i % 4 == 2 && !uses_ext(&r) {
            if let Ok(Ok(z)) = guard(|| vt::from_env_tz(Some(std::str::from_utf8(&text).unwrap()))) {
                let types = match want.strip_prefix("alt(std=(") {
                    Some(rest) => {
                        let a = rest.find("),dst=(").unwrap();
                        let b = rest.find("),start=").unwrap();
                        format!("{};{}", &rest[..a], &rest[a + 7..b])
                    }
                    None => want["fixed(".len()..want.len() - 1].to_string(),
                };
                if z.dump() == format!("types=[{}] trans=[] leaps=[] rule={}", types, want) {
                    c.count("tz.zone:from-rule-text");
                } else {
                    c.count("tz.zone:other (a zoneinfo file of that name)");
                }
                let years: Vec<i64> = vec![-62135596800, -2208988800, 0, 1_000_000_000, 1_700_000_000 + (i as i64) * 86400 * 37, 4_102_444_800, 253_402_300_799];
                probe(c, &z, &years, "tz.zone", &text);
            }
        }
        if uses_ext(&r) {
            // extensions are refused by the plain POSIX reader
            let got = read_rule(c, &text, false, "tz.gen.ext-as-posix");
            if let Some(d) = got {
                c.fail("extended rule time accepted without extensions", &format!("text={:?} got={}", String::from_utf8_lossy(&text), d));
            }
        }
        // out-of-range fields (each must be rejected)
        if i % 3 == 0 {
            for (what, bad) in out_of_range_variants(c, &r, ext) {
                let got = read_rule(c, &bad, ext, &format!("tz.range.{}", what));
                if let Some(d) = got {
                    c.fail("out-of-range TZ string accepted", &format!("{}: text={:?} ext={} got={}", what, String::from_utf8_lossy(&bad), ext, d));
                }
            }
        }
        // single edits (compared with the model only)
        for _ in 0..2 {
            let m = edit(c, &text);
            read_rule(c, &m, e, "tz.edit");
        }
    }
    // malformed stream
    let n = c.n(1500, 20000);
    let alphabet: &[u8] = b"0123456789:,./<>+-MJ AZaz\0\n\x80";
    for _ in 0..n {
        let len = c.rng.below(14) as usize;
        let s: Vec<u8> = (0..len).map(|_| *c.rng.pick(alphabet)).collect();
        let ext = c.rng.chance(1, 2);
        read_rule(c, &s, ext, "tz.random");
    }
    // integer extremes in every numeric position
    for num in ["0", "00000000000000000000001", "255", "256", "65535", "65536", "2147483647", "2147483648", "4294967295", "4294967296", "18446744073709551616", "99999999999999999999999999"] {
        for tmpl in ["ABC#", "ABC1:#", "ABC1:1:#", "ABC1DEF,J#,J1", "ABC1DEF,#,1", "ABC1DEF,M#.1.1,M1.1.1", "ABC1DEF,M1.#.1,M1.1.1", "ABC1DEF,M1.1.#,M1.1.1", "ABC1DEF,1/#,1", "ABC1DEF,1/1:#,1", "ABC1DEF,1/1:1:#,1", "ABC1DEF#,1,1"] {
            let s = tmpl.replace('#', num);
            for ext in [false, true] {
                read_rule(c, s.as_bytes(), ext, "tz.intextreme");
            }
        }
    }
}
struct AbsRule {
    std: (i64, Vec<u8>),
    dst: Option<((i64, Vec<u8>), Day, i64, Day, i64)>,
}
fn abs_of(r: &RuleM) -> AbsRule {
    let std_ut = -r.std_off.secs();
    AbsRule {
        std: (std_ut, r.std_name.clone()),
        dst: r.dst.as_ref().map(|d| {
            let dst_ut = match &d.off {
                Some(o) => -o.secs(),
                None => std_ut + 3600,
            };
            (
                (dst_ut, d.name.clone()),
                d.start.clone(),
                d.start_time.as_ref().map(|t| t.secs()).unwrap_or(7200),
                d.end.clone(),
                d.end_time.as_ref().map(|t| t.secs()).unwrap_or(7200),
            )
        }),
    }
}
/// `[-]h[:m[:s]]`, shortest form
fn hms_canon(v: i64) -> String {
    let a = v.abs();
    let (h, m, s) = (a / 3600, a / 60 % 60, a % 60);
    let sign = if v < 0 { "-" } else { "" };
    if s != 0 {
        format!("{}{}:{}:{}", sign, h, m, s)
    } else if m != 0 {
        format!("{}{}:{}", sign, h, m)
    } else {
        format!("{}{}", sign, h)
    }
}
fn render_abs(a: &AbsRule) -> Vec<u8> {
    let mut v = name_text(&a.std.1);
    v.extend_from_slice(hms_canon(-a.std.0).as_bytes());
    if let Some((dst, sd, st, ed, et)) = &a.dst {
        v.extend_from_slice(&name_text(&dst.1));
        v.extend_from_slice(hms_canon(-dst.0).as_bytes());
        for (d, t) in [(sd, st), (ed, et)] {
            v.push(b',');
            v.extend_from_slice(day_text(d).as_bytes());
            v.push(b'/');
            v.extend_from_slice(hms_canon(*t).as_bytes());
        }
    }
    v
}
fn abs_token(a: &AbsRule) -> String {
    let d = |d: &Day| match d {
        Day::J1(n) => format!("1 {} 0 0", n),
        Day::J0(n) => format!("0 {} 0 0", n),
        Day::M(m, w, d) => format!("2 {} {} {}", m, w, d),
    };
    match &a.dst {
        None => format!("{} {} 0", hex(&a.std.1), a.std.0),
        Some((dst, sd, st, ed, et)) => {
            format!("{} {} 1 {} {} {} {} {} {}", hex(&a.std.1), a.std.0, hex(&dst.1), dst.0, d(sd), st, d(ed), et)
        }
    }
}
fn out_of_range_variants(c: &mut Ctx, r: &RuleM, ext: bool) -> Vec<(&'static str, Vec<u8>)> {
    let mut v: Vec<(&'static str, Vec<u8>)> = vec![];
    let mut push = |what: &'static str, r2: RuleM| {
        v.push((what, render_rule(&r2, || 0)));
    };
    let mut r2 = r.clone();
    r2.std_off.h = 25;
    push("offset-hour", r2);
    let mut r2 = r.clone();
    r2.std_off.m = 60;
    push("offset-minute", r2);
    let mut r2 = r.clone();
    r2.std_off.s = 60;
    push("offset-second", r2);
    let mut r2 = r.clone();
    r2.std_name = r2.std_name[..2].to_vec();
    push("name-short", r2);
    let mut r2 = r.clone();
    r2.std_name = b"ABCDEFGH".to_vec();
    push("name-long", r2);
    let mut r2 = r.clone();
    r2.std_name = b"AB_C".to_vec();
    push("name-char", r2);
    if let Some(d) = &r.dst {
        let with = |f: &dyn Fn(&mut DstM)| {
            let mut r2 = r.clone();
            let mut d2 = d.clone();
            f(&mut d2);
            r2.dst = Some(d2);
            r2
        };
        push("julian1-0", with(&|d| d.start = Day::J1(0)));
        push("julian1-366", with(&|d| d.end = Day::J1(366)));
        push("julian0-366", with(&|d| d.start = Day::J0(366)));
        push("month-0", with(&|d| d.start = Day::M(0, 1, 1)));
        push("month-13", with(&|d| d.end = Day::M(13, 1, 1)));
        push("week-0", with(&|d| d.start = Day::M(1, 0, 1)));
        push("week-6", with(&|d| d.end = Day::M(1, 6, 1)));
        push("weekday-7", with(&|d| d.start = Day::M(1, 1, 7)));
        let hmax = if ext { 168 } else { 25 };
        push("time-hour", with(&|d| d.start_time = Some(Hms { neg: false, h: hmax, m: 0, s: 0 })));
        push("time-minute", with(&|d| d.end_time = Some(Hms { neg: false, h: 1, m: 60, s: 0 })));
        push("time-second", with(&|d| d.end_time = Some(Hms { neg: false, h: 1, m: 0, s: 60 })));
        let neg = c.rng.chance(1, 2);
        push("dst-offset-hour", with(&|d| d.off = Some(Hms { neg, h: 25, m: 0, s: 0 })));
        push("dst-name-short", with(&|d| d.name = b"<+1>".to_vec()));
        // structural: missing end rule, missing both rules, trailing data
        let full = render_rule(r, || 0);
        let cut = full.iter().rposition(|&b| b == b',').unwrap();
        v.push(("missing-end", full[..cut].to_vec()));
        let cut0 = full.iter().position(|&b| b == b',').unwrap();
        v.push(("missing-rules", full[..cut0].to_vec()));
        let mut t = full.clone();
        t.push(b',');
        v.push(("trailing", t));
        let mut t = full.clone();
        t.push(b' ');
        v.push(("trailing", t));
    } else {
        let mut t = render_rule(r, || 0);
        t.push(b',');
        v.push(("trailing", t));
    }
    v
}
fn edit(c: &mut Ctx, s: &[u8]) -> Vec<u8> {
    let alphabet: &[u8] = b"0123456789:,./<>+-MJ AZaz\0\x80";
    let mut v = s.to_vec();
    if v.is_empty() {
        return vec![*c.rng.pick(alphabet)];
    }
    let at = c.rng.below(v.len() as u64) as usize;
    match c.rng.below(4) {
        0 => {
            v.remove(at);
        }
        1 => v.insert(at, *c.rng.pick(alphabet)),
        2 => v[at] = *c.rng.pick(alphabet),
        _ => {
            v.truncate(at);
        }
    }
    v
}

// ------------------------------------------------------------------------------- written files
/// a random well-formed file together with the dump the property demands for it
fn gen_file(c: &mut Ctx, big: bool) -> (TzFile, String, bool) {
    let version = *c.rng.pick(&[1u8, 2, 2, 3, 3]);
    if version == 1 {
        let v1 = gen_block(c, 4, &[], big);
        let want = format!("{} rule=none", expected_prefix(&v1, 4));
        return (TzFile { version, v1, v2: Block::default(), footer: vec![] }, want, false);
    }
    let v1 = if c.rng.chance(1, 2) {
        // what `zic -b slim` writes: a minimal 32-bit block
        Block { trans: vec![], types: vec![Ty { off: 0, dst: false, abbr: 0 }], names: vec![0], leaps: vec![], std_walls: vec![], ut_locals: vec![] }
    } else {
        gen_block(c, 4, &[], false)
    };
    let with_rule = c.rng.chance(2, 3);
    if !with_rule {
        let v2 = gen_block(c, 8, &[], big);
        let want = format!("{} rule=none", expected_prefix(&v2, 8));
        return (TzFile { version, v1, v2, footer: vec![] }, want, false);
    }
    let ext = version == 3 && c.rng.chance(1, 2);
    let r = gen_rule(c, ext);
    let mut styles: Vec<u64> = (0..8).map(|_| c.rng.below(32)).collect();
    let footer = render_rule(&r, || styles.pop().unwrap_or(0));
    let std_ut = -r.std_off.secs() as i32;
    let mut forced = vec![(std_ut, false, r.std_name.clone())];
    if let Some(d) = &r.dst {
        let dst_ut = match &d.off {
            Some(o) => -o.secs() as i32,
            None => std_ut + 3600,
        };
        forced.push((dst_ut, true, d.name.clone()));
    }
    let mut v2 = gen_block(c, 8, &forced, big);
    // the last transition must agree with the rule: type 0 (standard) — `fix_last` may move it to 1
    if let Some(last) = v2.trans.last_mut() {
        last.1 = 0;
        // the rule lookup needs a year that fits i32
        if last.0 > 60_000_000_000_000_000 || last.0 < -60_000_000_000_000_000 {
            last.0 = last.0 / 1000;
            let lt = last.0;
            let n = v2.trans.len();
            // keep the order strictly increasing after shrinking the last time
            v2.trans.truncate(n);
            let mut t = lt;
            for k in (0..n - 1).rev() {
                if v2.trans[k].0 >= t {
                    v2.trans[k].0 = t - 1;
                }
                t = v2.trans[k].0;
            }
        }
    }
    let want = format!("{} rule={}", expected_prefix(&v2, 8), expected_rule(&r));
    (TzFile { version, v1, v2, footer }, want, uses_ext(&r))
}

pub fn run(c: &mut Ctx) {
    // ---- 1. TZ strings --------------------------------------------------------------------------
    tz_string_stage(c);

    // ---- 2. files written by the conforming writer ----------------------------------------------
    let n_files = c.n(500, 6000);
    let n_mutated = c.n(60, 900);
    for i in 0..n_files {
        let big = i % 50 == 49;
        let (mut f, mut want, ext_footer) = gen_file(c, big);
        let (mut bytes, mut layout) = encode(&f);
        // a DST rule: the last transition carries the type the rule gives at that instant — standard
        // or daylight; exactly the matching one is consistent
        let two = f.version >= 2 && !f.footer.is_empty() && !f.v2.trans.is_empty() && f.v2.types.len() >= 2 && f.v2.types[1].dst;
        if two {
            let accepted_std = matches!(guard(|| vt::from_tzif(&bytes)), Ok(Ok(_)));
            if !accepted_std {
                c.count("written:last=dst");
                f.v2.trans.last_mut().unwrap().1 = 1;
                let rule_part = want[want.find(" rule=").unwrap()..].to_string();
                want = format!("{}{}", expected_prefix(&f.v2, 8), rule_part);
                let e = encode(&f);
                bytes = e.0;
                layout = e.1;
            } else {
                c.count("written:last=std");
            }
        }
        c.count(&format!("written:v{}{}", f.version, if f.version >= 2 { if f.footer.is_empty() { ".nofooter" } else { ".footer" } } else { "" }));
        let times: Vec<i64> = if f.version == 1 { f.v1.trans.iter().map(|t| t.0 as i32 as i64).collect() } else { f.v2.trans.iter().map(|t| t.0).collect() };
        let got = read_tzif(c, &bytes, "written", &times);
        // F32 (repaired): every local time type of the block that is read, and every offset the footer
        // states, must lie strictly within 24 hours of UTC; otherwise the file is invalid zone data
        let used = if f.version == 1 { &f.v1 } else { &f.v2 };
        let representable = used.types.iter().all(|t| -86400 < t.off && t.off < 86400);
        if !representable {
            match &got {
                Some(d) => c.fail("a TZif file with a UTC offset of 24 hours or more was accepted (F32)", &format!("file={} got={}", hex(&bytes), d)),
                None => c.count("written:refused, offset of 24 h or more"),
            }
            continue;
        }
        match &got {
            Some(d) if *d == want => {}
            Some(d) => c.fail("a written TZif file was decoded differently from what was written", &format!("file={} got={} want={}", hex(&bytes), d, want)),
            None => c.fail("a well-formed TZif file was rejected", &format!("file={} want={}", hex(&bytes), want)),
        }
        if i < 2 {
            c.sample(&format!("written v{} file of {} bytes -> {}", f.version, bytes.len(), want));
        }
        // the specification's writer (Lean) must produce the same bytes
        if bytes.len() < 1500 {
            c.op(&format!("tzp.enc {} {} {} {}", f.version, hex(&f.footer), block_token(&f.v1), block_token(&f.v2)), &hex(&bytes));
        }
        // the independent decoder agrees with the writer about the layout (sanity of the oracle)
        match ref_decode(&bytes) {
            Some(rf) if want.starts_with(&rf.prefix) => {}
            _ => c.fail("harness self-check: independent decoder disagrees with the writer", &hex(&bytes)),
        }
        if i < n_mutated && got.is_some() {
            apply_mutations(c, &bytes, &layout, ext_footer);
        }
    }

    // ---- 3. system zoneinfo -----------------------------------------------------------------------
    let mut files = vec![];
    walk(std::path::Path::new("/usr/share/zoneinfo"), &mut files);
    let total = files.len();
    let n_sys = c.n(80, total).min(total);
    let n_sys_mut = c.n(4, 40);
    let mut chosen: Vec<usize> = vec![];
    if n_sys >= total {
        chosen = (0..total).collect();
    } else {
        for name in ["America/New_York", "Europe/London", "Australia/Lord_Howe", "Asia/Kolkata", "UTC", "Africa/Casablanca", "America/Godthab", "Antarctica/Troll", "Asia/Gaza", "Europe/Dublin", "Pacific/Apia", "zone.tab", "tzdata.zi", "right/UTC", "right/Europe/Paris"] {
            if let Some(i) = files.iter().position(|p| p.ends_with(name)) {
                chosen.push(i);
            }
        }
        while chosen.len() < n_sys {
            let i = c.rng.below(total as u64) as usize;
            if !chosen.contains(&i) {
                chosen.push(i);
            }
        }
    }
    let mut n_mut_done = 0;
    for i in chosen {
        let path = &files[i];
        let bytes = match std::fs::read(path) {
            Ok(b) => b,
            Err(_) => continue,
        };
        if bytes.len() > 200_000 {
            c.count("system:skipped-large");
            continue;
        }
        let is_tzif = bytes.starts_with(b"TZif");
        let rf = if is_tzif { ref_decode(&bytes) } else { None };
        let got = read_tzif(c, &bytes, if is_tzif { "system.tzif" } else { "system.other" }, &[]);
        if !is_tzif {
            must_reject(c, &got, "a file without the TZif magic", &bytes[..bytes.len().min(64)]);
            continue;
        }
        match (&got, &rf) {
            (Some(d), Some(rf)) => {
                if !d.starts_with(&rf.prefix) {
                    c.fail("a system TZif file was decoded differently from an independent decoder", &format!("{} got={} want={}", path.display(), d, rf.prefix));
                }
                // the rule is the footer's TZ string
                if let Some(foot) = &rf.footer {
                    let want_rule = if foot.is_empty() {
                        "none".to_string()
                    } else {
                        match guard(|| vt::rule_from_tz_string(foot, rf.version >= 3)) {
                            Ok(Ok(r)) => r,
                            _ => "<rejected>".to_string(),
                        }
                    };
                    if !d.ends_with(&format!(" rule={}", want_rule)) {
                        c.fail("the rule of a system TZif file is not its footer's TZ string", &format!("{} footer={:?} dump={}", path.display(), String::from_utf8_lossy(foot), d));
                    }
                    if !foot.is_empty() {
                        read_rule(c, foot, rf.version >= 3, "system.footer");
                    }
                }
                if n_mut_done < n_sys_mut && bytes.len() < 2500 {
                    n_mut_done += 1;
                    apply_mutations(c, &bytes, &rf.layout, false);
                }
            }
            (None, _) => c.fail("a system TZif file was rejected", &format!("{}", path.display())),
            (Some(_), None) => c.count("system.tzif:undecodable-by-reference"),
        }
    }
    c.count_n("system:files-total", total as u64);

    // ---- 4. hostile headers and random bytes -------------------------------------------------------
    let n = c.n(3000, 40000);
    for i in 0..n {
        let mut b: Vec<u8> = vec![];
        match i % 4 {
            0 => {
                let len = c.rng.below(64) as usize;
                b = (0..len).map(|_| c.rng.next() as u8).collect();
            }
            1 => {
                b.extend_from_slice(b"TZif");
                let len = c.rng.below(120) as usize;
                b.extend((0..len).map(|_| c.rng.next() as u8));
            }
            _ => {
                // a syntactically valid header with small or extreme counts, then random/zero data
                for pass in 0..2 {
                    b.extend_from_slice(b"TZif");
                    let v = *c.rng.pick(&[0u8, b'2', b'3']);
                    b.push(v);
                    b.extend_from_slice(&[0u8; 15]);
                    let typecnt = 1 + c.rng.below(3) as u32;
                    let mut cnts = [
                        *c.rng.pick(&[0, typecnt]),
                        *c.rng.pick(&[0, typecnt]),
                        c.rng.below(2) as u32,
                        c.rng.below(4) as u32,
                        typecnt,
                        1 + c.rng.below(8) as u32,
                    ];
                    if c.rng.chance(1, 4) {
                        let k = c.rng.below(6) as usize;
                        cnts[k] = *c.rng.pick(&[0u32, u32::MAX, 0x8000_0000, 0x1000_0000, 0x2000_0001, 65536]);
                    }
                    for x in cnts {
                        b.extend_from_slice(&x.to_be_bytes());
                    }
                    let ts = if pass == 0 { 4 } else { 8 };
                    let size = (cnts[3] as u64 * ts + cnts[3] as u64 + cnts[4] as u64 * 6 + cnts[5] as u64 + cnts[2] as u64 * (ts + 4) + cnts[1] as u64 + cnts[0] as u64).min(400) as usize;
                    let zero = c.rng.chance(1, 2);
                    b.extend((0..size).map(|_| if zero { 0 } else { (c.rng.next() as u8) & if c.rng.chance(1, 2) { 0x01 } else { 0xff } }));
                    if v == 0 || pass == 1 {
                        if v != 0 {
                            b.extend_from_slice(*c.rng.pick(&[&b"\n\n"[..], b"\nUTC0\n", b"\n", b""]));
                        }
                        break;
                    }
                }
            }
        }
        read_tzif(c, &b, "hostile", &[]);
    }
    // close with the smallest inputs (they also serve as the evidence's trailing samples)
    for b in [&b""[..], b"T", b"TZif", b"TZif2"] {
        let got = read_tzif(c, b, "tiny", &[]);
        must_reject(c, &got, "a file shorter than a header", b);
    }
}
