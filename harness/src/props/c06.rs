//! C06 — TimeDelta: exact signed nanosecond counts in a closed range.
use crate::ctx::*;
use chrono::TimeDelta;
use std::time::Duration;

const MAX_S: i64 = i64::MAX / 1000; // 9_223_372_036_854_775
const MAX_N: u32 = 807_000_000;
const MIN_S: i64 = -i64::MAX / 1000 - 1;
const MIN_N: u32 = 193_000_000;
const NS_MAX: i128 = i64::MAX as i128 * 1_000_000;

/// raw (secs, nanos) of a value, read from the derived Debug output (the fields are private)
pub fn raw(d: &TimeDelta) -> (i64, i32) {
    let s = format!("{:?}", d);
    let nums: Vec<i64> = s
        .split(|c: char| !(c.is_ascii_digit() || c == '-'))
        .filter(|t| !t.is_empty())
        .filter_map(|t| t.parse().ok())
        .collect();
    (nums[0], nums[1] as i32)
}
pub fn show(d: &TimeDelta) -> String {
    let (s, n) = raw(d);
    format!("{} {}", s, n)
}
fn so(o: Option<TimeDelta>) -> String {
    match o {
        Some(d) => show(&d),
        None => "none".into(),
    }
}
fn ns_of(d: &TimeDelta) -> i128 {
    let (s, n) = raw(d);
    s as i128 * 1_000_000_000 + n as i128
}
fn in_range(n: i128) -> bool {
    -NS_MAX <= n && n <= NS_MAX
}
fn inv(d: &TimeDelta) -> bool {
    let (_, n) = raw(d);
    (0..1_000_000_000).contains(&n) && in_range(ns_of(d))
}

/// interesting (secs, nanos) pairs: range ends, zero crossing, halves/thirds, random
fn gen_pair(c: &mut Ctx) -> (i64, u32) {
    let ns: [u32; 12] =
        [0, 1, 999_999_999, 500_000_000, 193_000_000, 192_999_999, 193_000_001, 807_000_000, 806_999_999, 807_000_001, 1000, 999_000_000];
    let ss: [i64; 16] = [
        0, 1, -1, -2, 59, 60, 86399, 86400, -86400, MAX_S, MAX_S - 1, MIN_S, MIN_S + 1, MAX_S / 2, MIN_S / 2,
        MAX_S / 3,
    ];
    let s = match c.rng.below(4) {
        0 => *c.rng.pick(&ss),
        1 => c.rng.range(MIN_S, MAX_S),
        2 => c.rng.log_i64().clamp(MIN_S, MAX_S),
        _ => c.rng.range(-100_000, 100_000),
    };
    let n = if c.rng.chance(1, 2) { *c.rng.pick(&ns) } else { c.rng.nanos() };
    (s, n)
}
fn gen_valid(c: &mut Ctx) -> TimeDelta {
    loop {
        let (s, n) = gen_pair(c);
        if let Some(d) = TimeDelta::new(s, n) {
            return d;
        }
    }
}
fn gen_i32(c: &mut Ctx) -> i32 {
    let ks: [i32; 14] = [0, 1, -1, 2, -2, 3, 7, 10, 1000, -1000, i32::MAX, i32::MIN, i32::MAX - 1, i32::MIN + 1];
    match c.rng.below(3) {
        0 => *c.rng.pick(&ks),
        1 => c.rng.range(-1000, 1000) as i32,
        _ => c.rng.log_i64().clamp(i32::MIN as i64, i32::MAX as i64) as i32,
    }
}

pub fn run(c: &mut Ctx) {
    crate::aliases::c06(c);
    // ---- new: all boundary pairs -------------------------------------------------------------
    let secs_b: Vec<i64> = {
        let mut v = vec![0, 1, -1, i64::MAX, i64::MIN, i64::MAX - 1, i64::MIN + 1];
        for d in -2..=2 {
            v.push(MAX_S + d);
            v.push(MIN_S + d);
        }
        v
    };
    let nanos_b: Vec<u32> = {
        let mut v = vec![0, 1, u32::MAX, u32::MAX - 1, i32::MAX as u32, i32::MAX as u32 + 1];
        for d in -2i64..=2 {
            for b in [MAX_N as i64, MIN_N as i64, 1_000_000_000, 2_000_000_000] {
                v.push((b + d) as u32);
            }
        }
        v
    };
    for &s in &secs_b {
        for &n in &nanos_b {
            let got = gs(|| TimeDelta::new(s, n), so);
            c.op(&format!("td.new {s} {n}"), &got);
            if let Ok(Some(d)) = guard(|| TimeDelta::new(s, n)) {
                if !inv(&d) {
                    c.fail("TimeDelta::new built a value outside the range", &format!("new({s},{n}) -> {}", show(&d)));
                }
            }
        }
    }
    let n_new = c.n(20000, 300000);
    for _ in 0..n_new {
        let (s, n) = gen_pair(c);
        let n = if c.rng.chance(1, 8) { c.rng.next() as u32 } else { n };
        c.op(&format!("td.new {s} {n}"), &gs(|| TimeDelta::new(s, n), so));
    }
    // ---- unit constructors at their exact overflow thresholds ---------------------------------
    let units: [(&str, i64, fn(i64) -> Option<TimeDelta>); 5] = [
        ("weeks", 604_800, TimeDelta::try_weeks),
        ("days", 86_400, TimeDelta::try_days),
        ("hours", 3600, TimeDelta::try_hours),
        ("minutes", 60, TimeDelta::try_minutes),
        ("seconds", 1, TimeDelta::try_seconds),
    ];
    for (name, unit, f) in units.iter() {
        let mut args: Vec<i64> = vec![0, 1, -1, i64::MAX, i64::MIN, i64::MAX - 1, i64::MIN + 1];
        for d in -3..=3 {
            args.push(MAX_S / unit + d);
            args.push(MIN_S / unit + d);
            args.push(i64::MAX / unit + d.min(0));
            args.push(i64::MIN / unit + d.max(0));
        }
        let extra = c.n(2000, 30000);
        for _ in 0..extra {
            args.push(c.rng.log_i64());
        }
        for a in args {
            let got = gs(|| f(a), so);
            c.count(if got == "none" { "unit:none" } else { "unit:some" });
            c.op(&format!("td.try_unit {name} {a}"), &got);
            // direct oracle
            let exact = a as i128 * *unit as i128 * 1_000_000_000;
            match guard(|| f(a)) {
                Ok(Some(d)) => {
                    if ns_of(&d) != exact || !inv(&d) {
                        c.fail("unit constructor is not exact", &format!("try_{name}({a}) -> {}", show(&d)));
                    }
                }
                Ok(None) => {
                    if in_range(exact) {
                        c.fail("unit constructor refuses an in-range value", &format!("try_{name}({a})"));
                    }
                }
                Err(()) => c.fail("unit constructor panicked", &format!("try_{name}({a})")),
            }
        }
    }
    let mut args: Vec<i64> = vec![0, 1, -1, 999, 1000, 1001, -999, -1000, -1001];
    args.extend(int_extremes().into_iter().filter_map(|v| i64::try_from(v).ok()));
    let extra = c.n(3000, 50000);
    for _ in 0..extra {
        args.push(c.rng.log_i64());
        args.push(c.rng.next() as i64);
    }
    for a in args {
        c.op(&format!("td.try_ms {a}"), &gs(|| TimeDelta::try_milliseconds(a), so));
        c.op(&format!("td.us {a}"), &gs(|| TimeDelta::microseconds(a), |d| show(&d)));
        c.op(&format!("td.ns {a}"), &gs(|| TimeDelta::nanoseconds(a), |d| show(&d)));
        if let Ok(d) = guard(|| TimeDelta::nanoseconds(a)) {
            if ns_of(&d) != a as i128 || !inv(&d) {
                c.fail("nanoseconds() is not exact", &format!("{a} -> {}", show(&d)));
            }
        }
        if let Ok(d) = guard(|| TimeDelta::microseconds(a)) {
            if ns_of(&d) != a as i128 * 1000 || !inv(&d) {
                c.fail("microseconds() is not exact", &format!("{a} -> {}", show(&d)));
            }
        }
    }
    // ---- accessors, unary ops, display --------------------------------------------------------
    let mut vals: Vec<TimeDelta> = vec![TimeDelta::MIN, TimeDelta::MAX, TimeDelta::zero()];
    for (s, n) in [(MIN_S, MIN_N + 1), (MAX_S, MAX_N - 1), (-1, 999_999_999), (-1, 1), (0, 1), (-1, 0), (1, 0)] {
        vals.push(TimeDelta::new(s, n).unwrap());
    }
    let n_vals = c.n(20000, 300000);
    for _ in 0..n_vals {
        let v = gen_valid(c);
        vals.push(v);
    }
    // unit-directed values (seed R4-C06-a: an accessor dividing the stored floor-seconds goes wrong only for a
    // negative duration less than a second short of a whole number of its units): k units +- up to a second
    for unit in [604_800i128, 86_400, 3_600, 60, 1] {
        let n_k = c.n(40, 400);
        for j in 0..n_k {
            let k: i128 = match j % 4 {
                0 => (j as i128 / 4) - 5,
                1 => -(c.rng.range(1, 1000) as i128),
                2 => c.rng.range(1, 1000) as i128,
                _ => (c.rng.log_i64() as i128) % (NS_MAX / 1_000_000_000 / unit),
            };
            for e in [0i128, 1, -1, 999_999_999, -999_999_999, 1_000_000_000, -1_000_000_000, 500_000_000, -500_000_000, 1_000_000, -1_000_000] {
                let ns = k * unit * 1_000_000_000 + e;
                if !in_range(ns) {
                    continue;
                }
                let (sec, nano) = (ns.div_euclid(1_000_000_000) as i64, ns.rem_euclid(1_000_000_000) as u32);
                if let Some(d) = TimeDelta::new(sec, nano) {
                    vals.push(d);
                    c.count("val:unit-directed");
                }
            }
        }
    }
    for d in &vals {
        let (s, n) = raw(d);
        let exact = ns_of(d);
        // direct oracle: every whole-unit accessor is the exact count truncated toward zero
        if let Ok(t) = guard(|| (d.num_weeks(), d.num_minutes(), d.num_milliseconds(), d.num_microseconds(), d.num_nanoseconds(), d.subsec_millis(), d.subsec_micros())) {
            let fits = |x: i128| if i64::try_from(x).is_ok() { Some(x as i64) } else { None };
            if t.0 as i128 != exact / 604_800_000_000_000 {
                c.fail("num_weeks does not truncate toward zero", &format!("{s} {n} -> {}", t.0));
            }
            if t.1 as i128 != exact / 60_000_000_000 {
                c.fail("num_minutes does not truncate toward zero", &format!("{s} {n} -> {}", t.1));
            }
            if t.2 as i128 != exact / 1_000_000 {
                c.fail("num_milliseconds does not truncate toward zero", &format!("{s} {n} -> {}", t.2));
            }
            if t.3 != fits(exact / 1_000) || t.4 != fits(exact) {
                c.fail("num_microseconds / num_nanoseconds are not the exact count when it fits i64 and None otherwise", &format!("{s} {n} -> {:?} {:?}", t.3, t.4));
            }
            if t.5 as i128 != (exact % 1_000_000_000) / 1_000_000 || t.6 as i128 != (exact % 1_000_000_000) / 1_000 {
                c.fail("subsec_millis / subsec_micros do not truncate toward zero", &format!("{s} {n} -> {} {}", t.5, t.6));
            }
        }
        let acc = gs(
            || {
                (
                    d.num_weeks(), d.num_days(), d.num_hours(), d.num_minutes(), d.num_seconds(), d.num_milliseconds(),
                    d.num_microseconds(), d.num_nanoseconds(), d.subsec_millis(), d.subsec_micros(), d.subsec_nanos(),
                    d.is_zero(),
                )
            },
            |t| {
                format!(
                    "{} {} {} {} {} {} {} {} {} {} {} {}",
                    t.0, t.1, t.2, t.3, t.4, t.5, opt(t.6), opt(t.7), t.8, t.9, t.10, b01(t.11)
                )
            },
        );
        c.op(&format!("td.acc {s} {n}"), &acc);
        c.count(if s < 0 && n > 0 { "val:negative-fractional" } else if s < 0 { "val:negative-whole" } else { "val:nonneg" });
        // direct oracle on the truncation rule
        if let Ok((secs, sub)) = guard(|| (d.num_seconds(), d.subsec_nanos())) {
            if secs as i128 != exact / 1_000_000_000 || sub as i128 != exact % 1_000_000_000 {
                c.fail("num_seconds/subsec_nanos do not truncate toward zero", &format!("{s} {n}"));
            }
        }
        if let Ok(h) = guard(|| d.num_hours()) {
            if h as i128 != exact / 3_600_000_000_000 {
                c.fail("num_hours does not truncate toward zero", &format!("{s} {n} -> {h}"));
            }
        }
        if let Ok(h) = guard(|| d.num_days()) {
            if h as i128 != exact / 86_400_000_000_000 {
                c.fail("num_days does not truncate toward zero", &format!("{s} {n} -> {h}"));
            }
        }
        c.op(&format!("td.neg {s} {n}"), &gs(|| -*d, |x| show(&x)));
        c.op(&format!("td.abs {s} {n}"), &gs(|| d.abs(), |x| show(&x)));
        c.op(&format!("td.to_std {s} {n}"), &gs(|| d.to_std().ok(), |o| opt(o.map(|x| format!("{} {}", x.as_secs(), x.subsec_nanos())))));
        let disp = gs(|| d.to_string(), |t| hex(t.as_bytes()));
        c.op(&format!("td.display {s} {n}"), &disp);
        // direct oracle: the text is the exact decimal number of seconds
        if let Ok(text) = guard(|| d.to_string()) {
            if parse_display(&text) != Some(exact) {
                c.fail("Display is not the exact decimal number of seconds", &format!("{s} {n} -> {text}"));
            }
        }
        if let Ok(x) = guard(|| -*d) {
            if ns_of(&x) != -exact || !inv(&x) {
                c.fail("negation is not exact", &format!("{s} {n}"));
            }
        }
        if let Ok(x) = guard(|| d.abs()) {
            if ns_of(&x) != exact.abs() || !inv(&x) {
                c.fail("abs is not exact", &format!("{s} {n}"));
            }
        }
    }
    c.sample(&format!("td.acc {} (TimeDelta::MIN)", show(&TimeDelta::MIN)));
    // ---- binary operations -------------------------------------------------------------------
    let n_bin = c.n(40000, 600000);
    for i in 0..n_bin {
        let a = if i % 5 == 0 { *c.rng.pick(&vals[..10]) } else { gen_valid(c) };
        // half of the partners are placed at the exact distance to a range end
        let b = match c.rng.below(6) {
            0 => TimeDelta::MAX.checked_sub(&a).unwrap_or(TimeDelta::MAX),
            1 => a.checked_sub(&TimeDelta::MIN).unwrap_or(TimeDelta::MIN),
            2 => TimeDelta::MAX
                .checked_sub(&a)
                .and_then(|x| x.checked_add(&TimeDelta::nanoseconds(c.rng.range(-2, 2))))
                .unwrap_or(TimeDelta::zero()),
            3 => *c.rng.pick(&vals[..10]),
            _ => gen_valid(c),
        };
        let (s1, n1) = raw(&a);
        let (s2, n2) = raw(&b);
        let (ea, eb) = (ns_of(&a), ns_of(&b));
        let add = guard(|| a.checked_add(&b));
        let sub = guard(|| a.checked_sub(&b));
        c.op(&format!("td.add {s1} {n1} {s2} {n2}"), &match &add { Ok(o) => so(*o), Err(()) => "panic".into() });
        c.op(&format!("td.sub {s1} {n1} {s2} {n2}"), &match &sub { Ok(o) => so(*o), Err(()) => "panic".into() });
        c.op(&format!("td.cmp {s1} {n1} {s2} {n2}"), &gs(|| a.cmp(&b) as i32, |x| x.to_string()));
        c.count(if in_range(ea + eb) { "add:in-range" } else { "add:out-of-range" });
        for (name, res, exact) in [("checked_add", &add, ea + eb), ("checked_sub", &sub, ea - eb)] {
            match res {
                Ok(Some(r)) => {
                    if ns_of(r) != exact || !inv(r) {
                        c.fail(&format!("{name} is not exact"), &format!("{s1} {n1} {s2} {n2} -> {}", show(r)));
                    }
                }
                Ok(None) => {
                    if in_range(exact) {
                        c.fail(&format!("{name} refuses a representable result"), &format!("{s1} {n1} {s2} {n2}"));
                    }
                }
                Err(()) => c.fail(&format!("{name} panicked"), &format!("{s1} {n1} {s2} {n2}")),
            }
        }
        if (a.cmp(&b) as i32) != (ea.cmp(&eb) as i32) {
            c.fail("comparison disagrees with numeric order", &format!("{s1} {n1} {s2} {n2}"));
        }
    }
    // ---- multiplication / division by i32 ----------------------------------------------------
    let n_mul = c.n(40000, 600000);
    for i in 0..n_mul {
        let a = if i % 4 == 0 { *c.rng.pick(&vals[..10]) } else { gen_valid(c) };
        let k = gen_i32(c);
        let (s, n) = raw(&a);
        let ea = ns_of(&a);
        let mul = guard(|| a.checked_mul(k));
        c.op(&format!("td.mul {s} {n} {k}"), &match &mul { Ok(o) => so(*o), Err(()) => "panic".into() });
        let exact = ea * k as i128;
        c.count(if in_range(exact) { "mul:in-range" } else { "mul:out-of-range" });
        match &mul {
            Ok(Some(r)) => {
                if ns_of(r) != exact || !inv(r) {
                    c.fail("checked_mul returned a wrong or out-of-range value", &format!("td.mul {s} {n} {k} -> {}", show(r)));
                }
            }
            Ok(None) => {
                if in_range(exact) {
                    c.fail("checked_mul refuses a representable result", &format!("td.mul {s} {n} {k}"));
                }
            }
            Err(()) => c.fail("checked_mul panicked", &format!("td.mul {s} {n} {k}")),
        }
        let div = guard(|| a.checked_div(k));
        c.op(&format!("td.div {s} {n} {k}"), &match &div { Ok(o) => so(*o), Err(()) => "panic".into() });
        match &div {
            Ok(Some(r)) => {
                let err = (ns_of(r) * k as i128 - ea).abs();
                if k == 0 || err >= 2 * (k as i128).abs() || !inv(r) {
                    c.fail("checked_div is off by two nanoseconds or more", &format!("td.div {s} {n} {k} -> {}", show(r)));
                }
            }
            Ok(None) => {
                if k != 0 {
                    c.fail("checked_div refuses a non-zero divisor", &format!("td.div {s} {n} {k}"));
                }
            }
            Err(()) => c.fail("checked_div panicked", &format!("td.div {s} {n} {k}")),
        }
    }
    // ---- std::time::Duration -----------------------------------------------------------------
    let n_std = c.n(5000, 50000);
    for i in 0..n_std {
        let s: u64 = match i % 4 {
            0 => (MAX_S + c.rng.range(-2, 2)) as u64,
            1 => c.rng.next(),
            2 => c.rng.below(1_000_000),
            _ => *c.rng.pick(&[0u64, 1, u64::MAX, i64::MAX as u64, i64::MAX as u64 + 1]),
        };
        let n: u32 = if c.rng.chance(1, 2) { *c.rng.pick(&[0, 1, MAX_N, MAX_N + 1, MAX_N - 1, 999_999_999]) } else { c.rng.nanos() };
        let got = gs(|| TimeDelta::from_std(Duration::new(s, n)).ok(), so);
        c.op(&format!("td.from_std {s} {n}"), &got);
        if let Ok(Some(d)) = guard(|| TimeDelta::from_std(Duration::new(s, n)).ok()) {
            if guard(|| d.to_std().ok()) != Ok(Some(Duration::new(s, n))) {
                c.fail("from_std/to_std does not round-trip", &format!("{s} {n}"));
            }
        }
    }
    // ---- Sum ---------------------------------------------------------------------------------
    let n_sum = c.n(2000, 20000);
    for _ in 0..n_sum {
        let k = c.rng.below(6) as usize;
        let xs: Vec<TimeDelta> = (0..k)
            .map(|_| if c.rng.chance(1, 6) { TimeDelta::MAX.checked_div(2).unwrap() } else { TimeDelta::nanoseconds(c.rng.log_i64()) })
            .collect();
        let args: Vec<String> = xs.iter().map(show).collect();
        c.op(&format!("td.sum {}", args.join(" ")).trim_end().to_string(), &gs(|| xs.iter().sum::<TimeDelta>(), |d| show(&d)));
    }
    // ---- division: operands built around the divisor (remainder classes, both signs) -----------
    let n_div = c.n(30000, 400000);
    for _ in 0..n_div {
        let k = loop {
            let k = gen_i32(c);
            if k != 0 {
                break k;
            }
        };
        let ka = (k as i64).abs();
        // secs = q*k + carry with the carry at the ends of its range, nanos around multiples of k
        let carry = *c.rng.pick(&[0, 1, -1, ka - 1, -(ka - 1), ka / 2, -(ka / 2)]);
        let q = match c.rng.below(4) {
            0 => c.rng.range(-3, 3),
            1 => (MAX_S / ka) * if c.rng.chance(1, 2) { 1 } else { -1 },
            _ => c.rng.range(MIN_S / ka, MAX_S / ka),
        };
        let s0 = (q as i128 * k as i128 + carry as i128).clamp(MIN_S as i128, MAX_S as i128) as i64;
        let n0 = match c.rng.below(5) {
            0 => 0,
            1 => 999_999_999,
            2 => (ka.min(999_999_999) as u32).saturating_sub(c.rng.below(2) as u32),
            3 => ((c.rng.below(1_000_000_000) as i64 / ka * ka + c.rng.range(-1, 1)).clamp(0, 999_999_999)) as u32,
            _ => c.rng.nanos(),
        };
        let a = match TimeDelta::new(s0, n0) {
            Some(a) => a,
            None => continue,
        };
        // one case in eight: the ends of the machine windows an implementation could compute in (i64 nanoseconds,
        // i64 microseconds) with the divisors whose quotient leaves the window (seed R4-C06-b: -2^63 ns / -1)
        let (a, k) = if c.rng.chance(1, 8) {
            let j = c.rng.range(0, 2);
            let a = match c.rng.below(4) {
                0 => TimeDelta::nanoseconds(i64::MIN + j),
                1 => TimeDelta::nanoseconds(i64::MAX - j),
                2 => TimeDelta::microseconds(i64::MIN + j),
                _ => TimeDelta::nanoseconds(i64::MIN + j).checked_sub(&TimeDelta::nanoseconds(c.rng.range(0, 2))).unwrap(),
            };
            c.count("div:machine-window-end");
            (a, *c.rng.pick(&[-1, 1, 2, -2, i32::MIN, i32::MAX, k]))
        } else {
            (a, k)
        };
        let ka = (k as i64).abs();
        let _ = ka;
        let (s, n) = raw(&a);
        let ea = ns_of(&a);
        let div = guard(|| a.checked_div(k));
        c.op(&format!("td.div {s} {n} {k}"), &match &div { Ok(o) => so(*o), Err(()) => "panic".into() });
        match &div {
            Ok(Some(r)) => {
                let err = (ns_of(r) * k as i128 - ea).abs();
                let kk = (k as i128).abs();
                c.count(if err == 0 { "div:exact" } else if err < kk { "div:err<1ns" } else { "div:1ns<=err<2ns" });
                c.count(match (ea < 0, k < 0) {
                    (false, false) => "div:+/+",
                    (false, true) => "div:+/-",
                    (true, false) => "div:-/+",
                    (true, true) => "div:-/-",
                });
                if err >= 2 * kk || !inv(r) {
                    c.fail("checked_div is off by two nanoseconds or more", &format!("td.div {s} {n} {k} -> {}", show(r)));
                }
                if (k == 1 && *r != a) || (k == -1 && ns_of(r) != -ea) {
                    c.fail("checked_div by a unit is not exact", &format!("td.div {s} {n} {k} -> {}", show(r)));
                }
            }
            Ok(None) => c.fail("checked_div refuses a non-zero divisor", &format!("td.div {s} {n} {k}")),
            Err(()) => c.fail("checked_div panicked", &format!("td.div {s} {n} {k}")),
        }
    }
    // ---- Display: every number of fraction figures, both signs --------------------------------
    let n_disp = c.n(5000, 60000);
    for i in 0..n_disp {
        let figs = (i % 10) as u32; // 0 = no fraction
        let n0: u32 = if figs == 0 {
            0
        } else {
            let mut d = 1 + c.rng.below(10u64.pow(figs) - 1);
            if d % 10 == 0 {
                d += 1 + c.rng.below(9);
            }
            (d * 10u64.pow(9 - figs)) as u32
        };
        let s0 = match c.rng.below(4) {
            0 => *c.rng.pick(&[0, -1, 1, 9, 10, -10, MAX_S - 1, MIN_S + 1]),
            1 => c.rng.range(MIN_S + 1, MAX_S - 1),
            _ => c.rng.log_i64().clamp(MIN_S + 1, MAX_S - 1),
        };
        let d = match TimeDelta::new(s0, n0) {
            Some(d) => d,
            None => continue,
        };
        let (s, n) = raw(&d);
        c.op(&format!("td.display {s} {n}"), &gs(|| d.to_string(), |t| hex(t.as_bytes())));
        match guard(|| d.to_string()) {
            Ok(text) => {
                if parse_display(&text) != Some(ns_of(&d)) {
                    c.fail("Display is not the exact decimal number of seconds", &format!("{s} {n} -> {text}"));
                }
                let shown = text.split_once('.').map(|(_, f)| f.len() - 1).unwrap_or(0);
                c.count(&format!("disp:figs={shown}"));
                c.count(if text.starts_with('-') { "disp:negative" } else { "disp:nonneg" });
            }
            Err(()) => c.fail("Display panicked", &format!("{s} {n}")),
        }
    }
    // ---- Sum with a direct oracle: exact total, or a panic at the first partial sum out of range
    let n_sum2 = c.n(4000, 40000);
    for _ in 0..n_sum2 {
        let k = c.rng.below(7) as usize;
        let big = [
            TimeDelta::MAX,
            TimeDelta::MIN,
            TimeDelta::MAX.checked_div(2).unwrap(),
            TimeDelta::MIN.checked_div(2).unwrap(),
            TimeDelta::MAX.checked_sub(&TimeDelta::nanoseconds(1)).unwrap(),
            TimeDelta::MIN.checked_add(&TimeDelta::nanoseconds(1)).unwrap(),
        ];
        let xs: Vec<TimeDelta> = (0..k)
            .map(|_| match c.rng.below(4) {
                0 => *c.rng.pick(&big),
                1 => TimeDelta::nanoseconds(c.rng.range(-2, 2)),
                2 => gen_valid(c),
                _ => TimeDelta::nanoseconds(c.rng.log_i64()),
            })
            .collect();
        let args: Vec<String> = xs.iter().map(show).collect();
        let got = guard(|| xs.iter().sum::<TimeDelta>());
        let got2 = guard(|| xs.iter().copied().sum::<TimeDelta>());
        c.op(
            &format!("td.sum {}", args.join(" ")).trim_end().to_string(),
            &match &got { Ok(d) => show(d), Err(()) => "panic".into() },
        );
        let mut acc: i128 = 0;
        let mut overflow = false;
        for x in &xs {
            acc += ns_of(x);
            if !in_range(acc) {
                overflow = true;
                break;
            }
        }
        c.count(if overflow { "sum:panic" } else { "sum:ok" });
        match (&got, overflow) {
            (Ok(d), false) => {
                if ns_of(d) != acc || !inv(d) {
                    c.fail("Sum is not the exact total", &format!("td.sum {} -> {}", args.join(" "), show(d)));
                }
            }
            (Err(()), true) => {}
            (Ok(d), true) => c.fail("Sum passed through a value outside the range without a panic", &format!("td.sum {} -> {}", args.join(" "), show(d))),
            (Err(()), false) => c.fail("Sum panicked although every partial sum is in range", &format!("td.sum {}", args.join(" "))),
        }
        if got.as_ref().ok().map(show) != got2.as_ref().ok().map(show) {
            c.fail("Sum over references and over values disagree", &format!("td.sum {}", args.join(" ")));
        }
    }
    ops(c, &vals);
    round2(c, &vals);
}

/// independent reader of the Display form: [-]P0D | [-]PT<int>[.<frac>]S  ->  nanoseconds
fn parse_display(t: &str) -> Option<i128> {
    let (neg, rest) = match t.strip_prefix('-') {
        Some(r) => (true, r),
        None => (false, t),
    };
    let v = if rest == "P0D" {
        0
    } else {
        let body = rest.strip_prefix("PT")?.strip_suffix('S')?;
        let (ip, fp) = match body.split_once('.') {
            Some((a, b)) => (a, b),
            None => (body, ""),
        };
        if ip.is_empty() || !ip.bytes().all(|b| b.is_ascii_digit()) || !fp.bytes().all(|b| b.is_ascii_digit()) || fp.len() > 9 {
            return None;
        }
        if body.contains('.') && (fp.is_empty() || fp.ends_with('0')) {
            return None; // trailing zeros must be trimmed, a bare point is not a number
        }
        let mut frac = fp.to_string();
        while frac.len() < 9 {
            frac.push('0');
        }
        ip.parse::<i128>().ok()? * 1_000_000_000 + frac.parse::<i128>().ok()?
    };
    Some(if neg { -v } else { v })
}

/// the text the property prescribes for an exact nanosecond count, written with reference arithmetic only:
/// sign, `P0D` for zero, else `PT<seconds>[.<fraction without trailing zeros>]S`
fn ref_display(exact: i128) -> String {
    if exact == 0 {
        return "P0D".into();
    }
    let a = exact.unsigned_abs();
    let (s, f) = (a / 1_000_000_000, a % 1_000_000_000);
    let mut t = String::new();
    if exact < 0 {
        t.push('-');
    }
    t.push_str("PT");
    t.push_str(&s.to_string());
    if f != 0 {
        let mut digits: Vec<u8> = (0..9).rev().map(|i| b'0' + ((f / 10u128.pow(i)) % 10) as u8).collect();
        while digits.last() == Some(&b'0') {
            digits.pop();
        }
        t.push('.');
        t.push_str(std::str::from_utf8(&digits).unwrap());
    }
    t.push('S');
    t
}

fn rd(r: &Result<TimeDelta, ()>) -> String {
    match r {
        Ok(d) => show(d),
        Err(()) => "panic".into(),
    }
}

/// audit gaps G1–G4: the panicking constructors, the operator impls, the constants, the derived relations,
/// `is_zero`, the canonical shape of the Display text, the accessors and the std conversions judged
/// directly against exact i128 arithmetic
fn ops(c: &mut Ctx, vals: &[TimeDelta]) {
    // ---- constants -----------------------------------------------------------------------------
    #[allow(deprecated)]
    let consts = [TimeDelta::MIN, TimeDelta::MAX, TimeDelta::zero(), TimeDelta::min_value(), TimeDelta::max_value()];
    c.op("td.consts", &consts.iter().map(show).collect::<Vec<_>>().join(" "));
    let want = [-NS_MAX, NS_MAX, 0, -NS_MAX, NS_MAX];
    for (d, w) in consts.iter().zip(want) {
        if ns_of(d) != w || !inv(d) {
            c.fail("TimeDelta::MIN / MAX / zero / min_value / max_value is not -(2^63-1) ms / (2^63-1) ms / 0", &show(d));
        }
    }
    if TimeDelta::default() != TimeDelta::zero() {
        c.fail("TimeDelta::default() is not the zero duration", "");
    }
    // ---- panicking constructors at their exact overflow thresholds --------------------------------
    type Ctor = (&'static str, i128, fn(i64) -> TimeDelta, fn(i64) -> Option<TimeDelta>);
    let ctors: [Ctor; 6] = [
        ("weeks", 604_800_000_000_000, TimeDelta::weeks, TimeDelta::try_weeks),
        ("days", 86_400_000_000_000, TimeDelta::days, TimeDelta::try_days),
        ("hours", 3_600_000_000_000, TimeDelta::hours, TimeDelta::try_hours),
        ("minutes", 60_000_000_000, TimeDelta::minutes, TimeDelta::try_minutes),
        ("seconds", 1_000_000_000, TimeDelta::seconds, TimeDelta::try_seconds),
        ("milliseconds", 1_000_000, TimeDelta::milliseconds, TimeDelta::try_milliseconds),
    ];
    for (name, factor, f, tf) in ctors.iter() {
        let mut args: Vec<i64> = vec![0, 1, -1, i64::MAX, i64::MIN, i64::MAX - 1, i64::MIN + 1, -i64::MAX, -i64::MAX + 1];
        let top = (NS_MAX / factor) as i64; // largest accepted argument
        for d in -3..=3i64 {
            args.push(top.saturating_add(d));
            args.push((-top).saturating_add(d));
            // where the multiplication by the unit leaves i64
            let unit = (factor / 1_000_000_000).max(1) as i64;
            args.push((i64::MAX / unit).saturating_add(d));
            args.push((i64::MIN / unit).saturating_add(d));
        }
        let extra = c.n(1500, 20000);
        for _ in 0..extra {
            args.push(c.rng.log_i64());
        }
        for a in args {
            let got = guard(|| f(a));
            c.op(&format!("td.unit {name} {a}"), &rd(&got));
            let exact = a as i128 * factor;
            c.count(if got.is_ok() { "ctor:ok" } else { "ctor:panic" });
            match &got {
                Ok(d) => {
                    if ns_of(d) != exact || !inv(d) {
                        c.fail("panicking constructor is not exact", &format!("{name}({a}) -> {}", show(d)));
                    }
                }
                Err(()) => {
                    if in_range(exact) {
                        c.fail("panicking constructor panics on an in-range value", &format!("{name}({a})"));
                    }
                }
            }
            if guard(|| tf(a)).ok().flatten().map(|d| show(&d)) != got.as_ref().ok().map(show) {
                c.fail("panicking constructor and its try_ form disagree", &format!("{name}({a})"));
            }
        }
    }
    // ---- operators + - += -=, derived relations --------------------------------------------------
    let n_bin = c.n(20000, 300000);
    for i in 0..n_bin {
        let a = if i % 5 == 0 { *c.rng.pick(&vals[..10]) } else { gen_valid(c) };
        let b = match c.rng.below(8) {
            0 => TimeDelta::MAX.checked_sub(&a).unwrap_or(TimeDelta::MAX),
            1 => a.checked_sub(&TimeDelta::MIN).unwrap_or(TimeDelta::MIN),
            2 => TimeDelta::MAX
                .checked_sub(&a)
                .and_then(|x| x.checked_add(&TimeDelta::nanoseconds(c.rng.range(-2, 2))))
                .unwrap_or(TimeDelta::zero()),
            3 => a
                .checked_sub(&TimeDelta::MIN)
                .and_then(|x| x.checked_add(&TimeDelta::nanoseconds(c.rng.range(-2, 2))))
                .unwrap_or(TimeDelta::zero()),
            4 => *c.rng.pick(&vals[..10]),
            // equal and nearly equal partners (for the relations)
            5 => a.checked_add(&TimeDelta::nanoseconds(c.rng.range(-1, 1))).unwrap_or(a),
            _ => gen_valid(c),
        };
        let (s1, n1) = raw(&a);
        let (s2, n2) = raw(&b);
        let (ea, eb) = (ns_of(&a), ns_of(&b));
        let add = guard(|| a + b);
        let sub = guard(|| a - b);
        let add_as = guard(|| {
            let mut x = a;
            x += b;
            x
        });
        let sub_as = guard(|| {
            let mut x = a;
            x -= b;
            x
        });
        c.op(&format!("td.op_add {s1} {n1} {s2} {n2}"), &rd(&add));
        c.op(&format!("td.op_sub {s1} {n1} {s2} {n2}"), &rd(&sub));
        c.op(&format!("td.op_add_assign {s1} {n1} {s2} {n2}"), &rd(&add_as));
        c.op(&format!("td.op_sub_assign {s1} {n1} {s2} {n2}"), &rd(&sub_as));
        c.count(if in_range(ea + eb) { "op_add:in-range" } else { "op_add:panic" });
        c.count(if in_range(ea - eb) { "op_sub:in-range" } else { "op_sub:panic" });
        for (name, res, exact) in [("+", &add, ea + eb), ("-", &sub, ea - eb), ("+=", &add_as, ea + eb), ("-=", &sub_as, ea - eb)] {
            match res {
                Ok(r) => {
                    if ns_of(r) != exact || !inv(r) {
                        c.fail(&format!("operator {name} is not exact"), &format!("{s1} {n1} {s2} {n2} -> {}", show(r)));
                    }
                }
                Err(()) => {
                    if in_range(exact) {
                        c.fail(&format!("operator {name} panics on a representable result"), &format!("{s1} {n1} {s2} {n2}"));
                    }
                }
            }
        }
        // derived PartialEq / PartialOrd
        let rel = gs(
            || (a == b, a.partial_cmp(&b).map(|o| o as i32), a < b, a <= b, a > b, a >= b),
            |t| format!("{} {} {} {} {} {}", b01(t.0), opt(t.1), b01(t.2), b01(t.3), b01(t.4), b01(t.5)),
        );
        c.op(&format!("td.rel {s1} {n1} {s2} {n2}"), &rel);
        let want = format!(
            "{} {} {} {} {} {}",
            b01(ea == eb), ea.cmp(&eb) as i32, b01(ea < eb), b01(ea <= eb), b01(ea > eb), b01(ea >= eb)
        );
        c.count(if ea == eb { "rel:equal" } else if (ea - eb).abs() == 1 { "rel:1ns-apart" } else { "rel:other" });
        if rel != want {
            c.fail("==, partial_cmp, <, <=, >, >= disagree with numeric order", &format!("{s1} {n1} {s2} {n2} -> {rel}"));
        }
    }
    // ---- operators * / (all i32 classes, i32::MIN as divisor in particular) -----------------------
    let n_mul = c.n(20000, 300000);
    for i in 0..n_mul {
        let a = if i % 4 == 0 { *c.rng.pick(&vals[..10]) } else { gen_valid(c) };
        let k = if i % 16 == 1 { i32::MIN } else { gen_i32(c) };
        // one case in eight: the multiplier that just fits / just does not fit
        let k = if i % 8 == 2 && ns_of(&a) != 0 {
            ((NS_MAX / ns_of(&a)).clamp(i32::MIN as i128, i32::MAX as i128) as i32).saturating_add(c.rng.range(-1, 1) as i32)
        } else {
            k
        };
        let (s, n) = raw(&a);
        let ea = ns_of(&a);
        let mul = guard(|| a * k);
        c.op(&format!("td.op_mul {s} {n} {k}"), &rd(&mul));
        let exact = ea * k as i128;
        c.count(if in_range(exact) { "op_mul:in-range" } else { "op_mul:panic" });
        match &mul {
            Ok(r) => {
                if ns_of(r) != exact || !inv(r) {
                    c.fail("operator * returned a wrong or out-of-range value", &format!("td.op_mul {s} {n} {k} -> {}", show(r)));
                }
            }
            Err(()) => {
                if in_range(exact) {
                    c.fail("operator * panics on a representable result", &format!("td.op_mul {s} {n} {k}"));
                }
            }
        }
        let div = guard(|| a / k);
        c.op(&format!("td.op_div {s} {n} {k}"), &rd(&div));
        c.count(if k == 0 { "op_div:by-zero" } else if k == i32::MIN { "op_div:by-i32::MIN" } else { "op_div:other" });
        match &div {
            Ok(r) => {
                let err = (ns_of(r) * k as i128 - ea).abs();
                if k == 0 || err >= 2 * (k as i128).abs() || !inv(r) {
                    c.fail("operator / is off by two nanoseconds or more", &format!("td.op_div {s} {n} {k} -> {}", show(r)));
                }
            }
            Err(()) => {
                if k != 0 {
                    c.fail("operator / panics on a non-zero divisor", &format!("td.op_div {s} {n} {k}"));
                }
            }
        }
        if k == i32::MIN {
            // checked_div by i32::MIN: never refused, never panics, within two nanoseconds
            let cd = guard(|| a.checked_div(k));
            c.op(&format!("td.div {s} {n} {k}"), &match &cd { Ok(o) => so(*o), Err(()) => "panic".into() });
            match &cd {
                Ok(Some(r)) => {
                    let err = (ns_of(r) * k as i128 - ea).abs();
                    if err >= 2 * (k as i128).abs() || !inv(r) {
                        c.fail("checked_div is off by two nanoseconds or more", &format!("td.div {s} {n} {k} -> {}", show(r)));
                    }
                }
                Ok(None) => c.fail("checked_div refuses a non-zero divisor", &format!("td.div {s} {n} {k}")),
                Err(()) => c.fail("checked_div panicked", &format!("td.div {s} {n} {k}")),
            }
        }
    }
    // ---- is_zero, every accessor, canonical Display text, to_std: judged against the exact count ----
    let mut vs: Vec<TimeDelta> = vals[..10].to_vec();
    for k in -3..=3 {
        vs.push(TimeDelta::nanoseconds(k));
        vs.push(TimeDelta::MAX.checked_sub(&TimeDelta::nanoseconds(k.abs())).unwrap());
        vs.push(TimeDelta::MIN.checked_add(&TimeDelta::nanoseconds(k.abs())).unwrap());
        // around the ends of the i64 microsecond / nanosecond counts
        for base in [i64::MAX as i128, i64::MIN as i128] {
            for unit in [1i128, 1000] {
                let e = base * unit + k as i128 * unit + k as i128;
                if let Some(d) = TimeDelta::new(e.div_euclid(1_000_000_000) as i64, e.rem_euclid(1_000_000_000) as u32) {
                    vs.push(d);
                }
            }
        }
    }
    let n_vs = c.n(8000, 100000);
    for _ in 0..n_vs {
        let v = gen_valid(c);
        vs.push(v);
    }
    for d in &vs {
        let (s, n) = raw(d);
        let exact = ns_of(d);
        let acc = guard(|| {
            (
                d.num_weeks(), d.num_days(), d.num_hours(), d.num_minutes(), d.num_seconds(), d.num_milliseconds(),
                d.num_microseconds(), d.num_nanoseconds(), d.subsec_millis(), d.subsec_micros(), d.subsec_nanos(), d.is_zero(),
            )
        });
        c.op(
            &format!("td.acc {s} {n}"),
            &match &acc {
                Ok(t) => format!(
                    "{} {} {} {} {} {} {} {} {} {} {} {}",
                    t.0, t.1, t.2, t.3, t.4, t.5, opt(t.6), opt(t.7), t.8, t.9, t.10, b01(t.11)
                ),
                Err(()) => "panic".into(),
            },
        );
        match &acc {
            Ok(t) => {
                let fit = |x: i128| if x >= i64::MIN as i128 && x <= i64::MAX as i128 { Some(x as i64) } else { None };
                let sub = exact % 1_000_000_000; // truncating remainder: sign of the count
                let ok = t.0 as i128 == exact / 604_800_000_000_000
                    && t.1 as i128 == exact / 86_400_000_000_000
                    && t.2 as i128 == exact / 3_600_000_000_000
                    && t.3 as i128 == exact / 60_000_000_000
                    && t.4 as i128 == exact / 1_000_000_000
                    && t.5 as i128 == exact / 1_000_000
                    && t.6 == fit(exact / 1000)
                    && t.7 == fit(exact)
                    && t.8 as i128 == sub / 1_000_000
                    && t.9 as i128 == sub / 1000
                    && t.10 as i128 == sub;
                if !ok {
                    c.fail("an accessor does not return the count truncated toward zero", &format!("td.acc {s} {n} -> {t:?}"));
                }
                c.count(if t.6.is_none() { "acc:micros-none" } else if t.7.is_none() { "acc:nanos-none" } else { "acc:all-some" });
                if t.11 != (exact == 0) {
                    c.fail("is_zero disagrees with the nanosecond count", &format!("{s} {n} -> {}", t.11));
                }
            }
            Err(()) => c.fail("an accessor panicked", &format!("td.acc {s} {n}")),
        }
        match guard(|| d.to_string()) {
            Ok(text) => {
                c.op(&format!("td.display {s} {n}"), &hex(text.as_bytes()));
                if text != ref_display(exact) {
                    c.fail("Display is not the canonical text of the exact decimal number of seconds", &format!("{s} {n} -> {text}, expected {}", ref_display(exact)));
                }
                // formatter flags (width, fill, alignment, sign, precision, alternate form) are outside the statement
                // and the model has no formatter state: today `fmt` ignores them, i.e. the model's text is what every
                // `{…}` form prints; if that ever changes this message separates it from a wrong plain text
                match guard(|| {
                    [format!("{d:>30}"), format!("{d:<30}"), format!("{d:^31}"), format!("{d:*>40}"), format!("{d:030}"), format!("{d:+}"),
                     format!("{d:.2}"), format!("{d:#}"), format!("{d:w$}", w = 33), format!("{d:+012.3}")]
                }) {
                    Ok(forms) => {
                        c.count_n("call:Display.flags", forms.len() as u64);
                        if let Some(f) = forms.iter().find(|f| **f != text) {
                            c.fail("formatter-flags: Display under width / fill / sign / precision flags is not the plain `{}` text (outside the model)", &format!("{s} {n} -> {f:?} vs {text:?}"));
                        }
                    }
                    Err(()) => c.fail("formatter-flags: Display panicked under formatter flags", &format!("{s} {n}")),
                }
            }
            Err(()) => c.fail("Display panicked", &format!("{s} {n}")),
        }
        // float views (outside the model): within a few units in the last place of the exact quotient;
        // the error is absolute in the magnitude of the seconds field (cancellation for e.g. -1 s + 999999999 ns)
        match guard(|| (d.as_seconds_f64(), d.as_seconds_f32())) {
            Ok((f, g)) => {
                let r = exact as f64 / 1e9;
                let mag = (s as f64).abs().max(1.0);
                if !((f - r).abs() <= 4.0 * f64::EPSILON * mag) || !((g as f64 - r).abs() <= 4.0 * f32::EPSILON as f64 * mag) {
                    c.fail("as_seconds_f64 / as_seconds_f32 is not the count divided by 10^9 (to float accuracy)", &format!("{s} {n} -> {f:e} {g:e}, expected {r:e}"));
                }
            }
            Err(()) => c.fail("as_seconds_f64 / as_seconds_f32 panicked", &format!("{s} {n}")),
        }
        match guard(|| d.to_std().ok()) {
            Ok(Some(x)) => {
                if exact < 0 || x.as_nanos() as i128 != exact {
                    c.fail("to_std is not exact", &format!("{s} {n}"));
                }
            }
            Ok(None) => {
                if exact >= 0 {
                    c.fail("to_std refuses a non-negative duration", &format!("{s} {n}"));
                }
            }
            Err(()) => c.fail("to_std panicked", &format!("{s} {n}")),
        }
    }
    // ---- from_std exactly at the top of the range ------------------------------------------------
    let n_std = c.n(3000, 30000);
    for i in 0..n_std {
        let s: u64 = match i % 4 {
            0 => (MAX_S + c.rng.range(-1, 1)) as u64,
            1 => c.rng.next(),
            2 => c.rng.below(1_000_000),
            _ => *c.rng.pick(&[0u64, 1, u64::MAX, i64::MAX as u64, i64::MAX as u64 + 1, 1u64 << 63, (1u64 << 63) + MAX_S as u64]),
        };
        let n: u32 = match c.rng.below(3) {
            0 => (MAX_N as i64 + c.rng.range(-2, 2)) as u32,
            1 => *c.rng.pick(&[0, 1, 999_999_999]),
            _ => c.rng.nanos(),
        };
        let exact = s as i128 * 1_000_000_000 + n as i128;
        let got = guard(|| TimeDelta::from_std(Duration::new(s, n)).ok());
        c.op(&format!("td.from_std {s} {n}"), &match &got { Ok(o) => so(*o), Err(()) => "panic".into() });
        c.count(if in_range(exact) { "from_std:in-range" } else { "from_std:out-of-range" });
        match &got {
            Ok(Some(d)) => {
                if ns_of(d) != exact || !inv(d) {
                    c.fail("from_std is not exact", &format!("{s} {n} -> {}", show(d)));
                }
            }
            Ok(None) => {
                if in_range(exact) {
                    c.fail("from_std refuses a representable duration", &format!("{s} {n}"));
                }
            }
            Err(()) => c.fail("from_std panicked", &format!("{s} {n}")),
        }
    }
}

fn hash_of(d: &TimeDelta) -> u64 {
    use std::hash::{Hash, Hasher};
    let mut h = std::collections::hash_map::DefaultHasher::new();
    d.hash(&mut h);
    h.finish()
}

/// second audit: the deserialising constructor (constructor view only; serde round trips belong to C20), and the
/// derived `PartialEq` / `Eq` / `PartialOrd` / `Ord` / `Hash` of `struct TimeDelta { secs, nanos }` — the derive list
/// is an attribute, which the pin tokenizer drops, so field order and derive semantics are judged here on directed pairs
fn round2(c: &mut Ctx, vals: &[TimeDelta]) {
    // ---- impl Deserialize: new(secs, nanos as u32) on the (i64, i32) tuple -------------------------
    let mut grid: Vec<(i64, i32)> = Vec::new();
    let secs_b: Vec<i64> = {
        let mut v = vec![0, 1, -1, i64::MAX, i64::MIN, i64::MAX - 1, i64::MIN + 1];
        for d in -2..=2 {
            v.push(MAX_S + d);
            v.push(MIN_S + d);
        }
        v
    };
    let nanos_b: Vec<i32> = {
        let mut v = vec![0, 1, -1, -2, i32::MAX, i32::MAX - 1, i32::MIN, i32::MIN + 1, -1_000_000_000, -999_999_999, -807_000_000, -193_000_000];
        for d in -2i32..=2 {
            for b in [MAX_N as i32, MIN_N as i32, 1_000_000_000, 2_000_000_000] {
                v.push(b + d);
            }
        }
        v
    };
    for &s in &secs_b {
        for &n in &nanos_b {
            grid.push((s, n));
        }
    }
    let n_de = c.n(4000, 60000);
    for _ in 0..n_de {
        let (s, n) = gen_pair(c);
        let n = match c.rng.below(8) {
            0 => c.rng.next() as i32,
            1 => -(n as i32),
            _ => n as i32,
        };
        let s = if c.rng.chance(1, 16) { c.rng.next() as i64 } else { s };
        grid.push((s, n));
    }
    for (s, n) in grid {
        let text = format!("[{s},{n}]");
        let got = guard(|| serde_json::from_str::<TimeDelta>(&text).ok());
        c.count_n("call:TimeDelta.deserialize", 1);
        c.op(&format!("td.de {s} {n}"), &match &got { Ok(o) => so(*o), Err(()) => "panic".into() });
        let exact = s as i128 * 1_000_000_000 + n as i128;
        let valid = (0..1_000_000_000).contains(&n) && in_range(exact);
        c.count(if valid { "de:valid" } else if n < 0 { "de:negative-nanos" } else { "de:out-of-range" });
        match &got {
            Ok(Some(d)) => {
                if !inv(d) {
                    c.fail("deserialisation built a TimeDelta that violates the invariant", &format!("{text} -> {}", show(d)));
                } else if raw(d) != (s, n) {
                    c.fail("deserialisation built a value other than the (secs, nanos) pair it was given", &format!("{text} -> {}", show(d)));
                }
            }
            Ok(None) => {
                if valid {
                    c.fail("deserialisation refuses a valid (secs, nanos) pair", &text);
                }
            }
            Err(()) => c.fail("deserialisation panicked", &text),
        }
    }
    // numbers outside (i64, i32) and other shapes never reach `new`: an error, not a panic and not a value
    for text in [
        "[0,2147483648]", "[0,-2147483649]", "[0,4294967295]", "[0,4294967296]", "[9223372036854775808,0]", "[-9223372036854775809,0]",
        "[0]", "[0,0,0]", "[]", "[0.5,0]", "[0,0.5]", "[0,1e3]", "[\"0\",0]", "[null,0]", "{\"secs\":0,\"nanos\":0}", "0", "\"PT0S\"", "null",
    ] {
        match guard(|| serde_json::from_str::<TimeDelta>(text).ok()) {
            Ok(None) => {}
            Ok(Some(d)) => c.fail("deserialisation accepts a text that is not an (i64, i32) pair", &format!("{text} -> {}", show(&d))),
            Err(()) => c.fail("deserialisation panicked", text),
        }
        c.count("de:malformed");
    }

    // ---- derived Eq / Ord / Hash on directed pairs ---------------------------------------------------
    // partners of a = (s, n) that differ from it in exactly one field; the numeric order of such a pair is the order
    // of that field, whichever order the fields are declared in — and for a pair that differs in both fields in
    // opposite directions (s+1, n-d) the order is that of secs: only `secs` before `nanos` compares these correctly
    let n_dir = c.n(6000, 80000);
    for i in 0..n_dir {
        let a = if i % 4 == 0 { *c.rng.pick(&vals[..10]) } else { gen_valid(c) };
        let (s, n) = raw(&a);
        let ds = match c.rng.below(3) { 0 => 1, 1 => -1, _ => c.rng.range(-1000, 1000) };
        let dn = match c.rng.below(3) { 0 => 1, 1 => -1, _ => c.rng.range(-999_999_999, 999_999_999) as i32 };
        let cands = [
            (s.saturating_add(ds), n),                 // secs only
            (s, n + dn),                               // nanos only
            (s + 1, n - dn.abs()),                     // secs up, nanos down
            (s - 1, n + dn.abs()),                     // secs down, nanos up
            (s, n),                                    // equal, built through another route
        ];
        for (k, (s2, n2)) in cands.into_iter().enumerate() {
            if !(0..1_000_000_000).contains(&n2) {
                continue;
            }
            let b = match TimeDelta::new(s2, n2 as u32) {
                Some(b) => b,
                None => continue,
            };
            let (ea, eb) = (ns_of(&a), ns_of(&b));
            c.count(["dir:secs-only", "dir:nanos-only", "dir:secs-up-nanos-down", "dir:secs-down-nanos-up", "dir:equal"][k]);
            let got = gs(
                || (a == b, a != b, a.cmp(&b) as i32, a.partial_cmp(&b).map(|o| o as i32), a.max(b) == b, a.min(b) == b, hash_of(&a) == hash_of(&b)),
                |t| format!("{} {} {} {} {} {} {}", b01(t.0), b01(t.1), t.2, opt(t.3), b01(t.4), b01(t.5), b01(t.6)),
            );
            c.op(&format!("td.cmp {s} {n} {s2} {n2}"), &gs(|| a.cmp(&b) as i32, |x| x.to_string()));
            let ord = ea.cmp(&eb) as i32;
            // hash: equal values hash equal (required); for unequal values the column is not judged
            let parts: Vec<&str> = got.split(' ').collect();
            let want = format!("{} {} {} {} {} {}", b01(ea == eb), b01(ea != eb), ord, ord, b01(eb >= ea), b01(eb <= ea));
            if parts.len() != 7 || parts[..6].join(" ") != want {
                c.fail("derived ==, !=, cmp, partial_cmp, max, min disagree with the numeric order on a pair differing in one field (or in both, in opposite directions)", &format!("{s} {n} vs {s2} {n2} -> {got}, expected {want}"));
            }
            if ea == eb && parts.len() == 7 && parts[6] != "1" {
                c.fail("equal TimeDelta values hash differently", &format!("{s} {n} vs {s2} {n2}"));
            }
        }
        // equal values reached through arithmetic hash equal and compare equal
        let b = gen_valid(c);
        if let Some(x) = a.checked_add(&b).and_then(|x| x.checked_sub(&b)) {
            if x != a || x.cmp(&a) as i32 != 0 || hash_of(&x) != hash_of(&a) {
                c.fail("(a + b) - b is not equal to a under derived Eq / Ord / Hash", &format!("{} ; {}", show(&a), show(&b)));
            }
            c.count("dir:equal-by-arithmetic");
        }
    }
    for (x, y) in [
        (TimeDelta::seconds(1), TimeDelta::milliseconds(1000)),
        (TimeDelta::zero(), TimeDelta::default()),
        (TimeDelta::nanoseconds(-1), TimeDelta::new(-1, 999_999_999).unwrap()),
        (TimeDelta::MAX, TimeDelta::milliseconds(i64::MAX)),
        (TimeDelta::MIN, -TimeDelta::MAX),
    ] {
        if x != y || hash_of(&x) != hash_of(&y) || x.cmp(&y) as i32 != 0 {
            c.fail("two constructions of the same duration are not equal under derived Eq / Ord / Hash", &format!("{} ; {}", show(&x), show(&y)));
        }
    }
}
