//! C15 — fallible operations fail by value, not by panic or hang.
//! Extremes sweep over the public non-deprecated fallible entry points (every call under
//! `catch_unwind`; returned values are checked against the type's range), arbitrary Unicode text and
//! format strings through every parser entry point, and termination of `StrftimeItems`.
use crate::ctx::*;
use chrono::format::{Item, Parsed, StrftimeItems};
use chrono::{
    DateTime, Datelike, Days, DurationRound, FixedOffset, Local, Month, Months, NaiveDate, NaiveDateTime, NaiveTime, SecondsFormat,
    SubsecRound, TimeDelta, TimeZone, Timelike, Utc, Weekday,
};

const WD: [Weekday; 7] =
    [Weekday::Mon, Weekday::Tue, Weekday::Wed, Weekday::Thu, Weekday::Fri, Weekday::Sat, Weekday::Sun];

macro_rules! t {
    ($c:expr, $name:expr, $args:expr, $e:expr) => {{
        $c.count(concat!("call:", $name));
        match guard(|| $e) {
            Ok(v) => Some(v),
            Err(()) => {
                $c.fail(concat!("panic in fallible operation ", $name), &format!("{:?}", $args));
                None
            }
        }
    }};
}

fn date_ok(d: &NaiveDate) -> bool {
    *d >= NaiveDate::MIN && *d <= NaiveDate::MAX && guard(|| format!("{:?} {} {}", d, d.ordinal(), d.iso_week().week())).is_ok()
}
fn dt_ok(d: &NaiveDateTime) -> bool {
    // a leap-second representation on the last second of NaiveDate::MAX is a valid value that sorts
    // after NaiveDateTime::MAX, so the range is judged on the date and the time separately
    date_ok(&d.date()) && d.time().nanosecond() < 2_000_000_000 && d.time().num_seconds_from_midnight() < 86_400 && guard(|| format!("{:?}", d)).is_ok()
}
fn zoned_ok<Tz: TimeZone>(d: &DateTime<Tz>) -> bool
where
    Tz::Offset: std::fmt::Display,
{
    dt_ok(&d.naive_utc()) && guard(|| format!("{:?} {}", d.naive_utc(), d.to_rfc3339())).is_ok()
}
fn delta_ok(d: &TimeDelta) -> bool {
    *d >= TimeDelta::MIN && *d <= TimeDelta::MAX && (0..1_000_000_000).contains(&super::c06::raw(d).1)
}

fn i32s() -> Vec<i32> {
    let mut v: Vec<i32> = int_extremes().into_iter().filter_map(|x| i32::try_from(x).ok()).collect();
    v.extend([-262144, -262143, -262142, 262141, 262142, 262143, 262144, 1970, 2000, 2024, 400, -400, 366, 365, 53, 12, 31]);
    v.sort();
    v.dedup();
    v
}
fn u32s() -> Vec<u32> {
    let mut v: Vec<u32> = int_extremes().into_iter().filter_map(|x| u32::try_from(x).ok()).collect();
    v.extend([0, 1, 2, 11, 12, 13, 23, 24, 28, 29, 30, 31, 32, 52, 53, 54, 59, 60, 61, 365, 366, 367, 999, 1000, 86399, 86400, 999_999_999, 1_000_000_000, 1_999_999_999, 2_000_000_000]);
    v.sort();
    v.dedup();
    v
}
fn i64s() -> Vec<i64> {
    let mut v: Vec<i64> = int_extremes().into_iter().filter_map(|x| i64::try_from(x).ok()).collect();
    for b in [
        -8_334_601_228_800i64, 8_210_266_876_799, -62_167_219_200, 253_402_300_799, 86_400, -86_400, 9_223_372_036_854_775, -9_223_372_036_854_776,
        9_223_372_036, -9_223_372_037, 106_751_991_167, -106_751_991_167,
    ] {
        for d in -1..=1 {
            v.push(b + d);
        }
    }
    v.sort();
    v.dedup();
    v
}
fn dates() -> Vec<NaiveDate> {
    let mut v = vec![NaiveDate::MIN, NaiveDate::MAX];
    for (y, m, d) in [
        (-262143, 1, 2), (-262143, 12, 31), (-262142, 1, 1), (262142, 12, 30), (262142, 1, 1), (262141, 12, 31), (1970, 1, 1), (1969, 12, 31),
        (2024, 2, 29), (2023, 2, 28), (2000, 12, 31), (1900, 3, 1), (0, 1, 1), (0, 12, 31), (-1, 12, 31), (1, 1, 1), (9999, 12, 31), (10000, 1, 1),
        (2024, 1, 31), (2024, 3, 31), (2024, 12, 30),
    ] {
        v.push(NaiveDate::from_ymd_opt(y, m, d).unwrap());
    }
    v
}
fn times() -> Vec<NaiveTime> {
    let mut v = vec![NaiveTime::MIN];
    for (s, n) in [(0u32, 1u32), (86399, 999_999_999), (86399, 1_999_999_999), (86399, 1_000_000_000), (59, 1_500_000_000), (43200, 0), (3599, 1_000_000_000), (86340, 0), (1, 0)] {
        v.push(NaiveTime::from_num_seconds_from_midnight_opt(s, n).unwrap());
    }
    v
}
fn deltas() -> Vec<TimeDelta> {
    let mut v = vec![TimeDelta::MIN, TimeDelta::MAX, TimeDelta::zero()];
    for n in [1i64, -1, 999_999_999, -999_999_999, 1_000_000_000, -1_000_000_000, 86_400_000_000_000, -86_400_000_000_000, i64::MAX, i64::MIN] {
        v.push(TimeDelta::nanoseconds(n));
    }
    for s in [86_400i64, -86_400, 86_399, 31_536_000, 8_210_266_876_799, 16_544_868_105_599, -16_544_868_105_599, 9_223_372_036_854_775, -9_223_372_036_854_775] {
        if let Some(d) = TimeDelta::try_seconds(s) {
            v.push(d);
        }
    }
    v
}
fn offsets() -> Vec<FixedOffset> {
    [0, 1, -1, 60, -60, 3600, -3600, 19800, 43200, -43200, 86399, -86399, 86340, -86340, 1800, 45296]
        .iter()
        .map(|s| FixedOffset::east_opt(*s).unwrap())
        .collect()
}

/// a minimal TZif version-1 file: no transitions, one local time type with the given UTC offset
fn one_type_tzif(utoff: i32) -> Vec<u8> {
    let mut b = b"TZif".to_vec();
    b.push(0); // version 1
    b.extend_from_slice(&[0u8; 15]);
    for count in [0u32, 0, 0, 0, 1, 4] {
        // isutcnt, isstdcnt, leapcnt, timecnt, typecnt, charcnt
        b.extend_from_slice(&count.to_be_bytes());
    }
    b.extend_from_slice(&utoff.to_be_bytes());
    b.extend_from_slice(&[0, 0]); // is_dst = 0, designation index 0
    b.extend_from_slice(b"AAA\0");
    b
}

/// every `Local` entry point that turns an instant or a wall-clock value into a `DateTime<Local>`, on the
/// current thread (the caller has set `TZ` and spawned this thread: the zone is read per thread);
/// each call under `catch_unwind`; the result is (call, arguments, outcome), `Err(())` = panic
fn local_calls() -> Vec<(&'static str, String, Result<String, ()>)> {
    use chrono::MappedLocalTime as M;
    fn show(m: M<DateTime<Local>>) -> String {
        match m {
            M::None => "None".to_string(),
            M::Single(d) => format!("Single({} {})", d.naive_utc(), d.offset().local_minus_utc()),
            M::Ambiguous(a, b) => format!("Ambiguous({} {}, {} {})", a.naive_utc(), a.offset().local_minus_utc(), b.naive_utc(), b.offset().local_minus_utc()),
        }
    }
    const NDT_MIN_TS: i64 = -8_334_601_228_800;
    const NDT_MAX_TS: i64 = 8_210_266_876_799;
    let secs = [0i64, -1, 1_719_835_200, 1_710_054_000, NDT_MIN_TS, NDT_MAX_TS, NDT_MIN_TS - 1, NDT_MAX_TS + 1, i64::MIN, i64::MAX];
    let mut out: Vec<(&'static str, String, Result<String, ()>)> = vec![];
    for s in secs {
        for ns in [0u32, 999_999_999, 1_999_999_999, u32::MAX] {
            out.push(("Local.timestamp_opt", format!("{s} {ns}"), guard(|| show(Local.timestamp_opt(s, ns)))));
        }
        out.push(("Local.timestamp_millis_opt", format!("{s}"), guard(|| show(Local.timestamp_millis_opt(s)))));
        out.push(("Local.timestamp_millis_opt", format!("{s}*1000"), guard(|| show(Local.timestamp_millis_opt(s.saturating_mul(1000))))));
        out.push(("Local.timestamp_micros", format!("{s}"), guard(|| show(Local.timestamp_micros(s)))));
        out.push(("Local.timestamp_micros", format!("{s}*10^6"), guard(|| show(Local.timestamp_micros(s.saturating_mul(1_000_000))))));
        out.push(("Local.timestamp_nanos", format!("{s}"), guard(|| {
            let d = Local.timestamp_nanos(s);
            format!("{} {}", d.naive_utc(), d.offset().local_minus_utc())
        })));
    }
    let ndts = [
        NaiveDateTime::MIN,
        NaiveDateTime::MAX,
        NaiveDate::from_ymd_opt(2024, 6, 1).unwrap().and_hms_opt(12, 0, 0).unwrap(),
        NaiveDate::from_ymd_opt(2024, 3, 10).unwrap().and_hms_opt(2, 30, 0).unwrap(),
        NaiveDate::from_ymd_opt(2024, 11, 3).unwrap().and_hms_opt(1, 30, 0).unwrap(),
        NaiveDate::from_ymd_opt(1970, 1, 1).unwrap().and_hms_opt(0, 0, 0).unwrap(),
        NaiveDate::from_ymd_opt(2016, 12, 31).unwrap().and_hms_milli_opt(23, 59, 59, 1_500).unwrap(),
    ];
    for n in ndts {
        out.push(("Local.from_utc_datetime", format!("{n:?}"), guard(|| {
            let d = Local.from_utc_datetime(&n);
            format!("{} {}", d.naive_utc(), d.offset().local_minus_utc())
        })));
        out.push(("Local.from_local_datetime", format!("{n:?}"), guard(|| show(Local.from_local_datetime(&n)))));
        out.push(("NaiveDateTime::and_local_timezone(Local)", format!("{n:?}"), guard(|| show(n.and_local_timezone(Local)))));
    }
    for (y, mo, d, h, mi, se) in [(2024, 6, 1, 12, 0, 0), (2024, 3, 10, 2, 30, 0), (262142, 12, 31, 23, 59, 59), (-262143, 1, 1, 0, 0, 0), (2024, 2, 30, 0, 0, 0), (2024, 1, 1, 24, 0, 0), (i32::MAX, 1, 1, 0, 0, 0)] {
        out.push(("Local.with_ymd_and_hms", format!("{y} {mo} {d} {h} {mi} {se}"), guard(|| show(Local.with_ymd_and_hms(y, mo, d, h, mi, se)))));
    }
    out.push(("Local::now", String::new(), guard(|| {
        let d = Local::now();
        format!("offset {}", d.offset().local_minus_utc())
    })));
    out
}

/// F32 (repaired by 770977e): the `MappedLocalTime`-typed entry points of `Local` under zones taken from
/// the environment — TZ strings and TZif files whose UTC offset is just below, at and beyond 24 hours.
/// A panic in any call is a failure; a zone below the bound must be honoured (its offset is reported), a
/// zone at or beyond it must be treated as unreadable zone data (the offset of the fallback is reported).
fn local_sweep(c: &mut Ctx) {
    let old = std::env::var("TZ").ok();
    let mut files: Vec<std::path::PathBuf> = vec![];
    // (TZ value, the fixed offset the zone prescribes if it is readable and fixed, must it be refused?)
    let mut zones: Vec<(String, Option<i32>, bool)> = vec![
        ("UTC0".into(), Some(0), false),
        ("AAA-23:59:59".into(), Some(86399), false),
        ("AAA23:59:59".into(), Some(-86399), false),
        ("AAA-24".into(), None, true),
        ("AAA24".into(), None, true),
        ("XXX24".into(), None, true),
        ("AAA-24:00".into(), None, true),
        ("AAA24:00:00".into(), None, true),
        ("AAA-24:00:01".into(), None, true),
        ("AAA24:00:01".into(), None, true),
        ("AAA-24:59:59".into(), None, true),
        ("AAA24:59:59".into(), None, true),
        ("XXX-24:30".into(), None, true),
        ("AAA5BBB24,M3.2.0,M11.1.0".into(), None, true),
        ("AAA5BBB-24,M3.2.0,M11.1.0".into(), None, true),
        ("XXX0YYY-24,M3.2.0,M11.1.0".into(), None, true),
        ("AAA5BBB-24:30,M3.2.0,M11.1.0".into(), None, true),
        ("AAA-23BBB,M3.2.0,M11.1.0".into(), None, true), // defaulted DST offset = +24:00
        ("AAA5BBB-23:59:59,M3.2.0,M11.1.0".into(), None, false),
        ("EST5EDT,M3.2.0,M11.1.0".into(), None, false),
    ];
    for (k, (utoff, refuse)) in [(86399i32, false), (-86399, false), (86400, true), (-86400, true), (90000, true), (-90000, true), (i32::MAX, true), (i32::MIN + 1, true), (i32::MIN, true)].into_iter().enumerate() {
        let path = std::env::temp_dir().join(format!("c15-{}-{k}.tzif", std::process::id()));
        if std::fs::write(&path, one_type_tzif(utoff)).is_ok() {
            zones.push((format!(":{}", path.display()), if refuse { None } else { Some(utoff) }, refuse));
            files.push(path);
        }
    }
    let probe = |tz: &str| -> Vec<(&'static str, String, Result<String, ()>)> {
        std::env::set_var("TZ", tz);
        std::thread::spawn(local_calls).join().unwrap_or_default()
    };
    // what an unreadable TZ value falls back to in this environment (C18: next source / UTC)
    let fallback: Vec<Result<String, ()>> = probe("/nonexistent/zone/of/c15").into_iter().filter(|x| x.0 != "Local::now").map(|x| x.2).collect();
    for (tz, fixed, refuse) in &zones {
        let res = probe(tz);
        if res.is_empty() {
            c.fail("panic in fallible operation Local.* (worker thread died)", &format!("TZ={tz}"));
            continue;
        }
        c.count(if *refuse { "local-sweep:zone at or beyond 24 h" } else { "local-sweep:zone below 24 h" });
        for (k, (name, args, r)) in res.iter().enumerate() {
            c.count(&format!("call:{name}"));
            match r {
                Err(()) => c.fail(&format!("panic in fallible operation {name} (zone from the environment)"), &format!("TZ={tz} args=({args})")),
                Ok(shown) => {
                    if *name == "Local::now" {
                        continue;
                    }
                    if *refuse {
                        // unreadable zone data: exactly the fallback's answer
                        if fallback.get(k) != Some(&Ok(shown.clone())) {
                            c.fail("a TZ value stating a UTC offset of 24 hours or more is not treated as unreadable zone data (F32)", &format!("TZ={tz} {name}({args}) -> {shown}, fallback -> {:?}", fallback.get(k)));
                        }
                    } else if let Some(off) = fixed {
                        // a readable fixed zone: every value handed out carries its offset
                        let bad = shown.split(|ch| ch == '(' || ch == ')' || ch == ',').filter(|p| p.contains(' ') || p.starts_with("offset"))
                            .filter_map(|p| p.trim().rsplit(' ').next().and_then(|o| o.parse::<i32>().ok())).any(|o| o != *off);
                        if bad {
                            c.fail("Local does not report the offset of a readable fixed-offset zone below 24 h", &format!("TZ={tz} {name}({args}) -> {shown}, want offset {off}"));
                        }
                    }
                }
            }
        }
    }
    match &old {
        Some(v) => std::env::set_var("TZ", v),
        None => std::env::remove_var("TZ"),
    }
    for p in files {
        let _ = std::fs::remove_file(p);
    }
}

// ---- Parsed::set_*: the setters by number, their documented value ranges, what they store ------------------
const N_SETTERS_RANDOM: usize = 21; // the setters the random Parsed sweep drives (0..=20); #21 = set_offset
fn parsed_set(p: &mut Parsed, k: usize, v: i64) -> chrono::format::ParseResult<()> {
    match k {
        0 => p.set_year(v),
        1 => p.set_year_div_100(v),
        2 => p.set_year_mod_100(v),
        3 => p.set_isoyear(v),
        4 => p.set_isoyear_div_100(v),
        5 => p.set_isoyear_mod_100(v),
        6 => p.set_quarter(v),
        7 => p.set_month(v),
        8 => p.set_week_from_sun(v),
        9 => p.set_week_from_mon(v),
        10 => p.set_isoweek(v),
        11 => p.set_weekday(WD[(v.rem_euclid(7)) as usize]),
        12 => p.set_ordinal(v),
        13 => p.set_day(v),
        14 => p.set_ampm(v % 2 == 0),
        15 => p.set_hour12(v),
        16 => p.set_hour(v),
        17 => p.set_minute(v),
        18 => p.set_second(v),
        19 => p.set_nanosecond(v),
        20 => p.set_timestamp(v),
        _ => p.set_offset(v),
    }
}
/// the values setter `k` must refuse with `OutOfRange` are exactly those outside this range (the documented
/// "# Errors" of each setter). `set_hour` is documented to refuse at least what a `u32` cannot hold ("may"
/// refuse beyond 23): only the `u32` bound is demanded of it. Weekday, am/pm and timestamp take every value.
fn parsed_range(k: usize) -> (i64, i64) {
    match k {
        0 | 3 | 21 => (i32::MIN as i64, i32::MAX as i64),
        1 | 4 => (0, i32::MAX as i64),
        2 | 5 => (0, 99),
        6 => (1, 4),
        7 | 15 => (1, 12),
        8 | 9 => (0, 53),
        10 => (1, 53),
        12 => (1, 366),
        13 => (1, 31),
        16 => (0, u32::MAX as i64),
        17 => (0, 59),
        18 => (0, 60),
        19 => (0, 999_999_999),
        _ => (i64::MIN, i64::MAX),
    }
}
/// the content of the field(s) setter `k` writes, mapped back to the argument that stores it
fn parsed_get(p: &Parsed, k: usize) -> Option<i64> {
    match k {
        0 => p.year.map(i64::from),
        1 => p.year_div_100.map(i64::from),
        2 => p.year_mod_100.map(i64::from),
        3 => p.isoyear.map(i64::from),
        4 => p.isoyear_div_100.map(i64::from),
        5 => p.isoyear_mod_100.map(i64::from),
        6 => p.quarter.map(i64::from),
        7 => p.month.map(i64::from),
        8 => p.week_from_sun.map(i64::from),
        9 => p.week_from_mon.map(i64::from),
        10 => p.isoweek.map(i64::from),
        11 => p.weekday.map(|w| w.num_days_from_monday() as i64),
        12 => p.ordinal.map(i64::from),
        13 => p.day.map(i64::from),
        14 => p.hour_div_12.map(i64::from),
        15 => p.hour_mod_12.map(|h| if h == 0 { 12 } else { h as i64 }),
        16 => match (p.hour_div_12, p.hour_mod_12) {
            (Some(d), Some(m)) => Some(d as i64 * 12 + m as i64),
            _ => None,
        },
        17 => p.minute.map(i64::from),
        18 => p.second.map(i64::from),
        19 => p.nanosecond.map(i64::from),
        20 => p.timestamp,
        _ => p.offset.map(i64::from),
    }
}
/// one `Parsed::set_*` call under `catch_unwind`, judged: a panic is a failure; a value outside the documented
/// range must come back as `Err(OutOfRange)`; `Ok` means the field holds exactly the value; a value inside the
/// range is refused only as `Impossible`, and only if the field was set before (`fresh` = it was not)
fn parsed_set_checked(c: &mut Ctx, p: &mut Parsed, k: usize, v: i64) {
    use chrono::format::ParseErrorKind as K;
    c.count("call:Parsed::set_*");
    let fresh = match k {
        16 => p.hour_div_12.is_none() && p.hour_mod_12.is_none(),
        _ => parsed_get(p, k).is_none(),
    };
    let r = guard(|| parsed_set(p, k, v));
    let (lo, hi) = parsed_range(k);
    let inside = lo <= v && v <= hi;
    let want = match k {
        11 => v.rem_euclid(7),
        14 => (v % 2 == 0) as i64,
        _ => v,
    };
    match r {
        Err(()) => c.fail(&format!("panic in fallible operation Parsed::set_* (setter #{k})"), &format!("setter #{k} value {v}")),
        Ok(Ok(())) => {
            c.count("parsed-set:ok");
            if !inside {
                c.fail("Parsed::set_* accepted a value outside the documented range of the field (must be Err(OutOfRange))", &format!("setter #{k} value {v} -> Ok, field {:?}", parsed_get(p, k)));
            } else if parsed_get(p, k) != Some(want) {
                c.fail("Parsed::set_* returned Ok but the field does not hold the value", &format!("setter #{k} value {v} -> field {:?}", parsed_get(p, k)));
            }
        }
        Ok(Err(e)) => match e.kind() {
            K::OutOfRange => {
                c.count("parsed-set:out-of-range");
                // set_hour documents 0-23 and "may" refuse beyond: refusing 24.. is within its contract
                if inside && !(k == 16 && v > 23) {
                    c.fail("Parsed::set_* refused a value inside the documented range of the field as OutOfRange", &format!("setter #{k} value {v}"));
                }
            }
            K::Impossible => {
                c.count("parsed-set:impossible");
                if !inside {
                    c.fail("Parsed::set_* reports a value the field cannot hold as Impossible, not OutOfRange", &format!("setter #{k} value {v}"));
                } else if fresh {
                    c.fail("Parsed::set_* reports Impossible on a field that was not set", &format!("setter #{k} value {v}"));
                }
            }
            other => c.fail("Parsed::set_* failed with an error kind it does not document", &format!("setter #{k} value {v} -> {:?}", other)),
        },
    }
}
/// every setter (incl. `set_offset`) on a fresh `Parsed`, at the boundaries of every field type and range
fn parsed_setter_sweep(c: &mut Ctx) {
    let mut vals: Vec<i64> = vec![
        i64::MIN, i64::MIN + 1, i32::MIN as i64 - 1, i32::MIN as i64, i32::MIN as i64 + 1, -262144, -100, -2, -1, 0, 1, 2, 3, 4, 5, 6, 7, 11, 12, 13, 23, 24, 30, 31, 32,
        52, 53, 54, 58, 59, 60, 61, 98, 99, 100, 365, 366, 367, 2024, 262143, 999_999_998, 999_999_999, 1_000_000_000, 1_999_999_999, i32::MAX as i64 - 1, i32::MAX as i64,
        i32::MAX as i64 + 1, u32::MAX as i64 - 1, u32::MAX as i64, u32::MAX as i64 + 1, u32::MAX as i64 + 13, (1i64 << 32) + 23, (1i64 << 33) + 5, i64::MAX - 1, i64::MAX,
    ];
    vals.sort();
    vals.dedup();
    for k in 0..=N_SETTERS_RANDOM {
        for &v in &vals {
            let mut p = Parsed::new();
            parsed_set_checked(c, &mut p, k, v);
            // a second, different in-range value on the same field: Impossible by value (or OutOfRange), no panic
            parsed_set_checked(c, &mut p, k, v.wrapping_add(1));
        }
    }
}

// ---- counts for `Days::new` / `Months::new`: the whole integer range, and around the length of the date range
fn day_counts() -> Vec<u64> {
    vec![
        0, 1, 2, 365, 366, 146_097, 191_491_528, 191_491_529, 191_491_530, 191_491_531, i32::MAX as u64 - 1, i32::MAX as u64, i32::MAX as u64 + 1,
        u32::MAX as u64 - 1, u32::MAX as u64, u32::MAX as u64 + 1, (1u64 << 32) + 1, i64::MAX as u64 - 1, i64::MAX as u64, i64::MAX as u64 + 1, i64::MAX as u64 + 2,
        u64::MAX - 191_491_530, u64::MAX - 1, u64::MAX,
    ]
}
fn month_counts() -> Vec<u32> {
    vec![
        0, 1, 2, 11, 12, 13, 1200, 3_145_727, 3_145_728, 3_145_729, 6_291_430, 6_291_431, 6_291_432, i32::MAX as u32 - 1, i32::MAX as u32, i32::MAX as u32 + 1,
        u32::MAX - 6_291_431, u32::MAX - 1, u32::MAX,
    ]
}
fn month_index(d: &NaiveDateTime) -> i64 {
    d.year() as i64 * 12 + d.month0() as i64
}

/// `NaiveDateTime`: calendar arithmetic with `Months`/`Days` counts over the whole integer range and the
/// `Datelike`/`Timelike` `with_*` methods, on the given base values. A panic is a failure; a `Some` result is
/// a valid value, exactly the stated number of months/days away with the time of day untouched (so a count
/// beyond the span of the type, or one that wraps to a small or negative number, can only be `None`), resp.
/// a value whose field is the requested one.
fn ndt_sweep(c: &mut Ctx, bases: &[NaiveDateTime]) {
    for b in bases {
        for n in month_counts() {
            for (sign, r) in [
                (1i64, t!(c, "NaiveDateTime::checked_add_months", (b, n), b.checked_add_months(Months::new(n)))),
                (-1, t!(c, "NaiveDateTime::checked_sub_months", (b, n), b.checked_sub_months(Months::new(n)))),
            ] {
                match r {
                    Some(Some(x)) => {
                        c.count("ndt-months:some");
                        if !dt_ok(&x) {
                            c.fail("operation built an invalid date-time", &format!("{:?} months {sign}*{n}", b));
                        } else if x.time() != b.time() || month_index(&x) - month_index(b) != sign * n as i64 {
                            c.fail("NaiveDateTime::checked_{add,sub}_months returned a value that is not the stated number of months away with the same time of day", &format!("{:?} months {sign}*{n} -> {:?}", b, x));
                        }
                    }
                    Some(None) => {
                        c.count("ndt-months:none");
                        if n == 0 {
                            c.fail("NaiveDateTime::checked_{add,sub}_months refuses a count of zero", &format!("{:?}", b));
                        }
                    }
                    None => {}
                }
            }
        }
        for n in day_counts() {
            for (sign, r) in [
                (1i64, t!(c, "NaiveDateTime::checked_add_days", (b, n), b.checked_add_days(Days::new(n)))),
                (-1, t!(c, "NaiveDateTime::checked_sub_days", (b, n), b.checked_sub_days(Days::new(n)))),
            ] {
                match r {
                    Some(Some(x)) => {
                        c.count("ndt-days:some");
                        if !dt_ok(&x) {
                            c.fail("operation built an invalid date-time", &format!("{:?} days {sign}*{n}", b));
                        } else if x.time() != b.time() || i128::from(x.date().signed_duration_since(b.date()).num_days()) != sign as i128 * n as i128 {
                            c.fail("NaiveDateTime::checked_{add,sub}_days returned a value that is not the stated number of days away with the same time of day", &format!("{:?} days {sign}*{n} -> {:?}", b, x));
                        }
                    }
                    Some(None) => {
                        c.count("ndt-days:none");
                        if n == 0 {
                            c.fail("NaiveDateTime::checked_{add,sub}_days refuses a count of zero", &format!("{:?}", b));
                        }
                    }
                    None => {}
                }
            }
        }
        for n in [
            0u32, 1, 2, 11, 12, 13, 23, 24, 28, 29, 30, 31, 32, 58, 59, 60, 61, 364, 365, 366, 367, 999_999_999, 1_000_000_000, 1_999_999_999, 2_000_000_000, i32::MAX as u32,
            i32::MAX as u32 + 1, u32::MAX - 1, u32::MAX,
        ] {
            let rs: [(Option<Option<NaiveDateTime>>, fn(&NaiveDateTime) -> u32); 10] = [
                (t!(c, "NaiveDateTime::with_month", (b, n), b.with_month(n)), <NaiveDateTime as Datelike>::month),
                (t!(c, "NaiveDateTime::with_month0", (b, n), b.with_month0(n)), <NaiveDateTime as Datelike>::month0),
                (t!(c, "NaiveDateTime::with_day", (b, n), b.with_day(n)), <NaiveDateTime as Datelike>::day),
                (t!(c, "NaiveDateTime::with_day0", (b, n), b.with_day0(n)), <NaiveDateTime as Datelike>::day0),
                (t!(c, "NaiveDateTime::with_ordinal", (b, n), b.with_ordinal(n)), <NaiveDateTime as Datelike>::ordinal),
                (t!(c, "NaiveDateTime::with_ordinal0", (b, n), b.with_ordinal0(n)), <NaiveDateTime as Datelike>::ordinal0),
                (t!(c, "NaiveDateTime::with_hour", (b, n), b.with_hour(n)), <NaiveDateTime as Timelike>::hour),
                (t!(c, "NaiveDateTime::with_minute", (b, n), b.with_minute(n)), <NaiveDateTime as Timelike>::minute),
                (t!(c, "NaiveDateTime::with_second", (b, n), b.with_second(n)), <NaiveDateTime as Timelike>::second),
                (t!(c, "NaiveDateTime::with_nanosecond", (b, n), b.with_nanosecond(n)), <NaiveDateTime as Timelike>::nanosecond),
            ];
            for (k, (r, get)) in rs.into_iter().enumerate() {
                if let Some(Some(x)) = r {
                    c.count("ndt-with:some");
                    if !dt_ok(&x) {
                        c.fail("operation built an invalid date-time", &format!("{:?} with_* #{k} arg {n}", b));
                    } else if guard(|| get(&x)) != Ok(n) {
                        c.fail("NaiveDateTime::with_* returned a value whose field is not the requested one", &format!("{:?} with_* #{k} arg {n} -> {:?}", b, x));
                    }
                } else if let Some(None) = r {
                    c.count("ndt-with:none");
                }
            }
        }
        for y in [i32::MIN, i32::MIN + 1, -262145, -262144, -262143, -262142, -401, -400, -1, 0, 1, 1970, 2023, 2024, 262141, 262142, 262143, 262144, i32::MAX - 1, i32::MAX] {
            if let Some(Some(x)) = t!(c, "NaiveDateTime::with_year", (b, y), b.with_year(y)) {
                if !dt_ok(&x) {
                    c.fail("operation built an invalid date-time", &format!("{:?} with_year {y}", b));
                } else if x.year() != y || x.time() != b.time() {
                    c.fail("NaiveDateTime::with_* returned a value whose field is not the requested one", &format!("{:?} with_year {y} -> {:?}", b, x));
                }
            }
        }
    }
}

/// `TimeZone::timestamp_micros` (the `MappedLocalTime`-typed one), `Month`/`Weekday` from integers
fn micros_and_enum_sweep(c: &mut Ctx, offs: &[FixedOffset]) {
    use chrono::MappedLocalTime as M;
    use num_traits::FromPrimitive;
    const MIN_US: i64 = -8_334_601_228_800_000_000; // NaiveDateTime::MIN, in microseconds since the epoch
    const MAX_US: i64 = 8_210_266_876_799_999_999; // the last microsecond of NaiveDateTime::MAX
    let mut us: Vec<i64> = i64s();
    for b in [MIN_US, MAX_US, 0, 1_000_000, -1_000_000, 999_999, -999_999, 1_431_648_000_000_000] {
        for d in -1..=1 {
            us.push(b + d);
        }
    }
    us.sort();
    us.dedup();
    fn judge<Tz: TimeZone>(c: &mut Ctx, what: &str, us: i64, r: Option<M<DateTime<Tz>>>)
    where
        Tz::Offset: std::fmt::Display,
    {
        let inside = (MIN_US..=MAX_US).contains(&us);
        match r {
            Some(M::Single(x)) => {
                c.count("timestamp_micros:single");
                if !zoned_ok(&x) {
                    c.fail("timestamp_micros built an out-of-range value", &format!("{what} {us}"));
                } else if !inside || guard(|| x.timestamp_micros()) != Ok(us) {
                    c.fail("TimeZone::timestamp_micros returned a value that is not the stated instant", &format!("{what} {us} -> {:?}", x.naive_utc()));
                }
            }
            Some(M::None) => {
                c.count("timestamp_micros:none");
                if inside {
                    c.fail("TimeZone::timestamp_micros refuses an instant inside the range of DateTime", &format!("{what} {us}"));
                }
            }
            Some(M::Ambiguous(..)) => c.fail("TimeZone::timestamp_micros is ambiguous for a fixed offset", &format!("{what} {us}")),
            None => {}
        }
    }
    for &u in &us {
        let r = t!(c, "TimeZone::timestamp_micros", ("Utc", u), Utc.timestamp_micros(u));
        judge(c, "Utc", u, r);
        for o in offs {
            let r = t!(c, "TimeZone::timestamp_micros", (o, u), o.timestamp_micros(u));
            judge(c, &format!("{:?}", o), u, r);
        }
    }
    // Month / Weekday from integers: Ok/Some exactly on 1..=12 resp. 0..=6 (Monday = 0), the right variant
    for b in 0..=u8::MAX {
        match t!(c, "Month::try_from(u8)", b, Month::try_from(b)) {
            Some(Ok(m)) => {
                if !(1..=12).contains(&b) || m.number_from_month() != b as u32 {
                    c.fail("Month::try_from(u8) accepts a number that is not a month, or yields another month", &format!("{b} -> {:?}", m));
                }
            }
            Some(Err(_)) => {
                if (1..=12).contains(&b) {
                    c.fail("Month::try_from(u8) refuses a month number", &format!("{b}"));
                }
            }
            None => {}
        }
        match t!(c, "Weekday::try_from(u8)", b, Weekday::try_from(b)) {
            Some(Ok(w)) => {
                if b > 6 || w.num_days_from_monday() != b as u32 {
                    c.fail("Weekday::try_from(u8) accepts a number that is not a weekday, or yields another weekday", &format!("{b} -> {:?}", w));
                }
            }
            Some(Err(_)) => {
                if b <= 6 {
                    c.fail("Weekday::try_from(u8) refuses a weekday number", &format!("{b}"));
                }
            }
            None => {}
        }
    }
    let mut ints: Vec<i128> = int_extremes();
    ints.extend([3, 4, 5, 6, 7, 8, 11, 12, 13, 14, -6, -7, -12, 256, 257, 262, 268, (1i128 << 32) + 1, (1i128 << 32) + 6, (1i128 << 32) + 12, (1i128 << 63) + 1, (1i128 << 63) + 12]);
    ints.sort();
    ints.dedup();
    for &v in &ints {
        let is_month = (1..=12).contains(&v);
        let is_wd = (0..=6).contains(&v);
        let mut months: Vec<(&str, Option<Option<Month>>)> = vec![];
        let mut wds: Vec<(&str, Option<Option<Weekday>>)> = vec![];
        if let Ok(x) = u64::try_from(v) {
            months.push(("from_u64", t!(c, "Month::from_u64", x, Month::from_u64(x))));
            wds.push(("from_u64", t!(c, "Weekday::from_u64", x, Weekday::from_u64(x))));
        }
        if let Ok(x) = i64::try_from(v) {
            months.push(("from_i64", t!(c, "Month::from_i64", x, Month::from_i64(x))));
            wds.push(("from_i64", t!(c, "Weekday::from_i64", x, Weekday::from_i64(x))));
        }
        if let Ok(x) = u32::try_from(v) {
            months.push(("from_u32", t!(c, "Month::from_u32", x, Month::from_u32(x))));
            wds.push(("from_u32", t!(c, "Weekday::from_u32", x, Weekday::from_u32(x))));
        }
        if let Ok(x) = i32::try_from(v) {
            months.push(("from_i32", t!(c, "Month::from_i32", x, Month::from_i32(x))));
            wds.push(("from_i32", t!(c, "Weekday::from_i32", x, Weekday::from_i32(x))));
        }
        if let Ok(x) = u8::try_from(v) {
            months.push(("from_u8", t!(c, "Month::from_u8", x, Month::from_u8(x))));
            wds.push(("from_u8", t!(c, "Weekday::from_u8", x, Weekday::from_u8(x))));
        }
        if let Ok(x) = i8::try_from(v) {
            months.push(("from_i8", t!(c, "Month::from_i8", x, Month::from_i8(x))));
            wds.push(("from_i8", t!(c, "Weekday::from_i8", x, Weekday::from_i8(x))));
        }
        for (f, r) in months {
            if let Some(m) = r {
                if m.is_some() != is_month || m.map_or(false, |m| m.number_from_month() as i128 != v) {
                    c.fail("FromPrimitive for Month: Some exactly for 1..=12, the month of that number", &format!("Month::{f}({v}) -> {:?}", m));
                }
            }
        }
        for (f, r) in wds {
            if let Some(w) = r {
                if w.is_some() != is_wd || w.map_or(false, |w| w.num_days_from_monday() as i128 != v) {
                    c.fail("FromPrimitive for Weekday: Some exactly for 0..=6, the weekday that many days after Monday", &format!("Weekday::{f}({v}) -> {:?}", w));
                }
            }
        }
    }
}

pub fn run(c: &mut Ctx) {
    local_sweep(c);
    parsed_setter_sweep(c);
    let (i32v, u32v, i64v) = (i32s(), u32s(), i64s());
    let (ds, ts, dls, offs) = (dates(), times(), deltas(), offsets());
    let mut dts: Vec<NaiveDateTime> = vec![NaiveDateTime::MIN, NaiveDateTime::MAX];
    for d in ds.iter().take(12) {
        for t in ts.iter().take(5) {
            dts.push(d.and_time(*t));
        }
    }
    let small_u32: Vec<u32> = u32v.iter().copied().filter(|x| *x <= 2_000_000_001 || *x >= u32::MAX - 2).collect();
    // ---- NaiveDate constructors: cross product of extremes ------------------------------------
    for &y in &i32v {
        for &a in &small_u32 {
            for &b in [0u32, 1, 28, 29, 30, 31, 32, 366, u32::MAX].iter() {
                if let Some(Some(d)) = t!(c, "NaiveDate::from_ymd_opt", (y, a, b), NaiveDate::from_ymd_opt(y, a, b)) {
                    if !date_ok(&d) {
                        c.fail("constructor built an invalid value", &format!("from_ymd_opt({y},{a},{b})"));
                    }
                }
            }
            if let Some(Some(d)) = t!(c, "NaiveDate::from_yo_opt", (y, a), NaiveDate::from_yo_opt(y, a)) {
                if !date_ok(&d) {
                    c.fail("constructor built an invalid value", &format!("from_yo_opt({y},{a})"));
                }
            }
            for wd in WD {
                if let Some(Some(d)) = t!(c, "NaiveDate::from_isoywd_opt", (y, a, wd), NaiveDate::from_isoywd_opt(y, a, wd)) {
                    if !date_ok(&d) {
                        c.fail("constructor built an invalid value", &format!("from_isoywd_opt({y},{a},{:?})", wd));
                    }
                }
                for n in [0u8, 1, 4, 5, 6, 255] {
                    if a <= 13 || a > u32::MAX - 2 {
                        if let Some(Some(d)) = t!(c, "NaiveDate::from_weekday_of_month_opt", (y, a, wd, n), NaiveDate::from_weekday_of_month_opt(y, a, wd, n)) {
                            if !date_ok(&d) {
                                c.fail("constructor built an invalid value", &format!("from_weekday_of_month_opt({y},{a},{:?},{n})", wd));
                            }
                        }
                    }
                }
            }
        }
        if let Some(Some(d)) = t!(c, "NaiveDate::from_num_days_from_ce_opt", y, NaiveDate::from_num_days_from_ce_opt(y)) {
            if !date_ok(&d) {
                c.fail("constructor built an invalid value", &format!("from_num_days_from_ce_opt({y})"));
            }
        }
        t!(c, "FixedOffset::east_opt", y, FixedOffset::east_opt(y));
        t!(c, "FixedOffset::west_opt", y, FixedOffset::west_opt(y));
        for m in 1..=12u8 {
            t!(c, "Month::num_days", (m, y), Month::try_from(m).unwrap().num_days(y));
        }
    }
    // ---- NaiveDate methods --------------------------------------------------------------------
    for d in &ds {
        for &n in &u32v {
            for r in [
                t!(c, "NaiveDate::checked_add_months", (d, n), d.checked_add_months(Months::new(n))),
                t!(c, "NaiveDate::checked_sub_months", (d, n), d.checked_sub_months(Months::new(n))),
                t!(c, "NaiveDate::with_month", (d, n), d.with_month(n)),
                t!(c, "NaiveDate::with_month0", (d, n), d.with_month0(n)),
                t!(c, "NaiveDate::with_day", (d, n), d.with_day(n)),
                t!(c, "NaiveDate::with_day0", (d, n), d.with_day0(n)),
                t!(c, "NaiveDate::with_ordinal", (d, n), d.with_ordinal(n)),
                t!(c, "NaiveDate::with_ordinal0", (d, n), d.with_ordinal0(n)),
            ] {
                if let Some(Some(x)) = r {
                    if !date_ok(&x) {
                        c.fail("operation built an invalid date", &format!("{:?} {n}", d));
                    }
                }
            }
            t!(c, "NaiveDate::and_hms_opt", (d, n), d.and_hms_opt(n, 59, 59));
            t!(c, "NaiveDate::and_hms_nano_opt", (d, n), d.and_hms_nano_opt(23, 59, 59, n));
            t!(c, "NaiveDate::and_hms_milli_opt", (d, n), d.and_hms_milli_opt(23, 59, 59, n));
            t!(c, "NaiveDate::and_hms_micro_opt", (d, n), d.and_hms_micro_opt(23, 59, n, n));
        }
        for &n in &i64v {
            if n >= 0 {
                for r in [
                    t!(c, "NaiveDate::checked_add_days", (d, n), d.checked_add_days(Days::new(n as u64))),
                    t!(c, "NaiveDate::checked_sub_days", (d, n), d.checked_sub_days(Days::new(n as u64))),
                ] {
                    if let Some(Some(x)) = r {
                        if !date_ok(&x) {
                            c.fail("operation built an invalid date", &format!("{:?} days {n}", d));
                        }
                    }
                }
            }
        }
        t!(c, "NaiveDate::checked_add_days", (d, u64::MAX), d.checked_add_days(Days::new(u64::MAX)));
        t!(c, "NaiveDate::checked_sub_days", (d, u64::MAX), d.checked_sub_days(Days::new(u64::MAX)));
        for &y in &i32v {
            if let Some(Some(x)) = t!(c, "NaiveDate::with_year", (d, y), d.with_year(y)) {
                if !date_ok(&x) {
                    c.fail("operation built an invalid date", &format!("{:?} with_year {y}", d));
                }
            }
        }
        for dl in &dls {
            for r in [
                t!(c, "NaiveDate::checked_add_signed", (d, dl), d.checked_add_signed(*dl)),
                t!(c, "NaiveDate::checked_sub_signed", (d, dl), d.checked_sub_signed(*dl)),
            ] {
                if let Some(Some(x)) = r {
                    if !date_ok(&x) {
                        c.fail("operation built an invalid date", &format!("{:?} {:?}", d, dl));
                    }
                }
            }
        }
        t!(c, "NaiveDate::succ_opt", d, d.succ_opt());
        t!(c, "NaiveDate::pred_opt", d, d.pred_opt());
        for e in &ds {
            t!(c, "NaiveDate::years_since", (d, e), d.years_since(*e));
            t!(c, "NaiveDate::signed_duration_since", (d, e), d.signed_duration_since(*e));
        }
        for wd in WD {
            t!(c, "NaiveWeek::checked_first_day", (d, wd), d.week(wd).checked_first_day());
            t!(c, "NaiveWeek::checked_last_day", (d, wd), d.week(wd).checked_last_day());
            t!(c, "NaiveWeek::checked_days", (d, wd), d.week(wd).checked_days());
        }
        // iterators end without panicking near the range ends
        t!(c, "NaiveDate::iter_days", d, d.iter_days().take(5).count());
        t!(c, "NaiveDate::iter_weeks", d, d.iter_weeks().take(5).count());
        t!(c, "NaiveDate::iter_days.rev", d, d.iter_days().rev().take(5).count());
        t!(c, "NaiveDate::iter_weeks.rev", d, d.iter_weeks().rev().take(5).count());
    }
    // ---- NaiveTime ----------------------------------------------------------------------------
    for &a in &u32v {
        for &b in [0u32, 59, 60, u32::MAX].iter() {
            for &n in [0u32, 999_999_999, 1_000_000_000, 1_999_999_999, 2_000_000_000, u32::MAX, 4_294_967, 4_294_968, 4294, 4295].iter() {
                t!(c, "NaiveTime::from_hms_nano_opt", (a, b, n), NaiveTime::from_hms_nano_opt(a, b, 59, n));
                t!(c, "NaiveTime::from_hms_nano_opt", (b, a, n), NaiveTime::from_hms_nano_opt(23, a, b, n));
                t!(c, "NaiveTime::from_hms_milli_opt", (a, b, n), NaiveTime::from_hms_milli_opt(23, 59, a.min(59), n));
                t!(c, "NaiveTime::from_hms_micro_opt", (a, b, n), NaiveTime::from_hms_micro_opt(23, 59, b.min(59), n));
                t!(c, "NaiveTime::from_num_seconds_from_midnight_opt", (a, n), NaiveTime::from_num_seconds_from_midnight_opt(a, n));
            }
        }
        for t0 in &ts {
            t!(c, "NaiveTime::with_hour", (t0, a), t0.with_hour(a));
            t!(c, "NaiveTime::with_minute", (t0, a), t0.with_minute(a));
            t!(c, "NaiveTime::with_second", (t0, a), t0.with_second(a));
            t!(c, "NaiveTime::with_nanosecond", (t0, a), t0.with_nanosecond(a));
        }
    }
    for t0 in &ts {
        for dl in &dls {
            t!(c, "NaiveTime::overflowing_add_signed", (t0, dl), t0.overflowing_add_signed(*dl));
            t!(c, "NaiveTime::overflowing_sub_signed", (t0, dl), t0.overflowing_sub_signed(*dl));
        }
        for t1 in &ts {
            t!(c, "NaiveTime::signed_duration_since", (t0, t1), t0.signed_duration_since(*t1));
        }
    }
    // ---- TimeDelta ----------------------------------------------------------------------------
    for &s in &i64v {
        for &n in [0u32, 1, 192_999_999, 193_000_000, 807_000_000, 807_000_001, 999_999_999, 1_000_000_000, u32::MAX].iter() {
            if let Some(Some(d)) = t!(c, "TimeDelta::new", (s, n), TimeDelta::new(s, n)) {
                if !delta_ok(&d) {
                    c.fail("constructor built an invalid value", &format!("TimeDelta::new({s},{n})"));
                }
            }
        }
        for (name, f) in [
            ("try_weeks", TimeDelta::try_weeks as fn(i64) -> Option<TimeDelta>),
            ("try_days", TimeDelta::try_days),
            ("try_hours", TimeDelta::try_hours),
            ("try_minutes", TimeDelta::try_minutes),
            ("try_seconds", TimeDelta::try_seconds),
            ("try_milliseconds", TimeDelta::try_milliseconds),
        ] {
            c.count("call:TimeDelta::try_*");
            match guard(|| f(s)) {
                Ok(Some(d)) => {
                    if !delta_ok(&d) {
                        c.fail("constructor built an invalid value", &format!("TimeDelta::{name}({s})"));
                    }
                }
                Ok(None) => {}
                Err(()) => c.fail("panic in fallible operation TimeDelta::try_*", &format!("{name}({s})")),
            }
        }
        t!(c, "TimeDelta::microseconds", s, TimeDelta::microseconds(s));
        t!(c, "TimeDelta::nanoseconds", s, TimeDelta::nanoseconds(s));
    }
    for a in &dls {
        for b in &dls {
            for r in [t!(c, "TimeDelta::checked_add", (a, b), a.checked_add(b)), t!(c, "TimeDelta::checked_sub", (a, b), a.checked_sub(b))] {
                if let Some(Some(d)) = r {
                    if !delta_ok(&d) {
                        c.fail("operation built an invalid duration", &format!("{:?} {:?}", a, b));
                    }
                }
            }
        }
        for &k in &i32v {
            for r in [t!(c, "TimeDelta::checked_mul", (a, k), a.checked_mul(k)), t!(c, "TimeDelta::checked_div", (a, k), a.checked_div(k))] {
                if let Some(Some(d)) = r {
                    if !delta_ok(&d) {
                        c.fail("operation built an invalid duration", &format!("{:?} {k}", a));
                    }
                }
            }
        }
        t!(c, "TimeDelta::to_std", a, a.to_std());
        t!(c, "TimeDelta::num_microseconds", a, a.num_microseconds());
        t!(c, "TimeDelta::num_nanoseconds", a, a.num_nanoseconds());
        t!(c, "TimeDelta::abs", a, a.abs());
        t!(c, "TimeDelta::to_string", a, a.to_string());
    }
    for &s in [0u64, 1, 9_223_372_036_854_775, 9_223_372_036_854_776, i64::MAX as u64, u64::MAX].iter() {
        for &n in [0u32, 807_000_000, 807_000_001, 999_999_999].iter() {
            t!(c, "TimeDelta::from_std", (s, n), TimeDelta::from_std(std::time::Duration::new(s, n)));
        }
    }
    // ---- NaiveDateTime / DateTime -------------------------------------------------------------
    for dt in &dts {
        for dl in &dls {
            for r in [
                t!(c, "NaiveDateTime::checked_add_signed", (dt, dl), dt.checked_add_signed(*dl)),
                t!(c, "NaiveDateTime::checked_sub_signed", (dt, dl), dt.checked_sub_signed(*dl)),
            ] {
                if let Some(Some(x)) = r {
                    if !dt_ok(&x) {
                        c.fail("operation built an invalid date-time", &format!("{:?} {:?}", dt, dl));
                    }
                }
            }
            t!(c, "DurationRound::duration_round(naive)", (dt, dl), dt.duration_round(*dl));
            t!(c, "DurationRound::duration_trunc(naive)", (dt, dl), dt.duration_trunc(*dl));
            t!(c, "DurationRound::duration_round_up(naive)", (dt, dl), dt.duration_round_up(*dl));
        }
        for o in &offs {
            for r in [
                t!(c, "NaiveDateTime::checked_add_offset", (dt, o), dt.checked_add_offset(*o)),
                t!(c, "NaiveDateTime::checked_sub_offset", (dt, o), dt.checked_sub_offset(*o)),
            ] {
                if let Some(Some(x)) = r {
                    if !dt_ok(&x) {
                        c.fail("operation built an invalid date-time", &format!("{:?} {:?}", dt, o));
                    }
                }
            }
            t!(c, "NaiveDateTime::and_local_timezone", (dt, o), dt.and_local_timezone(*o));
            if let Some(chrono::MappedLocalTime::Single(z)) = t!(c, "TimeZone::from_local_datetime", (dt, o), o.from_local_datetime(dt)) {
                if !zoned_ok(&z) {
                    c.fail("from_local_datetime built an out-of-range value", &format!("{:?} {:?}", dt, o));
                }
            }
            let z = o.from_utc_datetime(dt);
            t!(c, "DateTime::to_rfc3339", (dt, o), z.to_rfc3339());
            for sf in [SecondsFormat::Secs, SecondsFormat::Millis, SecondsFormat::Micros, SecondsFormat::Nanos, SecondsFormat::AutoSi] {
                // no panic is documented for to_rfc3339_opts; `Z` is written exactly for use_z and offset 0
                for use_z in [true, false] {
                    if let Some(s) = t!(c, "DateTime::to_rfc3339_opts", (dt, o, sf, use_z), z.to_rfc3339_opts(sf, use_z)) {
                        if s.ends_with('Z') != (use_z && o.local_minus_utc() == 0) || s.len() < 20 {
                            c.fail("DateTime::to_rfc3339_opts writes `Z` other than for use_z with a zero offset, or a truncated text", &format!("{:?} {:?} {:?} use_z={use_z} -> {s}", dt, o, sf));
                        }
                    }
                }
            }
            // Days counts over the whole u64 range (the loop below only reaches u32 counts): a Some result is a
            // valid value exactly that many days away (same offset, so also in UTC) with the same time of day
            for n in day_counts() {
                for (sign, r) in [
                    (1i64, t!(c, "DateTime::checked_add_days", (dt, o, n), z.checked_add_days(Days::new(n)))),
                    (-1, t!(c, "DateTime::checked_sub_days", (dt, o, n), z.checked_sub_days(Days::new(n)))),
                ] {
                    match r {
                        Some(Some(x)) => {
                            c.count("zoned-days:some");
                            let (a, b) = (z.naive_utc(), x.naive_utc());
                            if !zoned_ok(&x) {
                                c.fail("operation built an out-of-range zone-aware value", &format!("{:?} {:?} days {sign}*{n}", dt, o));
                            } else if x.offset() != z.offset() || a.time() != b.time() || i128::from(b.date().signed_duration_since(a.date()).num_days()) != sign as i128 * n as i128 {
                                c.fail("DateTime::checked_{add,sub}_days returned a value that is not the stated number of days away with the same time of day", &format!("{:?} {:?} days {sign}*{n} -> {:?}", dt, o, b));
                            }
                        }
                        Some(None) => {
                            c.count("zoned-days:none");
                            if n == 0 {
                                c.fail("DateTime::checked_{add,sub}_days refuses a count of zero", &format!("{:?} {:?}", dt, o));
                            }
                        }
                        None => {}
                    }
                }
            }
            t!(c, "DateTime Display/Debug", (dt, o), format!("{} {:?}", z, z));
            t!(c, "DateTime::timestamp_nanos_opt", (dt, o), z.timestamp_nanos_opt());
            for dl in dls.iter().take(8) {
                t!(c, "DurationRound::duration_round(zoned)", (dt, o, dl), z.duration_round(*dl));
                t!(c, "DurationRound::duration_trunc(zoned)", (dt, o, dl), z.duration_trunc(*dl));
                t!(c, "DurationRound::duration_round_up(zoned)", (dt, o, dl), z.duration_round_up(*dl));
                for r in [
                    t!(c, "DateTime::checked_add_signed", (dt, o, dl), z.checked_add_signed(*dl)),
                    t!(c, "DateTime::checked_sub_signed", (dt, o, dl), z.checked_sub_signed(*dl)),
                ] {
                    if let Some(Some(x)) = r {
                        if !zoned_ok(&x) {
                            c.fail("operation built an out-of-range zone-aware value", &format!("{:?} {:?} {:?}", dt, o, dl));
                        }
                    }
                }
            }
            for &n in [0u32, 1, 12, 13, 28, 29, 31, 59, 60, 365, 366, 999_999_999, 1_999_999_999, u32::MAX].iter() {
                for r in [
                    t!(c, "DateTime::with_month", (dt, o, n), z.with_month(n)),
                    t!(c, "DateTime::with_month0", (dt, o, n), z.with_month0(n)),
                    t!(c, "DateTime::with_day", (dt, o, n), z.with_day(n)),
                    t!(c, "DateTime::with_day0", (dt, o, n), z.with_day0(n)),
                    t!(c, "DateTime::with_ordinal", (dt, o, n), z.with_ordinal(n)),
                    t!(c, "DateTime::with_ordinal0", (dt, o, n), z.with_ordinal0(n)),
                    t!(c, "DateTime::with_hour", (dt, o, n), z.with_hour(n)),
                    t!(c, "DateTime::with_minute", (dt, o, n), z.with_minute(n)),
                    t!(c, "DateTime::with_second", (dt, o, n), z.with_second(n)),
                    t!(c, "DateTime::with_nanosecond", (dt, o, n), z.with_nanosecond(n)),
                    t!(c, "DateTime::checked_add_months", (dt, o, n), z.checked_add_months(Months::new(n))),
                    t!(c, "DateTime::checked_sub_months", (dt, o, n), z.checked_sub_months(Months::new(n))),
                    t!(c, "DateTime::checked_add_days", (dt, o, n), z.checked_add_days(Days::new(n as u64))),
                    t!(c, "DateTime::checked_sub_days", (dt, o, n), z.checked_sub_days(Days::new(n as u64))),
                ] {
                    if let Some(Some(x)) = r {
                        if !zoned_ok(&x) {
                            c.fail("operation built an out-of-range zone-aware value", &format!("{:?} {:?} arg {n}", dt, o));
                        }
                    }
                }
            }
            for &y in [i32::MIN, -262144, -262143, 262142, 262143, i32::MAX, 2024].iter() {
                if let Some(Some(x)) = t!(c, "DateTime::with_year", (dt, o, y), z.with_year(y)) {
                    if !zoned_ok(&x) {
                        c.fail("operation built an out-of-range zone-aware value", &format!("{:?} {:?} with_year {y}", dt, o));
                    }
                }
            }
            for t0 in &ts {
                if let Some(chrono::MappedLocalTime::Single(x)) = t!(c, "DateTime::with_time", (dt, o, t0), z.with_time(*t0)) {
                    if !zoned_ok(&x) {
                        c.fail("with_time built an out-of-range zone-aware value", &format!("{:?} {:?} {:?}", dt, o, t0));
                    }
                }
            }
            // SubsecRound returns `Self`, not a fallible type: rounding up at the very end of the range
            // goes through the `+` operator, whose overflow panic is documented. Only truncation (which
            // cannot leave the range) is swept here; rounding is property C17's.
            for dg in [0u16, 1, 3, 8, 9, 10, u16::MAX] {
                t!(c, "SubsecRound::trunc_subsecs", (dt, o, dg), z.trunc_subsecs(dg));
            }
            t!(c, "DateTime::years_since", (dt, o), z.years_since(Utc.timestamp_opt(0, 0).unwrap().with_timezone(o)));
            t!(c, "serde_json::to_string(DateTime)", (dt, o), serde_json::to_string(&z).is_ok());
            t!(c, "serde_json::to_string(NaiveDateTime)", dt, serde_json::to_string(dt).is_ok());
        }
    }
    for &s in &i64v {
        for &n in [0u32, 999_999_999, 1_000_000_000, 1_999_999_999, 2_000_000_000, u32::MAX].iter() {
            if let Some(Some(x)) = t!(c, "DateTime::from_timestamp", (s, n), DateTime::from_timestamp(s, n)) {
                if !zoned_ok(&x) {
                    c.fail("from_timestamp built an out-of-range value", &format!("{s} {n}"));
                }
            }
            t!(c, "TimeZone::timestamp_opt", (s, n), Utc.timestamp_opt(s, n));
        }
        t!(c, "DateTime::from_timestamp_millis", s, DateTime::from_timestamp_millis(s));
        t!(c, "DateTime::from_timestamp_micros", s, DateTime::from_timestamp_micros(s));
        t!(c, "DateTime::from_timestamp_nanos", s, DateTime::from_timestamp_nanos(s));
        t!(c, "TimeZone::timestamp_millis_opt", s, Utc.timestamp_millis_opt(s));
        t!(c, "TimeZone::timestamp_nanos", s, Utc.timestamp_nanos(s));
    }
    for &y in &i32v {
        for &m in [0u32, 1, 2, 12, 13, u32::MAX].iter() {
            for &d in [0u32, 1, 29, 31, 32].iter() {
                for o in offs.iter().take(4) {
                    t!(c, "TimeZone::with_ymd_and_hms", (y, m, d, o), o.with_ymd_and_hms(y, m, d, 23, 59, 59));
                    t!(c, "TimeZone::with_ymd_and_hms", (y, m, d, o), o.with_ymd_and_hms(y, m, d, 24, 60, 60));
                }
            }
        }
    }
    // ---- NaiveDateTime: Months/Days counts over the whole integer range, with_*; timestamp_micros; enums ----
    let ndt_bases: Vec<NaiveDateTime> = vec![
        NaiveDateTime::MIN,
        NaiveDateTime::MAX,
        NaiveDate::MAX.and_hms_nano_opt(23, 59, 59, 1_999_999_999).unwrap(), // leap second on the last second of the range
        NaiveDate::MIN.and_hms_nano_opt(23, 59, 59, 1_500_000_000).unwrap(), // leap second on the first day of the range
        NaiveDate::MIN.and_hms_nano_opt(0, 0, 59, 1_000_000_000).unwrap(),
        NaiveDate::from_ymd_opt(1970, 1, 1).unwrap().and_hms_opt(0, 0, 0).unwrap(),
        NaiveDate::from_ymd_opt(2024, 2, 29).unwrap().and_hms_nano_opt(23, 59, 59, 1_999_999_999).unwrap(),
        NaiveDate::from_ymd_opt(2023, 1, 31).unwrap().and_hms_nano_opt(12, 30, 0, 999_999_999).unwrap(),
        NaiveDate::from_ymd_opt(0, 12, 31).unwrap().and_hms_opt(23, 59, 59).unwrap(),
        NaiveDate::from_ymd_opt(-1, 1, 1).unwrap().and_hms_opt(0, 0, 0).unwrap(),
    ];
    ndt_sweep(c, &ndt_bases);
    micros_and_enum_sweep(c, &offs);
    // ---- Parsed: extremes through every resolver ----------------------------------------------
    let n_parsed = c.n(20000, 300000);
    for _ in 0..n_parsed {
        let mut p = Parsed::new();
        let pick_i = |c: &mut Ctx| *c.rng.pick(&[i64::MIN, -1, 0, 1, 12, 31, 59, 60, 99, 100, 366, 999_999_999, 2024, 262142, 262143, -262143, -262144, i32::MAX as i64, i32::MIN as i64, i64::MAX, -8_334_601_228_800, 8_210_266_876_799, 8_210_266_876_800]);
        for k in 0..N_SETTERS_RANDOM {
            if c.rng.chance(1, 3) {
                let v = pick_i(c);
                // under catch_unwind; a panic, a wrong error kind or a value the field does not hold is reported
                parsed_set_checked(c, &mut p, k, v);
            }
        }
        // the public fields allow values the setters would refuse
        if c.rng.chance(1, 4) {
            p.timestamp = Some(pick_i(c));
            p.second = Some(*c.rng.pick(&[0u32, 59, 60, 61, u32::MAX]));
            p.offset = Some(*c.rng.pick(&[0i32, 86399, -86399, 86400, i32::MAX, i32::MIN]));
        }
        let off = p.offset.unwrap_or(0);
        if let Some(Ok(d)) = t!(c, "Parsed::to_naive_date", &p, p.to_naive_date()) {
            if !date_ok(&d) {
                c.fail("Parsed::to_naive_date built an invalid date", &format!("{:?}", p));
            }
        }
        t!(c, "Parsed::to_naive_time", &p, p.to_naive_time());
        if let Some(Ok(d)) = t!(c, "Parsed::to_naive_datetime_with_offset", &p, p.to_naive_datetime_with_offset(off)) {
            if !dt_ok(&d) {
                c.fail("Parsed::to_naive_datetime_with_offset built an invalid value", &format!("{:?}", p));
            }
        }
        t!(c, "Parsed::to_fixed_offset", &p, p.to_fixed_offset());
        t!(c, "Parsed::to_datetime", &p, p.to_datetime());
        t!(c, "Parsed::to_datetime_with_timezone", &p, p.to_datetime_with_timezone(&Utc));
    }
    // ---- text: a multi-byte character at every byte offset of every kind of token (seed R4-C15-b: the long
    // month name scanner sliced the text at the length of the expected suffix; a character straddling that offset
    // after a valid three-letter prefix is a slice off a char boundary) ---------------------------------------
    {
        let tokens: &[(&str, &str)] = &[
            ("%B", "September"), ("%B", "January"), ("%B", "May"), ("%B", "june"), ("%B", "MARCH"), ("%b", "Sep"), ("%h", "Oct"),
            ("%A", "Wednesday"), ("%A", "Saturday"), ("%A", "sun"), ("%a", "Wed"), ("%p", "AM"), ("%P", "pm"),
            ("%Y", "2020"), ("%Y", "+12345"), ("%C%y", "2024"), ("%G-W%V-%u", "2020-W53-7"), ("%j", "189"), ("%U %w", "27 0"),
            ("%z", "+0530"), ("%:z", "+05:30"), ("%::z", "+05:30:00"), ("%#z", "+05"), ("%z", "\u{2212}0530"), ("%Z", "UTC"),
            ("%.f", ".123456789"), ("%.3f", ".123"), ("%3f", "123"), ("%f", "000026490"), ("%s", "-994518299"),
            ("%+", "2001-07-08T00:34:60.026490+09:30"), ("%c", "Sun Jul  8 00:34:60 2001"), ("%r", "12:34:60 AM"),
            ("%D", "07/08/01"), ("%F %T", "2001-07-08 00:34:60"), ("%v", " 8-Jul-2001"), ("%e %k %l", " 8  0 12"),
            ("%d\u{e9}%m", "08\u{e9}07"), ("%d\u{3000}%m", "08\u{3000}07"), ("%d%n%m%t%Y", "08 07\t2001"), ("%%%d", "%08"),
        ];
        let mbs = ["\u{e9}", "\u{2212}", "\u{20ac}", "\u{3000}", "\u{1f60a}", "\u{a0}", "\u{0}"];
        for (fmt, full) in tokens {
            for cut in 0..=full.len() {
                if !full.is_char_boundary(cut) {
                    continue;
                }
                for mb in mbs {
                    for keep_rest in [true, false] {
                        let text = format!("{}{}{}", &full[..cut], mb, if keep_rest { &full[cut..] } else { "" });
                        let text = &text;
                        c.count("text:multibyte-at-every-offset");
                        t!(c, "DateTime::parse_from_str", (text, fmt), DateTime::parse_from_str(text, fmt).is_ok());
                        t!(c, "DateTime::parse_and_remainder", (text, fmt), DateTime::parse_and_remainder(text, fmt).is_ok());
                        t!(c, "NaiveDate::parse_from_str", (text, fmt), NaiveDate::parse_from_str(text, fmt).is_ok());
                        t!(c, "NaiveDate::parse_and_remainder", (text, fmt), NaiveDate::parse_and_remainder(text, fmt).is_ok());
                        t!(c, "NaiveTime::parse_from_str", (text, fmt), NaiveTime::parse_from_str(text, fmt).is_ok());
                        t!(c, "NaiveTime::parse_and_remainder", (text, fmt), NaiveTime::parse_and_remainder(text, fmt).is_ok());
                        t!(c, "NaiveDateTime::parse_from_str", (text, fmt), NaiveDateTime::parse_from_str(text, fmt).is_ok());
                        t!(c, "NaiveDateTime::parse_and_remainder", (text, fmt), NaiveDateTime::parse_and_remainder(text, fmt).is_ok());
                        t!(c, "Weekday::from_str", text, text.parse::<Weekday>().is_ok());
                        t!(c, "Month::from_str", text, text.parse::<Month>().is_ok());
                        t!(c, "DateTime::parse_from_rfc3339", text, DateTime::parse_from_rfc3339(text).is_ok());
                        t!(c, "DateTime::parse_from_rfc2822", text, DateTime::parse_from_rfc2822(text).is_ok());
                        t!(c, "DateTime<FixedOffset>::from_str", text, text.parse::<DateTime<FixedOffset>>().is_ok());
                        t!(c, "NaiveDateTime::from_str", text, text.parse::<NaiveDateTime>().is_ok());
                        t!(c, "FixedOffset::from_str", text, text.parse::<FixedOffset>().is_ok());
                    }
                }
            }
        }
        // the two RFC forms and the default text forms, a multi-byte character at every offset
        for full in ["Tue, 1 Jul 2003 10:52:37 +0200", "1 Jul 03 10:52 GMT (comment (nested) \\) x)", "2024-02-29T23:59:60.5+05:30", "2024-02-29 23:59:60.5 UTC", "23:59:60.5", "+12345-02-03"] {
            for cut in 0..=full.len() {
                for mb in mbs {
                    let text = format!("{}{}{}", &full[..cut], mb, &full[cut..]);
                    let text = &text;
                    c.count("text:multibyte-at-every-offset");
                    t!(c, "DateTime::parse_from_rfc3339", text, DateTime::parse_from_rfc3339(text).is_ok());
                    t!(c, "DateTime::parse_from_rfc2822", text, DateTime::parse_from_rfc2822(text).is_ok());
                    t!(c, "DateTime<FixedOffset>::from_str", text, text.parse::<DateTime<FixedOffset>>().is_ok());
                    t!(c, "DateTime<Utc>::from_str", text, text.parse::<DateTime<Utc>>().is_ok());
                    t!(c, "NaiveDate::from_str", text, text.parse::<NaiveDate>().is_ok());
                    t!(c, "NaiveTime::from_str", text, text.parse::<NaiveTime>().is_ok());
                    t!(c, "NaiveDateTime::from_str", text, text.parse::<NaiveDateTime>().is_ok());
                }
            }
        }
    }
    // ---- text: every parser entry point on arbitrary Unicode, format strings incl. truncated ---
    let alphabet: Vec<char> = "0123456789 -+:.TZtz/,()\\%aAbBcCdDeFgGhHIjklmMnpPqrRsStTuUvVwWxXyYz#_é\u{2212}\u{3000}\u{a0}\u{1f60a}\u{0}JanMonPMUTCGMT".chars().collect();
    let seeds = [
        "2024-02-29T23:59:60.5+05:30", "Tue, 1 Jul 2003 10:52:37 +0200", "+262142-12-31T23:59:59.999999999Z", "-262143-01-01 00:00:00 UTC", "%Y-%m-%dT%H:%M:%S%.f%:z",
        "%", "%-", "%.", "%:", "%.3", "%#", "%:::", "%+", "%c %r %D %F %T %v %x %X", "%5", "%-A", "%_Z", "%.3x", "%Q", "%😽", "%%%",
    ];
    let n_text = c.n(40000, 400000);
    let fmt_values: Vec<DateTime<FixedOffset>> = {
        let (max, min) = (DateTime::<Utc>::MAX_UTC, DateTime::<Utc>::MIN_UTC);
        let east = |s: i32| FixedOffset::east_opt(s).unwrap();
        let leap = NaiveDate::from_ymd_opt(2016, 12, 31).unwrap().and_hms_nano_opt(23, 59, 59, 1_999_999_999).unwrap();
        vec![
            max.with_timezone(&east(3600)),   // local view in year 262143
            max.with_timezone(&east(-86399)), // 262142-12-31T00:00:00.999999999-23:59:59
            min.with_timezone(&east(-86399)), // local view in year -262144
            min.with_timezone(&east(86399)),
            east(0).from_utc_datetime(&leap), // 23:59:60.999999999
            east(-19800).from_utc_datetime(&leap),
            east(0).timestamp_opt(0, 0).unwrap(), // the epoch
        ]
    };
    for i in 0..n_text {
        let mut s: String = if i % 3 == 0 {
            let len = c.rng.below(40);
            (0..len).map(|_| *c.rng.pick(&alphabet)).collect()
        } else {
            (*c.rng.pick(&seeds)).to_string()
        };
        if i % 3 != 0 {
            for _ in 0..c.rng.below(4) {
                let mut cs: Vec<char> = s.chars().collect();
                let k = c.rng.below(cs.len() as u64 + 1) as usize;
                match c.rng.below(3) {
                    0 => cs.insert(k, *c.rng.pick(&alphabet)),
                    1 => {
                        if k < cs.len() {
                            cs.remove(k);
                        }
                    }
                    _ => {
                        if k < cs.len() {
                            cs[k] = *c.rng.pick(&alphabet);
                        }
                    }
                }
                s = cs.into_iter().collect();
            }
        }
        let f: String = (*c.rng.pick(&seeds)).to_string();
        let (text, fmt) = if c.rng.chance(1, 2) { (&s, &f) } else { (&f, &s) };
        t!(c, "DateTime::parse_from_rfc3339", text, DateTime::parse_from_rfc3339(text).is_ok());
        t!(c, "DateTime::parse_from_rfc2822", text, DateTime::parse_from_rfc2822(text).is_ok());
        t!(c, "DateTime<FixedOffset>::from_str", text, text.parse::<DateTime<FixedOffset>>().is_ok());
        t!(c, "DateTime<Utc>::from_str", text, text.parse::<DateTime<Utc>>().is_ok());
        t!(c, "NaiveDate::from_str", text, text.parse::<NaiveDate>().is_ok());
        t!(c, "NaiveTime::from_str", text, text.parse::<NaiveTime>().is_ok());
        t!(c, "NaiveDateTime::from_str", text, text.parse::<NaiveDateTime>().is_ok());
        t!(c, "FixedOffset::from_str", text, text.parse::<FixedOffset>().is_ok());
        t!(c, "Weekday::from_str", text, text.parse::<Weekday>().is_ok());
        t!(c, "Month::from_str", text, text.parse::<Month>().is_ok());
        t!(c, "DateTime::parse_from_str", (text, fmt), DateTime::parse_from_str(text, fmt).is_ok());
        t!(c, "DateTime::parse_and_remainder", (text, fmt), DateTime::parse_and_remainder(text, fmt).is_ok());
        t!(c, "NaiveDate::parse_from_str", (text, fmt), NaiveDate::parse_from_str(text, fmt).is_ok());
        t!(c, "NaiveDate::parse_and_remainder", (text, fmt), NaiveDate::parse_and_remainder(text, fmt).is_ok());
        t!(c, "NaiveTime::parse_from_str", (text, fmt), NaiveTime::parse_from_str(text, fmt).is_ok());
        t!(c, "NaiveTime::parse_and_remainder", (text, fmt), NaiveTime::parse_and_remainder(text, fmt).is_ok());
        t!(c, "NaiveDateTime::parse_from_str", (text, fmt), NaiveDateTime::parse_from_str(text, fmt).is_ok());
        t!(c, "NaiveDateTime::parse_and_remainder", (text, fmt), NaiveDateTime::parse_and_remainder(text, fmt).is_ok());
        t!(c, "StrftimeItems::parse", fmt, StrftimeItems::new(fmt).parse().is_ok());
        t!(c, "StrftimeItems::parse_to_owned", fmt, StrftimeItems::new(fmt).parse_to_owned().is_ok());
        // termination: at most one item per input byte plus a constant, in both modes
        for lenient in [false, true] {
            let cap = fmt.len() + 16;
            let r = guard(|| {
                let it = if lenient { StrftimeItems::new_lenient(fmt) } else { StrftimeItems::new(fmt) };
                let mut n = 0usize;
                let mut errors = 0usize;
                for item in it {
                    n += 1;
                    if matches!(item, Item::Error) {
                        errors += 1;
                    }
                    if 2 * n > 13 * fmt.len() + 32 {
                        break;
                    }
                }
                (n, errors)
            });
            c.count("call:StrftimeItems::next (drain)");
            let composite = ["%c", "%r", "%D", "%F", "%T", "%v", "%x", "%X", "%R"].iter().any(|k| fmt.contains(k));
            match r {
                Ok((n, _)) if n > cap => {
                    if composite {
                        // the literal bound of the property statement; iteration still ends (the check
                        // below enforces the proved linear bound: 2 * items <= 13 * bytes)
                        c.fail("composite specifiers yield more than one item per input byte", &format!("{:?} lenient={lenient}", fmt))
                    } else {
                        c.fail("StrftimeItems yields more than one item per input byte plus a constant", &format!("{:?} lenient={lenient}", fmt))
                    }
                }
                Ok(_) => {}
                Err(()) => c.fail("panic while iterating StrftimeItems", &format!("{:?} lenient={lenient}", fmt)),
            }
            if let Ok((n, _)) = r {
                // Props/C15.lean `strftime_terminates`: twice the number of items is at most 13 times the
                // byte length (attained by "%c": 13 items from 2 bytes), strict and lenient
                if 2 * n > 13 * fmt.len() {
                    c.fail("StrftimeItems yields more than 13 items per 2 input bytes (proved bound 2*items <= 13*len)", &format!("{:?} lenient={lenient} items={n}", fmt));
                }
            }
        }
        // formatting with arbitrary format strings: `write!` reports an error, never panics
        let z = FixedOffset::east_opt(19800).unwrap().with_ymd_and_hms(2024, 2, 29, 23, 59, 59).unwrap();
        t!(c, "DelayedFormat::write_to", fmt, {
            use std::fmt::Write;
            let mut out = String::new();
            write!(out, "{}", z.format(fmt)).is_ok()
        });
        // the same on the ends of the range (local views beyond NaiveDateTime::MIN/MAX), a leap second, the epoch
        for zv in &fmt_values {
            t!(c, "DelayedFormat::write_to", (fmt, zv.naive_utc(), zv.offset()), {
                use std::fmt::Write;
                let mut out = String::new();
                write!(out, "{}", zv.format(fmt)).is_ok()
            });
        }
        if i < 3 {
            c.sample(&format!("text {:?} / format {:?} through every parser entry point", text, fmt));
        }
    }
    // ---- the NaiveDateTime sweep on random values (drawn last: the random stream of the sections above is
    // the one the recorded runs had) ---------------------------------------------------------------------
    let n_rand = c.n(40, 400);
    let mut rand_bases: Vec<NaiveDateTime> = vec![];
    for i in 0..n_rand {
        let secs = match i % 4 {
            0 => c.rng.range(-8_334_601_228_800, 8_210_266_876_799),
            1 => -8_334_601_228_800 + c.rng.range(0, 400 * 86_400),
            2 => 8_210_266_876_799 - c.rng.range(0, 400 * 86_400),
            _ => c.rng.range(-62_167_219_200, 253_402_300_799),
        };
        let ns = c.rng.nanos();
        if let Some(d) = DateTime::from_timestamp(secs, ns) {
            let d = d.naive_utc();
            // one in five as a leap-second representation of the same second
            rand_bases.push(if c.rng.chance(1, 5) { d.with_nanosecond(1_000_000_000 + ns).unwrap_or(d) } else { d });
        }
    }
    ndt_sweep(c, &rand_bases);
}
