//! C02 — Unix timestamps and UTC date-times correspond one-to-one.
//!
//! Correspondence ops (prefix `ts.`) are answered by lean/Chrono/Drv/Timestamp.lean.  Direct oracles
//! (i128 arithmetic and the reference calendar of c01.rs; no chrono timestamp code) check the property
//! statement on the implementation itself: the instant of every constructed value, the acceptance
//! rule, floor semantics of the sub-second units, read-back in all four units, the i64-nanosecond
//! window, the `TimeZone` wrappers and the `SystemTime` conversions.  Added 2026-09-30 (audit gaps): the
//! calendar / clock fields of constructed values, the sub-second accessors and the deprecated
//! `timestamp_nanos()` through `DateTime<FixedOffset>` and `DateTime<Local>` (real zones from the
//! environment: the offset must not enter), `Local.timestamp_*`, the deprecated `NaiveDateTime::timestamp*`
//! accessors as correspondence ops, and a dense family on the second -9223372038 (finding F27).
//! Round 2 (audit2/C02.md): `DateTime::<Local>::from(SystemTime)` (op `ts.from_st_local` + oracle), the
//! leap-second values through `SystemTime` are judged (theorem `leap_st_back`: non-leap value in the
//! following second, a panic exactly on the last representable second), and dense sweeps (every second /
//! every count in a window around each boundary point, rotating nanosecond classes).
#![allow(deprecated)]
use super::c01::{day_num, gen_date, month_len, yof, MAX_YEAR, MIN_YEAR};
use crate::ctx::*;
use chrono::{DateTime, Datelike, FixedOffset, Local, MappedLocalTime, NaiveDate, NaiveDateTime, NaiveTime, TimeZone, Timelike, Utc};
use std::collections::BTreeMap;
use std::time::{Duration, SystemTime, UNIX_EPOCH};

const NS: i128 = 1_000_000_000;
/// day number of 1970-01-01 with 0001-01-01 = day 1 (the reference value, not read from chrono)
const EPOCH_DAY: i64 = 719_163;

fn min_ts() -> i64 {
    (day_num(MIN_YEAR as i64, 1, 1) - EPOCH_DAY) * 86_400
}
fn max_ts() -> i64 {
    (day_num(MAX_YEAR as i64, 12, 31) - EPOCH_DAY) * 86_400 + 86_399
}

fn show_dt(dt: &NaiveDateTime) -> String {
    format!("{} {} {}", yof(&dt.date()), dt.time().num_seconds_from_midnight(), dt.time().nanosecond())
}
fn show_odt(o: Option<NaiveDateTime>) -> String {
    match o {
        Some(d) => show_dt(&d),
        None => "none".into(),
    }
}
fn show_z<Tz: TimeZone>(z: &DateTime<Tz>) -> String {
    format!("{} {}", show_dt(&z.naive_utc()), chrono::Offset::fix(z.offset()).local_minus_utc())
}
fn show_mlt<Tz: TimeZone>(m: MappedLocalTime<DateTime<Tz>>) -> String {
    match m {
        MappedLocalTime::Single(z) => show_z(&z),
        MappedLocalTime::None => "none".into(),
        MappedLocalTime::Ambiguous(_, _) => "ambiguous".into(),
    }
}
fn pr<T: std::fmt::Display>(r: Result<T, ()>) -> String {
    match r {
        Ok(v) => v.to_string(),
        Err(()) => "panic".into(),
    }
}

/// whole seconds from the epoch of a naive value read as UTC, by the reference calendar
fn inst_secs(dt: &NaiveDateTime) -> i128 {
    let d = dt.date();
    (day_num(d.year() as i64, d.month() as i64, d.day() as i64) - EPOCH_DAY) as i128 * 86_400
        + dt.time().num_seconds_from_midnight() as i128
}
/// position in ns (a leap-second representation keeps its `frac >= 10^9`)
fn inst_ns(dt: &NaiveDateTime) -> i128 {
    inst_secs(dt) * NS + dt.time().nanosecond() as i128
}
fn fits_i64(x: i128) -> bool {
    i64::try_from(x).is_ok()
}
/// the acceptance rule of the property statement
fn nanos_ok(secs: i64, n: u32) -> bool {
    n < 1_000_000_000 || (n < 2_000_000_000 && secs.rem_euclid(60) == 59)
}

/// calendar and clock fields of a value built for second count `s`: a valid civil date (month 1..=12,
/// day 1..=length of that month by the reference calendar) whose reference day number is the floor
/// day, and hour:minute:second (each in range) making up the second of day
fn fields_ok(dt: &NaiveDateTime, s: i64) -> bool {
    let (y, m, d) = (dt.year() as i64, dt.month() as i64, dt.day() as i64);
    let (h, mi, se) = (dt.hour() as i64, dt.minute() as i64, dt.second() as i64);
    (1..=12).contains(&m)
        && d >= 1
        && d <= month_len(y, m)
        && day_num(y, m, d) == EPOCH_DAY + s.div_euclid(86_400)
        && h < 24
        && mi < 60
        && se < 60
        && h * 3600 + mi * 60 + se == s.rem_euclid(86_400)
        && dt.ordinal() as i64 == day_num(y, m, d) - day_num(y, 1, 1) + 1
}

/// oracle failures are capped per kind
struct Fails(BTreeMap<String, u32>);
impl Fails {
    fn hit(&mut self, c: &mut Ctx, what: &str, detail: &str) {
        let n = self.0.entry(what.to_string()).or_insert(0);
        *n += 1;
        if *n <= 8 {
            c.fail(what, detail);
        }
    }
}

/// a SystemTime as (S, N): whole seconds relative to the epoch rounded toward -inf, nanoseconds on top
fn st_obs(t: SystemTime) -> (i128, u32) {
    match t.duration_since(UNIX_EPOCH) {
        Ok(d) => (d.as_secs() as i128, d.subsec_nanos()),
        Err(e) => {
            let d = e.duration();
            if d.subsec_nanos() == 0 {
                (-(d.as_secs() as i128), 0)
            } else {
                (-(d.as_secs() as i128) - 1, 1_000_000_000 - d.subsec_nanos())
            }
        }
    }
}
fn st_make(s: i64, n: u32) -> Option<SystemTime> {
    if s >= 0 {
        UNIX_EPOCH.checked_add(Duration::new(s as u64, n))
    } else {
        UNIX_EPOCH.checked_sub(Duration::new(s.unsigned_abs(), 0))?.checked_add(Duration::new(0, n))
    }
}

/// what one `through_local` batch hands back: correspondence cases, oracle failures, class counters
type LocalOut = (Vec<(String, String)>, Vec<(String, String)>, BTreeMap<String, u64>);

/// The accessors and the `TimeZone::timestamp*` constructors through `DateTime<Local>` with a real zone
/// taken from the environment (`TZ`; a fresh thread = a fresh zone cache).  The offset is whatever the
/// zone prescribes (C05's business); C02's claim is that it does not enter: the UTC reading and every
/// count are those of `DateTime<Utc>`.  The correspondence lines carry the offset the implementation
/// chose, so the model is asked about exactly that zone-aware value.
fn through_local(tz: &str, vals: Vec<NaiveDateTime>, cases: Vec<(i64, u32)>, counts: Vec<(i64, u8)>, sts: Vec<(i64, u32)>) -> LocalOut {
    let old = std::env::var("TZ").ok();
    std::env::set_var("TZ", tz);
    let tzs = tz.to_string();
    let out = std::thread::spawn(move || {
        let mut ops: Vec<(String, String)> = vec![];
        let mut fails: Vec<(String, String)> = vec![];
        let mut cnt: BTreeMap<String, u64> = BTreeMap::new();
        let mut offs: std::collections::BTreeSet<i32> = Default::default();
        let pro = |r: Result<Option<i64>, ()>| match r { Ok(o) => opt(o), Err(()) => "panic".into() };
        for dt in &vals {
            let key = show_dt(dt);
            let u = dt.and_utc();
            let z = match guard(|| Local.from_utc_datetime(dt)) {
                Ok(z) => z,
                Err(()) => {
                    fails.push(("Local.from_utc_datetime panicked on a representable UTC date-time".into(), format!("TZ={tzs} {key}")));
                    continue;
                }
            };
            let off = chrono::Offset::fix(z.offset()).local_minus_utc();
            offs.insert(off);
            let zg = format!("{} {} {} {}", pr(guard(|| z.timestamp())), pr(guard(|| z.timestamp_millis())), pr(guard(|| z.timestamp_micros())), pro(guard(|| z.timestamp_nanos_opt())));
            let ug = format!("{} {} {} {}", pr(guard(|| u.timestamp())), pr(guard(|| u.timestamp_millis())), pr(guard(|| u.timestamp_micros())), pro(guard(|| u.timestamp_nanos_opt())));
            let sub = |t: Result<(u32, u32, u32), ()>| match t { Ok(t) => format!("{} {} {}", t.0, t.1, t.2), Err(()) => "panic panic panic".into() };
            let zs = format!("{} {}", sub(guard(|| (z.timestamp_subsec_millis(), z.timestamp_subsec_micros(), z.timestamp_subsec_nanos()))), pr(guard(|| z.timestamp_nanos())));
            let us = format!("{} {}", sub(guard(|| (u.timestamp_subsec_millis(), u.timestamp_subsec_micros(), u.timestamp_subsec_nanos()))), pr(guard(|| u.timestamp_nanos())));
            if zg != ug || zs != us || z.naive_utc() != *dt {
                fails.push(("the timestamp of a DateTime<Local> depends on the zone's offset".into(), format!("TZ={tzs} ts.zget {key} {off} -> {zg} {zs} vs {ug} {us}")));
            }
            if guard(|| st_obs(SystemTime::from(z))) != guard(|| st_obs(SystemTime::from(u))) {
                fails.push(("SystemTime::from(DateTime<Local>) differs from SystemTime::from(DateTime<Utc>) of the same instant".into(), format!("TZ={tzs} {key}")));
            }
            // DateTime<Local> -> SystemTime -> DateTime<Local>: the same UTC reading (or the same panic) as
            // DateTime<Utc> -> SystemTime -> DateTime<Utc>, which the main loop judges against the property
            if guard(|| DateTime::<Local>::from(SystemTime::from(z)).naive_utc()) != guard(|| DateTime::<Utc>::from(SystemTime::from(u)).naive_utc()) {
                fails.push(("DateTime<Local> -> SystemTime -> DateTime<Local> differs from the same round trip through DateTime<Utc>".into(), format!("TZ={tzs} {key}")));
            }
            ops.push((format!("ts.zget {key} {off}"), zg));
            ops.push((format!("ts.zsub {key} {off}"), zs));
            *cnt.entry(if dt.time().nanosecond() >= 1_000_000_000 { "local:accessors, leap-second value" } else { "local:accessors, non-leap value" }.into()).or_insert(0) += 1;
        }
        for &(s, n) in &cases {
            let want = DateTime::from_timestamp(s, n).map(|d| d.naive_utc());
            match guard(|| Local.timestamp_opt(s, n)) {
                Ok(MappedLocalTime::Single(z)) => {
                    let off = chrono::Offset::fix(z.offset()).local_minus_utc();
                    offs.insert(off);
                    if Some(z.naive_utc()) != want || guard(|| (z.timestamp(), z.timestamp_subsec_nanos())) != Ok((s, n)) {
                        fails.push(("Local.timestamp_opt: the zone changed the instant".into(), format!("TZ={tzs} ts.tz_opt {off} {s} {n}")));
                    }
                    ops.push((format!("ts.tz_opt {off} {s} {n}"), show_z(&z)));
                    *cnt.entry("local:timestamp_opt Single".into()).or_insert(0) += 1;
                }
                Ok(MappedLocalTime::None) => {
                    if want.is_some() {
                        fails.push(("Local.timestamp_opt refused a representable instant with a valid nanosecond field".into(), format!("TZ={tzs} {s} {n}")));
                    }
                    ops.push((format!("ts.tz_opt 0 {s} {n}"), "none".into()));
                    *cnt.entry("local:timestamp_opt None".into()).or_insert(0) += 1;
                }
                Ok(MappedLocalTime::Ambiguous(_, _)) => fails.push(("Local.timestamp_opt returned Ambiguous for an instant".into(), format!("TZ={tzs} {s} {n}"))),
                Err(()) => fails.push(("Local.timestamp_opt panicked".into(), format!("TZ={tzs} {s} {n}"))),
            }
            // unwrap form
            let ru = guard(|| Local.timestamp(s, n));
            if ru.as_ref().ok().map(|z| z.naive_utc()) != want {
                fails.push(("Local.timestamp (unwrap form) does not panic exactly when timestamp_opt is None / returns another value".into(), format!("TZ={tzs} {s} {n}")));
            }
        }
        for &(x, unit) in &counts {
            let (name, want, r): (&str, Option<NaiveDateTime>, Result<Option<DateTime<Local>>, ()>) = match unit {
                0 => ("ms", DateTime::from_timestamp_millis(x).map(|d| d.naive_utc()), guard(|| Local.timestamp_millis_opt(x).single())),
                1 => ("us", DateTime::from_timestamp_micros(x).map(|d| d.naive_utc()), guard(|| Local.timestamp_micros(x).single())),
                _ => ("ns", guard(|| DateTime::from_timestamp_nanos(x).naive_utc()).ok(), guard(|| Some(Local.timestamp_nanos(x)))),
            };
            match r {
                Ok(Some(z)) => {
                    let off = chrono::Offset::fix(z.offset()).local_minus_utc();
                    let back = match unit {
                        0 => guard(|| Some(z.timestamp_millis())),
                        1 => guard(|| Some(z.timestamp_micros())),
                        _ => guard(|| z.timestamp_nanos_opt()),
                    };
                    if Some(z.naive_utc()) != want || back != Ok(Some(x)) {
                        fails.push((format!("Local.timestamp_{name}*: the zone changed the instant / the count does not read back"), format!("TZ={tzs} {x} (offset {off})")));
                    }
                    ops.push((format!("ts.tz_{}{} {off} {x}", name, if unit == 0 { "_opt" } else { "" }), show_z(&z)));
                    *cnt.entry(format!("local:timestamp_{name} value")).or_insert(0) += 1;
                }
                Ok(None) => {
                    if want.is_some() {
                        fails.push((format!("Local.timestamp_{name}* refused a representable instant"), format!("TZ={tzs} {x}")));
                    }
                    ops.push((format!("ts.tz_{}{} 0 {x}", name, if unit == 0 { "_opt" } else { "" }), "none".into()));
                    *cnt.entry(format!("local:timestamp_{name} None")).or_insert(0) += 1;
                }
                Err(()) => fails.push((format!("Local.timestamp_{name}* panicked"), format!("TZ={tzs} {x}"))),
            }
        }
        // `impl From<SystemTime> for DateTime<Local>`: judged against the property itself (the instant,
        // non-leap, a panic exactly outside the representable range), then against the `Utc` conversion
        let (lo, hi) = (min_ts(), max_ts());
        for &(s, n) in &sts {
            let Some(t) = st_make(s, n) else { continue };
            let in_range = lo <= s && s <= hi;
            let rl = guard(|| DateTime::<Local>::from(t));
            let ru = guard(|| DateTime::<Utc>::from(t).naive_utc());
            match &rl {
                Ok(l) => {
                    let off = chrono::Offset::fix(l.offset()).local_minus_utc();
                    offs.insert(off);
                    let nu = l.naive_utc();
                    if !in_range || inst_ns(&nu) != s as i128 * NS + n as i128 || nu.nanosecond() >= 1_000_000_000 {
                        fails.push(("DateTime::<Local>::from(SystemTime) is not the non-leap value at the same instant".into(), format!("TZ={tzs} ts.from_st_local {off} {s} {n} -> {}", show_dt(&nu))));
                    } else if ru != Ok(nu) {
                        fails.push(("DateTime::<Local>::from(SystemTime) differs from DateTime::<Utc>::from(SystemTime)".into(), format!("TZ={tzs} ts.from_st_local {off} {s} {n}")));
                    } else if guard(|| st_obs(SystemTime::from(*l))) != Ok((s as i128, n)) {
                        fails.push(("SystemTime -> DateTime<Local> -> SystemTime is not the identity".into(), format!("TZ={tzs} ts.from_st_local {off} {s} {n}")));
                    }
                    ops.push((format!("ts.from_st_local {off} {s} {n}"), show_z(l)));
                    *cnt.entry(if s < 0 { "local:from(SystemTime) value, before epoch" } else { "local:from(SystemTime) value, epoch or later" }.into()).or_insert(0) += 1;
                }
                Err(()) => {
                    if in_range {
                        fails.push(("DateTime::<Local>::from(SystemTime) panicked on a representable instant".into(), format!("TZ={tzs} ts.from_st_local 0 {s} {n}")));
                    } else if ru.is_ok() {
                        fails.push(("DateTime::<Local>::from(SystemTime) panics where DateTime::<Utc>::from(SystemTime) does not".into(), format!("TZ={tzs} ts.from_st_local 0 {s} {n}")));
                    }
                    ops.push((format!("ts.from_st_local 0 {s} {n}"), "panic".into()));
                    *cnt.entry("local:from(SystemTime) panic (outside the range)".into()).or_insert(0) += 1;
                }
            }
        }
        *cnt.entry(format!("local:distinct offsets met in TZ={tzs}")).or_insert(0) += offs.len() as u64;
        (ops, fails, cnt)
    })
    .join()
    .unwrap_or_else(|_| (vec![], vec![("the DateTime<Local> batch died".into(), tz.to_string())], BTreeMap::new()));
    match old {
        Some(v) => std::env::set_var("TZ", v),
        None => std::env::remove_var("TZ"),
    }
    out
}

// ---- generators ----------------------------------------------------------------------------------

const NSEC_CLASSES: [u32; 16] = [
    0, 1, 999_999_998, 999_999_999, 1_000_000_000, 1_000_000_001, 1_500_000_000, 1_999_999_999, 2_000_000_000, 2_000_000_001,
    i32::MAX as u32, i32::MAX as u32 + 1, 3_000_000_000, 4_000_000_000, u32::MAX - 1, u32::MAX,
];
fn gen_nsecs(c: &mut Ctx) -> u32 {
    match c.rng.below(6) {
        0 | 1 => *c.rng.pick(&NSEC_CLASSES),
        2 | 3 => c.rng.nanos(),
        4 => 1_000_000_000 + c.rng.nanos(),
        _ => c.rng.next() as u32,
    }
}
fn clamp_i64(x: i128) -> i64 {
    x.clamp(i64::MIN as i128, i64::MAX as i128) as i64
}
/// whole-second boundary points (in seconds), derived from the constants the code uses
fn sec_points() -> Vec<i128> {
    let (lo, hi) = (min_ts() as i128, max_ts() as i128);
    let mut v: Vec<i128> = vec![0, 59, 60, 86_399, 86_400, -86_400, -60, -1, lo, hi, lo + 86_400, hi - 86_399, hi + 1, lo - 86_400];
    // the i64-nanosecond window (1677-09-21 .. 2262-04-11), the ms/us windows of i64
    for unit in [1_000i128, 1_000_000, NS] {
        v.push((i64::MIN as i128).div_euclid(unit));
        v.push((i64::MAX as i128).div_euclid(unit));
    }
    // where `div_euclid(86400) + UNIX_EPOCH_DAY` meets the i32 range, and the i32 `+365` of the date constructor
    for d in [i32::MIN as i128, i32::MAX as i128, i32::MAX as i128 - 365, i32::MIN as i128 + 365] {
        v.push((d - EPOCH_DAY as i128) * 86_400);
        v.push((d - EPOCH_DAY as i128) * 86_400 + 86_399);
        v.push((d + 1 - EPOCH_DAY as i128) * 86_400);
    }
    // 400-year cycle seams and a few civil dates around which the table lookups change
    for (y, m, d) in [(0i64, 1, 1), (1, 1, 1), (400, 1, 1), (1600, 1, 1), (2000, 1, 1), (2000, 2, 29), (2000, 3, 1), (1900, 3, 1), (2100, 3, 1), (1969, 12, 31), (2038, 1, 19), (-400, 1, 1), (2400, 1, 1)] {
        v.push((day_num(y, m, d) - EPOCH_DAY) as i128 * 86_400);
    }
    v.extend([i64::MIN as i128, i64::MAX as i128, i32::MIN as i128, i32::MAX as i128, u32::MAX as i128]);
    v
}
fn gen_secs(c: &mut Ctx, pts: &[i128]) -> i64 {
    let (lo, hi) = (min_ts(), max_ts());
    match c.rng.below(10) {
        0 => c.rng.range(-3, 3),
        1 | 2 => clamp_i64(*c.rng.pick(pts) + c.rng.range(-2, 2) as i128),
        3 => c.rng.range(-40_000, 40_000) * 86_400 + *c.rng.pick(&[-2i64, -1, 0, 1, 2, 59, 60, 86_398]),
        4 => c.rng.range(lo / 86_400, hi / 86_400) * 86_400 + *c.rng.pick(&[-1i64, 0, 1, 86_399]),
        5 => c.rng.range(lo / 60, hi / 60) * 60 + *c.rng.pick(&[58i64, 59, 59, 59, 0]),
        6 => c.rng.range(lo, hi),
        7 => c.rng.log_i64(),
        8 => {
            // a year / month / leap-day boundary of a generated date
            let d = gen_date(c);
            (day_num(d.year() as i64, d.month() as i64, d.day() as i64) - EPOCH_DAY) * 86_400 + *c.rng.pick(&[-1i64, 0, 86_399, 86_400])
        }
        _ => c.rng.next() as i64,
    }
}
/// a count in a sub-second unit (`unit` = 10^3, 10^6, 10^9 per second)
fn gen_count(c: &mut Ctx, unit: i128, pts: &[i128]) -> i64 {
    let (lo, hi) = (min_ts() as i128, max_ts() as i128);
    let sub: i128 = match c.rng.below(4) {
        0 => *c.rng.pick(&[0i128, 1, -1, 2, -2]),
        1 => *c.rng.pick(&[unit - 1, unit - 2, unit / 2, unit / 1000, unit / 1000 - 1, unit / 1000 + 1]),
        _ => c.rng.below(unit as u64) as i128,
    };
    let v: i128 = match c.rng.below(10) {
        0 => c.rng.range(-3, 3) as i128,
        1 | 2 => *c.rng.pick(pts) * unit + sub,
        3 => (*c.rng.pick(pts) + 1) * unit - 1 + *c.rng.pick(&[-1i128, 0, 1, 2]),
        4 => (c.rng.range(-40_000, 40_000) * 86_400) as i128 * unit + sub,
        5 => c.rng.range(lo as i64, hi as i64) as i128 * unit + sub,
        6 => c.rng.log_i64() as i128,
        7 => c.rng.range(-100_000, 100_000) as i128 * unit + sub,
        8 => *c.rng.pick(&[i64::MIN as i128, i64::MAX as i128, i64::MIN as i128 + 1, i64::MAX as i128 - 1]) + c.rng.range(0, 2) as i128 * if c.rng.chance(1, 2) { 1 } else { -1 },
        _ => c.rng.next() as i64 as i128,
    };
    clamp_i64(v)
}
fn gen_off(c: &mut Ctx) -> i32 {
    match c.rng.below(3) {
        0 => *c.rng.pick(&[0i32, 1, -1, 3600, -3600, 86_399, -86_399, 19_800, -34_200]),
        _ => c.rng.range(-86_399, 86_399) as i32,
    }
}
/// any representable date-time, incl. leap-second representations on any second (via with_nanosecond)
fn gen_dt(c: &mut Ctx, pts: &[i128]) -> NaiveDateTime {
    let date = match c.rng.below(6) {
        0 => *c.rng.pick(&[NaiveDate::MIN, NaiveDate::MAX, NaiveDate::from_ymd_opt(1970, 1, 1).unwrap(), NaiveDate::from_ymd_opt(1969, 12, 31).unwrap()]),
        1 => {
            // around the ends of the i64-nanosecond window
            let s = if c.rng.chance(1, 2) { i64::MIN / 1_000_000_000 } else { i64::MAX / 1_000_000_000 };
            let days = s.div_euclid(86_400) + EPOCH_DAY + c.rng.range(-1, 1);
            NaiveDate::from_num_days_from_ce_opt(days as i32).unwrap()
        }
        2 => {
            let s = clamp_i64(*c.rng.pick(pts)).clamp(min_ts(), max_ts());
            NaiveDate::from_num_days_from_ce_opt((s.div_euclid(86_400) + EPOCH_DAY) as i32).unwrap()
        }
        _ => gen_date(c),
    };
    let secs: u32 = match c.rng.below(4) {
        0 => *c.rng.pick(&[0u32, 1, 59, 60, 86_339, 86_398, 86_399, 43_200, 761, 762, 763, 764, 85_636, 85_635, 85_637]),
        1 => (c.rng.below(1440) * 60 + 59) as u32,
        _ => c.rng.below(86_400) as u32,
    };
    let frac: u32 = match c.rng.below(5) {
        0 => *c.rng.pick(&[0u32, 1, 999_999_999, 1_000_000_000, 1_999_999_999, 145_224_192, 145_224_191, 145_224_193, 1_145_224_192, 1_145_224_191, 1_145_224_193, 854_775_807, 854_775_808, 854_775_806, 1_854_775_807, 1_854_775_808, 999_999, 1_000_000, 999, 1000]),
        1 => 1_000_000_000 + c.rng.nanos(),
        _ => c.rng.nanos(),
    };
    let t = NaiveTime::from_num_seconds_from_midnight_opt(secs, 0).unwrap().with_nanosecond(frac).unwrap();
    NaiveDateTime::new(date, t)
}

/// the value on second count `s` (inside the range) with nanosecond field `frac` (< 2*10^9, any second)
fn dt_at(s: i64, frac: u32) -> NaiveDateTime {
    let d = NaiveDate::from_num_days_from_ce_opt((s.div_euclid(86_400) + EPOCH_DAY) as i32).unwrap();
    NaiveDateTime::new(d, NaiveTime::from_num_seconds_from_midnight_opt(s.rem_euclid(86_400) as u32, 0).unwrap().with_nanosecond(frac).unwrap())
}
const FRAC_CLASSES: [u32; 12] = [0, 1, 499_999_999, 500_000_000, 999_999_999, 1_000_000_000, 1_000_000_001, 1_500_000_000, 1_999_999_999, 145_224_192, 854_775_807, 1_145_224_192];

pub fn run(c: &mut Ctx) {
    let mut fl = Fails(BTreeMap::new());
    let pts = sec_points();
    let (lo, hi) = (min_ts(), max_ts());
    c.sample(&format!("representable timestamps: [{lo}, {hi}] s"));

    // the range ends as chrono's own constants see them
    if inst_secs(&NaiveDateTime::MIN) != lo as i128 || inst_secs(&NaiveDateTime::MAX) != hi as i128 {
        fl.hit(c, "NaiveDateTime::MIN/MAX are not the first/last second of the year range", &format!("{} {}", show_dt(&NaiveDateTime::MIN), show_dt(&NaiveDateTime::MAX)));
    }

    // the epoch constant
    {
        let e = DateTime::<Utc>::UNIX_EPOCH;
        if inst_ns(&e.naive_utc()) != 0 || guard(|| e.timestamp()) != Ok(0) || guard(|| DateTime::from_timestamp(0, 0)) != Ok(Some(e)) {
            fl.hit(c, "DateTime::UNIX_EPOCH is not 1970-01-01T00:00:00Z / not timestamp 0", &show_dt(&e.naive_utc()));
        }
        c.op(&format!("ts.get {}", show_dt(&e.naive_utc())), "0 0 0 0 0 0 0");
    }

    // ======== from_timestamp(secs, nsecs) ======================================================
    let mut cases: Vec<(i64, u32)> = vec![];
    for &p in &pts {
        for d in -2i128..=2 {
            let s = clamp_i64(p + d);
            for &n in &[0u32, 999_999_999, 1_000_000_000, 1_999_999_999, 2_000_000_000, u32::MAX] {
                cases.push((s, n));
            }
        }
    }
    // every nanos class on a second 59, on a second 58 and on a second 0, both sides of the epoch
    for &s in &[59i64, 58, 0, 60, -1, -2, -60, -61, 119, hi, hi - 1, lo, lo + 59, lo + 58] {
        for &n in &NSEC_CLASSES {
            cases.push((s, n));
        }
    }
    // dense sweep: EVERY second in a window around every boundary point, nanosecond classes rotating so
    // that each class meets each residue of the second modulo 60
    {
        let w = c.n(300, 3000) as i128;
        let mut k = 0usize;
        for &p in &pts {
            for d in -w..=w {
                let x = p + d;
                if x < i64::MIN as i128 || x > i64::MAX as i128 {
                    continue;
                }
                cases.push((x as i64, NSEC_CLASSES[(k + k / 60) % NSEC_CLASSES.len()]));
                k += 1;
            }
        }
        c.count_n("from:dense sweep around the boundary points (every second of the window)", k as u64);
    }
    let n_from = c.n(200_000, 2_400_000);
    for _ in 0..n_from {
        let s = gen_secs(c, &pts);
        let n = gen_nsecs(c);
        cases.push((s, n));
    }
    for (i, &(s, n)) in cases.iter().enumerate() {
        let got = guard(|| DateTime::from_timestamp(s, n).map(|d| d.naive_utc()));
        c.op(&format!("ts.from {s} {n}"), &match &got { Ok(o) => show_odt(*o), Err(()) => "panic".into() });
        let in_range = lo <= s && s <= hi;
        let days = s.div_euclid(86_400) as i128 + EPOCH_DAY as i128;
        c.count(if !in_range {
            if days < i32::MIN as i128 || days > i32::MAX as i128 { "from:none(days outside i32)" }
            else if days + 365 > i32::MAX as i128 { "from:none(days+365 outside i32)" }
            else { "from:none(out of range)" }
        } else if n >= 2_000_000_000 { "from:none(nanos>=2e9)" }
        else if n >= 1_000_000_000 && s.rem_euclid(60) != 59 { "from:none(leap not on :59)" }
        else if n >= 1_000_000_000 { "from:some(leap on :59)" }
        else if s < 0 { "from:some(before epoch)" } else { "from:some(epoch or later)" });
        let (dl, dh) = (s as i128 - lo as i128, s as i128 - hi as i128);
        if in_range && (dl < 3 || dh > -3) {
            c.count("from:within 2 s of a range end (inside)");
        }
        if !in_range && ((-3..0).contains(&dl) || (1..=3).contains(&dh)) {
            c.count("from:within 2 s of a range end (outside)");
        }
        let want = in_range && nanos_ok(s, n);
        match &got {
            Ok(Some(dt)) => {
                if !want {
                    fl.hit(c, "from_timestamp accepted an out-of-range instant or an invalid nanosecond field", &format!("ts.from {s} {n} -> {}", show_dt(dt)));
                } else if inst_secs(dt) != s as i128 || dt.time().nanosecond() != n {
                    fl.hit(c, "from_timestamp built a value that is not `secs` seconds from the epoch", &format!("ts.from {s} {n} -> {} = {} s", show_dt(dt), inst_secs(dt)));
                } else if !fields_ok(dt, s) {
                    fl.hit(c, "from_timestamp: the calendar / clock fields are not the civil date and time of day of the floor day and second of day", &format!("ts.from {s} {n} -> {}-{}-{} {}:{}:{}", dt.year(), dt.month(), dt.day(), dt.hour(), dt.minute(), dt.second()));
                } else {
                    // read back
                    let u = dt.and_utc();
                    if guard(|| (u.timestamp(), u.timestamp_subsec_nanos())) != Ok((s, n)) {
                        fl.hit(c, "timestamp()/timestamp_subsec_nanos() do not return the arguments of from_timestamp", &format!("ts.from {s} {n}"));
                    }
                }
            }
            Ok(None) => {
                if want {
                    fl.hit(c, "from_timestamp refused a representable instant with a valid nanosecond field", &format!("ts.from {s} {n}"));
                }
            }
            Err(()) => fl.hit(c, "from_timestamp panicked", &format!("ts.from {s} {n}")),
        }
        // the deprecated NaiveDateTime forms and the TimeZone wrappers, on a rotating share of the cases
        match i % 6 {
            0 => c.op(&format!("ts.nfrom_opt {s} {n}"), &gs(|| NaiveDateTime::from_timestamp_opt(s, n), show_odt)),
            1 => {
                let ru = guard(|| NaiveDateTime::from_timestamp(s, n));
                if ru.ok() != got.clone().ok().flatten() || ru.is_ok() != want {
                    fl.hit(c, "NaiveDateTime::from_timestamp (expect form) does not panic exactly when DateTime::from_timestamp is None / returns another value", &format!("ts.nfrom {s} {n}"));
                }
                c.count(if ru.is_ok() { "nfrom(expect):value" } else { "nfrom(expect):panic" });
                c.op(&format!("ts.nfrom {s} {n}"), &match ru { Ok(d) => show_dt(&d), Err(()) => "panic".into() });
            }
            2 | 3 => {
                let off = gen_off(c);
                let fo = FixedOffset::east_opt(off).unwrap();
                let r = guard(|| fo.timestamp_opt(s, n));
                if let (Ok(MappedLocalTime::Single(z)), Ok(o)) = (&r, &got) {
                    if Some(z.naive_utc()) != *o || guard(|| z.timestamp()) != Ok(s) {
                        fl.hit(c, "TimeZone::timestamp_opt: a fixed offset changed the instant", &format!("ts.tz_opt {off} {s} {n}"));
                    }
                }
                c.op(&format!("ts.tz_opt {off} {s} {n}"), &match r { Ok(m) => show_mlt(m), Err(()) => "panic".into() });
                if i % 12 == 2 || i % 12 == 3 {
                    // the `unwrap` form: panics exactly when timestamp_opt is None, else the same value
                    let ru = guard(|| fo.timestamp(s, n));
                    let same = match (&ru, &r) {
                        (Ok(z), Ok(MappedLocalTime::Single(z2))) => z == z2 && z.offset() == z2.offset(),
                        (Err(()), Ok(MappedLocalTime::None)) => true,
                        _ => false,
                    };
                    if !same || ru.is_ok() != want {
                        fl.hit(c, "TimeZone::timestamp (unwrap form) does not panic exactly when timestamp_opt is None / returns another value", &format!("ts.tz {off} {s} {n}"));
                    }
                    c.count(if ru.is_ok() { "tz(unwrap):value" } else { "tz(unwrap):panic" });
                    c.op(&format!("ts.tz {off} {s} {n}"), &match ru { Ok(z) => show_z(&z), Err(()) => "panic".into() });
                }
            }
            4 => {
                let r = guard(|| Utc.timestamp_opt(s, n));
                if let (Ok(m), Ok(o)) = (&r, &got) {
                    if m.clone().single().map(|z| z.naive_utc()) != *o {
                        fl.hit(c, "Utc.timestamp_opt differs from DateTime::from_timestamp", &format!("ts.tz_opt 0 {s} {n}"));
                    }
                }
                c.op(&format!("ts.tz_opt 0 {s} {n}"), &match r { Ok(m) => show_mlt(m), Err(()) => "panic".into() });
            }
            _ => {}
        }
    }
    c.sample(&format!("ts.from {hi} 1999999999 -> {}", gs(|| DateTime::from_timestamp(hi, 1_999_999_999).map(|d| d.naive_utc()), show_odt)));
    c.sample(&format!("ts.from {} 0 -> {}", hi + 1, gs(|| DateTime::from_timestamp(hi + 1, 0).map(|d| d.naive_utc()), show_odt)));

    // ======== sub-second units =================================================================
    let n_unit = c.n(150_000, 1_500_000);
    for (uname, unit) in [("ms", 1_000i128), ("us", 1_000_000), ("ns", NS)] {
        let mut xs: Vec<i64> = vec![0, 1, -1, i64::MIN, i64::MAX, i64::MIN + 1, i64::MAX - 1];
        for d in -2i128..=2 {
            xs.push(clamp_i64(lo as i128 * unit + d));
            xs.push(clamp_i64((hi as i128 + 1) * unit - 1 + d));
            xs.push(clamp_i64(unit + d));
            xs.push(clamp_i64(-unit + d));
            xs.push(clamp_i64(86_400 * unit + d));
            xs.push(clamp_i64(-86_400 * unit + d));
        }
        {
            // dense sweep: every count in a window around 0, both range ends, both i64 ends, one day before the epoch
            let w = c.n(300, 3000) as i128;
            let before = xs.len();
            for ctr in [0i128, lo as i128 * unit, (hi as i128 + 1) * unit, i64::MIN as i128, i64::MAX as i128, -86_400 * unit, 86_400 * unit] {
                for d in -w..=w {
                    let x = ctr + d;
                    if x >= i64::MIN as i128 && x <= i64::MAX as i128 {
                        xs.push(x as i64);
                    }
                }
            }
            c.count_n(&format!("{uname}:dense sweep (every count of the window around 0, the range ends, the i64 ends, +-1 day)"), (xs.len() - before) as u64);
        }
        for _ in 0..n_unit {
            let x = gen_count(c, unit, &pts);
            xs.push(x);
        }
        for (i, &x) in xs.iter().enumerate() {
            let secs = (x as i128).div_euclid(unit);
            let sub_ns = (x as i128).rem_euclid(unit) * (NS / unit);
            let in_range = lo as i128 <= secs && secs <= hi as i128;
            // Result<Option<NaiveDateTime>, ()>; for ns the constructor is infallible by signature
            let got: Result<Option<NaiveDateTime>, ()> = match uname {
                "ms" => guard(|| DateTime::from_timestamp_millis(x).map(|d| d.naive_utc())),
                "us" => guard(|| DateTime::from_timestamp_micros(x).map(|d| d.naive_utc())),
                _ => guard(|| Some(DateTime::from_timestamp_nanos(x).naive_utc())),
            };
            let line = format!("ts.from_{uname} {x}");
            c.op(&line, &match &got { Ok(o) => show_odt(*o), Err(()) => "panic".into() });
            c.count(&format!("{uname}:{}", if !in_range { "none(out of range)" } else if x < 0 && sub_ns != 0 { "some(negative, fractional: floor != truncate)" } else if x < 0 { "some(negative, whole second)" } else { "some(non-negative)" }));
            match &got {
                Ok(Some(dt)) => {
                    if !in_range || inst_ns(dt) != x as i128 * (NS / unit) {
                        fl.hit(c, "sub-second constructor: the value is not floor-exactly the given count from the epoch", &format!("{line} -> {} = {} ns", show_dt(dt), inst_ns(dt)));
                    } else {
                        let u = dt.and_utc();
                        let back: Result<Option<i64>, ()> = match uname {
                            "ms" => guard(|| Some(u.timestamp_millis())),
                            "us" => guard(|| Some(u.timestamp_micros())),
                            _ => guard(|| u.timestamp_nanos_opt()),
                        };
                        if back != Ok(Some(x)) {
                            fl.hit(c, "reading the count back in the same unit does not return it", &format!("{line} -> {} -> {:?}", show_dt(dt), back));
                        }
                    }
                }
                Ok(None) => {
                    if in_range {
                        fl.hit(c, "sub-second constructor refused a representable instant", &line);
                    }
                }
                Err(()) => fl.hit(c, "sub-second constructor panicked", &line),
            }
            // deprecated NaiveDateTime forms (two of them carry their own Euclidean split) and TimeZone wrappers
            match (uname, i % 4) {
                ("ms", 0) => c.op(&format!("ts.nfrom_ms {x}"), &gs(|| NaiveDateTime::from_timestamp_millis(x), show_odt)),
                ("us", 0) | ("us", 1) => {
                    let r = guard(|| NaiveDateTime::from_timestamp_micros(x));
                    if r != got {
                        fl.hit(c, "NaiveDateTime::from_timestamp_micros differs from DateTime::from_timestamp_micros", &line);
                    }
                    c.op(&format!("ts.nfrom_us {x}"), &match r { Ok(o) => show_odt(o), Err(()) => "panic".into() });
                }
                ("ns", 0) | ("ns", 1) => {
                    let r = guard(|| NaiveDateTime::from_timestamp_nanos(x));
                    if r != got {
                        fl.hit(c, "NaiveDateTime::from_timestamp_nanos differs from DateTime::from_timestamp_nanos", &line);
                    }
                    c.op(&format!("ts.nfrom_ns {x}"), &match r { Ok(o) => show_odt(o), Err(()) => "panic".into() });
                }
                (_, 3) if i % 8 == 3 => {
                    // the same wrappers on the `Utc` zone type (modelled as offset 0)
                    let r: Result<Option<DateTime<Utc>>, ()> = match uname {
                        "ms" => guard(|| Utc.timestamp_millis_opt(x).single()),
                        "us" => guard(|| Utc.timestamp_micros(x).single()),
                        _ => guard(|| Some(Utc.timestamp_nanos(x))),
                    };
                    if r.map(|o| o.map(|z| z.naive_utc())) != got {
                        fl.hit(c, "Utc.timestamp_millis_opt/_micros/_nanos differ from DateTime::from_timestamp_*", &line);
                    }
                    let opn = match uname { "ms" => "tz_ms_opt", "us" => "tz_us", _ => "tz_ns" };
                    c.op(&format!("ts.{opn} 0 {x}"), &match r { Ok(Some(z)) => show_z(&z), Ok(None) => "none".into(), Err(()) => "panic".into() });
                    c.count("utc-typed sub-second wrappers");
                }
                (_, 2) => {
                    let off = gen_off(c);
                    let fo = FixedOffset::east_opt(off).unwrap();
                    match uname {
                        "ms" => {
                            c.op(&format!("ts.tz_ms_opt {off} {x}"), &gs(|| fo.timestamp_millis_opt(x), show_mlt));
                            if i % 8 == 2 {
                                let ru = guard(|| fo.timestamp_millis(x));
                                if ru.as_ref().ok().map(|z| z.naive_utc()) != got.clone().ok().flatten() || ru.is_ok() != in_range {
                                    fl.hit(c, "TimeZone::timestamp_millis (unwrap form) does not panic exactly when timestamp_millis_opt is None / returns another value", &format!("ts.tz_ms {off} {x}"));
                                }
                                c.count(if ru.is_ok() { "tz_ms(unwrap):value" } else { "tz_ms(unwrap):panic" });
                                c.op(&format!("ts.tz_ms {off} {x}"), &match ru { Ok(z) => show_z(&z), Err(()) => "panic".into() });
                            }
                        }
                        "us" => c.op(&format!("ts.tz_us {off} {x}"), &gs(|| fo.timestamp_micros(x), show_mlt)),
                        _ => {
                            let r = guard(|| fo.timestamp_nanos(x));
                            if let (Ok(z), Ok(o)) = (&r, &got) {
                                if Some(z.naive_utc()) != *o || guard(|| z.timestamp_nanos_opt()) != Ok(Some(x)) {
                                    fl.hit(c, "TimeZone::timestamp_nanos: a fixed offset changed the instant", &format!("ts.tz_ns {off} {x}"));
                                }
                            }
                            c.op(&format!("ts.tz_ns {off} {x}"), &match r { Ok(z) => show_z(&z), Err(()) => "panic".into() });
                        }
                    }
                }
                _ => {}
            }
        }
    }
    c.sample(&format!("ts.from_ns {} -> {}", i64::MIN, gs(|| DateTime::from_timestamp_nanos(i64::MIN).naive_utc(), |d| show_dt(&d))));
    c.sample(&format!("ts.from_ms -1 -> {}", gs(|| DateTime::from_timestamp_millis(-1).map(|d| d.naive_utc()), show_odt)));

    // ======== accessors on arbitrary representable values =====================================
    let mut vals: Vec<NaiveDateTime> = vec![NaiveDateTime::MIN, NaiveDateTime::MAX];
    {
        // both ends of the i64-nanosecond window (i64::MIN ns = 1677-09-21T00:12:43.145224192,
        // i64::MAX ns = 2262-04-11T23:47:16.854775807), one ns inside and one ns outside, built from
        // calendar fields only; plus leap-second representations on the seconds around them (the
        // workaround's `timestamp + 1` step)
        let mk = |y: i32, m: u32, d: u32, s: u32, f: u32| {
            NaiveDateTime::new(
                NaiveDate::from_ymd_opt(y, m, d).unwrap(),
                NaiveTime::from_num_seconds_from_midnight_opt(s, 0).unwrap().with_nanosecond(f).unwrap(),
            )
        };
        for f in [145_224_192u32, 145_224_193, 145_224_191] {
            vals.push(mk(1677, 9, 21, 763, f));
        }
        for f in [854_775_807u32, 854_775_806, 854_775_808] {
            vals.push(mk(2262, 4, 11, 85_636, f));
        }
        for (y, m, d, s) in [(1677, 9, 21, 763u32), (1677, 9, 21, 762), (1677, 9, 21, 761), (2262, 4, 11, 85_636), (2262, 4, 11, 85_635)] {
            for f in [1_000_000_000u32, 1_145_224_191, 1_145_224_192, 1_145_224_193, 1_854_775_807, 1_854_775_808, 1_999_999_999] {
                vals.push(mk(y, m, d, s, f));
            }
        }
        // the one second on which the pre-32de816 workaround failed (F27), densely: nanosecond fields
        // around 1_145_224_192 (count = i64::MIN) and across the whole leap half, plus the neighbours
        for _ in 0..c.n(400, 4000) {
            let f = match c.rng.below(4) {
                0 => (1_145_224_192i64 + c.rng.range(-3, 3)) as u32,
                1 => 1_145_224_192 + c.rng.below(854_775_808) as u32,
                2 => 1_000_000_000 + c.rng.nanos(),
                _ => c.rng.nanos(),
            };
            let s = *c.rng.pick(&[762u32, 762, 762, 761, 763]);
            vals.push(mk(1677, 9, 21, s, f));
        }
        if inst_ns(&vals[2]) != i64::MIN as i128 || inst_ns(&vals[5]) != i64::MAX as i128 {
            fl.hit(c, "harness self-check: the window-end values are misplaced", "");
        }
    }
    {
        // dense around the epoch and both range ends, for the SystemTime conversion (Ok / Err branch of
        // duration_since, the borrow of the Err branch, a leap second carried into the next second)
        for (d, secs) in [(NaiveDate::from_ymd_opt(1969, 12, 31).unwrap(), 86_399u32), (NaiveDate::from_ymd_opt(1969, 12, 31).unwrap(), 86_398), (NaiveDate::from_ymd_opt(1970, 1, 1).unwrap(), 0), (NaiveDate::from_ymd_opt(1970, 1, 1).unwrap(), 1), (NaiveDate::MIN, 0), (NaiveDate::MIN, 1), (NaiveDate::MAX, 86_399), (NaiveDate::MAX, 86_398)] {
            for f in [0u32, 1, 2, 499_999_999, 500_000_000, 999_999_998, 999_999_999, 1_000_000_000, 1_000_000_001, 1_500_000_000, 1_999_999_999] {
                vals.push(NaiveDateTime::new(d, NaiveTime::from_num_seconds_from_midnight_opt(secs, 0).unwrap().with_nanosecond(f).unwrap()));
            }
        }
    }
    {
        // dense sweep: a value on EVERY second of a window around the epoch, both range ends (inside) and
        // both ends of the i64-nanosecond window, nanosecond fields rotating through non-leap and leap
        // classes (leap-second representations on any second); all of them also go through SystemTime
        let w = c.n(100, 1000) as i64;
        let before = vals.len();
        let mut k = 0usize;
        for ctr in [0i64, lo, hi, i64::MIN / 1_000_000_000, i64::MAX / 1_000_000_000] {
            for d in -w..=w {
                let s = ctr.saturating_add(d);
                if s < lo || s > hi {
                    continue;
                }
                vals.push(dt_at(s, FRAC_CLASSES[(k + k / 60) % FRAC_CLASSES.len()]));
                k += 1;
            }
        }
        c.count_n("get:dense sweep (a value on every second of the window around 0, the range ends, the i64-nanosecond window ends)", (vals.len() - before) as u64);
    }
    let n_hand = vals.len();
    let n_vals = c.n(200_000, 2_400_000);
    for _ in 0..n_vals {
        let v = gen_dt(c, &pts);
        vals.push(v);
    }
    for (i, dt) in vals.iter().enumerate() {
        let u = dt.and_utc();
        let key = show_dt(dt);
        let (es, ens) = (inst_secs(dt), inst_ns(dt));
        let frac = dt.time().nanosecond();
        let leap = frac >= 1_000_000_000;
        let strict = !leap || dt.time().num_seconds_from_midnight() % 60 == 59;
        let ts = guard(|| u.timestamp());
        let ms = guard(|| u.timestamp_millis());
        let us = guard(|| u.timestamp_micros());
        let nsopt = guard(|| u.timestamp_nanos_opt());
        let subs = guard(|| (u.timestamp_subsec_millis(), u.timestamp_subsec_micros(), u.timestamp_subsec_nanos()));
        let got = format!(
            "{} {} {} {} {}",
            pr(ts), pr(ms), pr(us),
            match &nsopt { Ok(o) => opt(*o), Err(()) => "panic".into() },
            match &subs { Ok(t) => format!("{} {} {}", t.0, t.1, t.2), Err(()) => "panic panic panic".into() }
        );
        c.op(&format!("ts.get {key}"), &got);
        c.count(if leap { if strict { "get:leap on :59" } else { "get:leap elsewhere (with_nanosecond)" } } else if es < 0 { "get:before epoch" } else { "get:epoch or later" });
        c.count(if fits_i64(ens) { "get:nanos fit i64" } else { "get:nanos outside i64" });
        if (ens - i64::MIN as i128).abs() <= 2 * NS || (ens - i64::MAX as i128).abs() <= 2 * NS {
            c.count("get:within 2 s of an end of the i64-nanosecond window");
        }
        if ts != Ok(es as i64) {
            fl.hit(c, "timestamp() is not the number of seconds from the epoch", &format!("ts.get {key} -> {:?}, expected {es}", ts));
        }
        if ms != Ok(ens.div_euclid(1_000_000) as i64) || us != Ok(ens.div_euclid(1000) as i64) {
            fl.hit(c, "timestamp_millis()/timestamp_micros() are not the floor of the exact count", &format!("ts.get {key} -> {:?} {:?}", ms, us));
        }
        if subs != Ok((frac / 1_000_000, frac / 1000, frac)) {
            fl.hit(c, "timestamp_subsec_* are not the truncated nanosecond field", &format!("ts.get {key}"));
        }
        match &nsopt {
            Ok(Some(v)) => {
                if *v as i128 != ens {
                    fl.hit(c, "timestamp_nanos_opt returned a wrong count", &format!("ts.get {key} -> {v}, expected {ens}"));
                }
                if es == -9_223_372_038 && frac >= 1_145_224_192 {
                    c.count("get:F27 class (second -9223372038, leap field, count fits i64): count reported");
                }
            }
            Ok(None) => {
                // every representable value (theorem nanos_opt_exact_all): absence only when the count
                // does not fit.  A leap-second representation off second 59 (only `with_nanosecond`
                // builds one) is reported under its own prefix: that was finding F27 (repaired 32de816)
                if fits_i64(ens) && strict {
                    fl.hit(c, "timestamp_nanos_opt reports absence although the count fits in 64 bits", &format!("ts.get {key}, count {ens}"));
                } else if fits_i64(ens) {
                    fl.hit(c, "F27: timestamp_nanos_opt reports absence for a leap-second representation off second 59 whose count fits in 64 bits", &format!("ts.get {key}, count {ens}"));
                }
            }
            Err(()) => fl.hit(c, "timestamp_nanos_opt panicked", &format!("ts.get {key}")),
        }
        // the other direction of the round trip: rebuilding from (timestamp, subsec_nanos)
        if let Ok(t) = ts {
            let back = guard(|| DateTime::from_timestamp(t, frac).map(|d| d.naive_utc()));
            if strict && back != Ok(Some(*dt)) {
                fl.hit(c, "from_timestamp(timestamp(), subsec_nanos()) is not the value itself", &format!("ts.get {key} -> {:?}", back.map(show_odt)));
            }
            if !strict && back != Ok(None) {
                fl.hit(c, "from_timestamp accepted a leap-second field on a second other than 59", &format!("ts.get {key}"));
            }
            if !leap {
                if guard(|| DateTime::from_timestamp_millis(ms.unwrap_or(0)).map(|d| d.naive_utc())) != Ok(dt.with_nanosecond(frac / 1_000_000 * 1_000_000))
                    || guard(|| DateTime::from_timestamp_micros(us.unwrap_or(0)).map(|d| d.naive_utc())) != Ok(dt.with_nanosecond(frac / 1000 * 1000))
                {
                    fl.hit(c, "from_timestamp_millis/micros of the value's own count is not the value truncated to that unit", &format!("ts.get {key}"));
                }
                if let Ok(Some(v)) = nsopt {
                    if guard(|| DateTime::from_timestamp_nanos(v).naive_utc()) != Ok(*dt) {
                        fl.hit(c, "from_timestamp_nanos(timestamp_nanos_opt()) is not the value itself", &format!("ts.get {key}"));
                    }
                }
            }
        }
        match i % 4 {
            0 => {
                // through a zone-aware view: the offset must not enter
                let off = gen_off(c);
                let z = u.with_timezone(&FixedOffset::east_opt(off).unwrap());
                let zg = format!(
                    "{} {} {} {}",
                    pr(guard(|| z.timestamp())), pr(guard(|| z.timestamp_millis())), pr(guard(|| z.timestamp_micros())),
                    match guard(|| z.timestamp_nanos_opt()) { Ok(o) => opt(o), Err(()) => "panic".into() }
                );
                if !got.starts_with(&zg) {
                    fl.hit(c, "the timestamp of a zone-aware value depends on its offset", &format!("ts.zget {key} {off} -> {zg} vs {got}"));
                }
                c.op(&format!("ts.zget {key} {off}"), &zg);
                let zn = guard(|| z.timestamp_nanos());
                let zs = format!(
                    "{} {}",
                    match guard(|| (z.timestamp_subsec_millis(), z.timestamp_subsec_micros(), z.timestamp_subsec_nanos())) { Ok(t) => format!("{} {} {}", t.0, t.1, t.2), Err(()) => "panic panic panic".into() },
                    pr(zn)
                );
                if !got.ends_with(&zs[..zs.rfind(' ').unwrap()]) {
                    fl.hit(c, "the sub-second accessors of a zone-aware value depend on its offset", &format!("ts.zsub {key} {off} -> {zs} vs {got}"));
                }
                // the `expect` form: panics exactly when timestamp_nanos_opt is None, else the same count
                if zn.ok() != nsopt.clone().ok().flatten() {
                    fl.hit(c, "DateTime::timestamp_nanos (expect form) does not panic exactly when timestamp_nanos_opt is None / returns another count", &format!("ts.zsub {key} {off} -> {zs}"));
                }
                c.op(&format!("ts.zsub {key} {off}"), &zs);
                if leap {
                    c.count("zsub:leap-second value through a fixed offset");
                }
            }
            1 => {
                let un = guard(|| u.timestamp_nanos());
                if un.ok() != nsopt.clone().ok().flatten() {
                    fl.hit(c, "DateTime::timestamp_nanos (expect form) does not panic exactly when timestamp_nanos_opt is None / returns another count", &format!("ts.nanos {key}"));
                }
                c.count(if un.is_ok() { "nanos(expect):value" } else { "nanos(expect):panic" });
                c.op(&format!("ts.nanos {key}"), &pr(un));
                c.op(
                    &format!("ts.nget {key}"),
                    &format!(
                        "{} {} {} {} {} {}",
                        pr(guard(|| dt.timestamp())), pr(guard(|| dt.timestamp_millis())), pr(guard(|| dt.timestamp_micros())),
                        match guard(|| dt.timestamp_nanos_opt()) { Ok(o) => opt(o), Err(()) => "panic".into() },
                        match guard(|| (dt.timestamp_subsec_millis(), dt.timestamp_subsec_micros(), dt.timestamp_subsec_nanos())) { Ok(t) => format!("{} {} {}", t.0, t.1, t.2), Err(()) => "panic panic panic".into() },
                        pr(guard(|| dt.timestamp_nanos()))
                    ),
                );
                // deprecated NaiveDateTime accessors delegate
                if guard(|| (dt.timestamp(), dt.timestamp_millis(), dt.timestamp_micros(), dt.timestamp_nanos_opt(), dt.timestamp_subsec_nanos()))
                    != guard(|| (u.timestamp(), u.timestamp_millis(), u.timestamp_micros(), u.timestamp_nanos_opt(), u.timestamp_subsec_nanos()))
                {
                    fl.hit(c, "deprecated NaiveDateTime::timestamp* differ from and_utc().timestamp*", &format!("ts.get {key}"));
                }
            }
            2 => {
                c.op(&format!("ts.and_utc {key}"), &show_z(&u));
                if u.naive_utc() != *dt {
                    fl.hit(c, "and_utc().naive_utc() is not the identity", &key);
                }
            }
            _ => {}
        }
        // SystemTime: a quarter of the random values, every hand-made one
        if i % 4 == 3 || i < n_hand {
            {
                let st = guard(|| SystemTime::from(u));
                c.op(&format!("ts.to_st {key}"), &match &st { Ok(t) => { let (s, n) = st_obs(*t); format!("{s} {n}") } Err(()) => "panic".into() });
                match &st {
                    Ok(t) => {
                        let (s, n) = st_obs(*t);
                        if s * NS + n as i128 != ens {
                            // a leap-second value lands `frac` ns after the start of its second: the same formula
                            fl.hit(c, "SystemTime::from(DateTime) is not the same instant", &format!("ts.to_st {key} -> {s} {n}"));
                        }
                        let back = guard(|| DateTime::<Utc>::from(*t).naive_utc());
                        if !leap && back != Ok(*dt) {
                            fl.hit(c, "DateTime -> SystemTime -> DateTime is not the identity", &format!("ts.to_st {key}"));
                        }
                        if leap {
                            // theorem leap_st_back: the system time is `frac - 10^9` ns into the FOLLOWING second;
                            // converting back gives the non-leap value at the same position there, and panics
                            // exactly when the value sits on the last representable second (the following
                            // second is outside the range, as for every system time outside it)
                            let last = es == hi as i128;
                            match &back {
                                Err(()) if last => c.count("st:leap-second value on the last representable second: following second outside the range, From<SystemTime> panics"),
                                Ok(v) if !last && inst_ns(v) == ens && v.nanosecond() < 1_000_000_000 && inst_secs(v) == es + 1 => {
                                    c.count(if strict { "st:leap-second value on :59 comes back as the non-leap value in the following second" } else { "st:leap-second value off :59 comes back as the non-leap value in the following second" })
                                }
                                _ => fl.hit(c, "leap-second value -> SystemTime -> DateTime<Utc>: not the non-leap value at the same position in the following second / not a panic exactly on the last representable second", &format!("ts.to_st {key} -> {s} {n} -> {:?}", back.map(|v| show_dt(&v)))),
                            }
                            if s != es + 1 || n as i128 != frac as i128 - NS {
                                fl.hit(c, "SystemTime::from(leap-second value) is not `frac - 10^9` ns into the following second", &format!("ts.to_st {key} -> {s} {n}"));
                            }
                        }
                    }
                    Err(()) => fl.hit(c, "SystemTime::from(DateTime) panicked", &format!("ts.to_st {key}")),
                }
                // the conversion is generic in the zone: a fixed offset must not enter
                let off = gen_off(c);
                let zf = u.with_timezone(&FixedOffset::east_opt(off).unwrap());
                if guard(|| SystemTime::from(zf)).map(st_obs) != st.map(st_obs) {
                    fl.hit(c, "SystemTime::from(DateTime<FixedOffset>) depends on the offset", &format!("ts.to_st {key} (offset {off})"));
                }
            }
        }
    }
    c.sample(&format!("ts.get {} -> nanos {}", show_dt(&vals[2]), gs(|| vals[2].and_utc().timestamp_nanos_opt(), opt)));
    c.sample(&format!("ts.get {} -> nanos {}", show_dt(&vals[4]), gs(|| vals[4].and_utc().timestamp_nanos_opt(), opt)));

    // ======== the same through DateTime<Local> (real zones; the offset must not enter) ==========
    {
        let n_loc = c.n(2_500, 30_000);
        for tz in ["America/New_York", "Europe/London", "Australia/Lord_Howe", "Asia/Kolkata", "Pacific/Apia", "EST5EDT,M3.2.0,M11.1.0", "<-03:30>3:30"] {
            if !tz.contains(',') && !tz.contains('<') && !std::path::Path::new("/usr/share/zoneinfo").join(tz).exists() {
                c.count("local:zone file not installed (skipped)");
                continue;
            }
            // the hand-made window-end / F27 values, then a random share of everything generated above
            let head = vals.len().min(500);
            let mut lv: Vec<NaiveDateTime> = vals[..head].to_vec();
            for _ in 0..n_loc {
                lv.push(vals[c.rng.below(vals.len() as u64) as usize]);
            }
            let mut lc: Vec<(i64, u32)> = cases[..cases.len().min(300)].to_vec();
            for _ in 0..n_loc {
                lc.push(cases[c.rng.below(cases.len() as u64) as usize]);
            }
            let mut lx: Vec<(i64, u8)> = vec![];
            for unit in 0..3u8 {
                let u = [1_000i128, 1_000_000, NS][unit as usize];
                for x in [0i64, -1, 1, i64::MIN, i64::MAX, clamp_i64(lo as i128 * u), clamp_i64(lo as i128 * u - 1), clamp_i64((hi as i128 + 1) * u - 1), clamp_i64((hi as i128 + 1) * u)] {
                    lx.push((x, unit));
                }
                for _ in 0..n_loc / 3 {
                    lx.push((gen_count(c, u, &pts), unit));
                }
            }
            // system times for `DateTime::<Local>::from`: around the epoch (both branches of duration_since,
            // the borrow), both range ends (inside and outside), the platform extremes, and random ones
            let mut ls: Vec<(i64, u32)> = vec![(i64::MIN, 0), (i64::MIN + 1, 1), (i64::MAX, 999_999_999), (i64::MAX, 0)];
            for s0 in [0i64, lo, hi, -86_400, 86_400, i64::MIN / 1_000_000_000, i64::MAX / 1_000_000_000] {
                for ds in -3i64..=3 {
                    for n in [0u32, 1, 499_999_999, 500_000_000, 999_999_999] {
                        ls.push((s0 + ds, n));
                    }
                }
            }
            for _ in 0..n_loc {
                let s = gen_secs(c, &pts);
                let n = if c.rng.chance(1, 3) { *c.rng.pick(&[0u32, 1, 999_999_999, 500_000_000]) } else { c.rng.nanos() };
                ls.push((s, n));
            }
            let (ops, fails, cnt) = through_local(tz, lv, lc, lx, ls);
            for (line, got) in ops {
                c.op(&line, &got);
            }
            for (what, detail) in fails {
                fl.hit(c, &what, &detail);
            }
            for (k, n) in cnt {
                c.count_n(&k, n);
            }
        }
    }

    // ======== SystemTime -> DateTime<Utc> =======================================================
    let n_st = c.n(80_000, 800_000);
    let mut sts: Vec<(i64, u32)> = vec![(0, 0), (0, 1), (-1, 999_999_999), (-1, 0), (-1, 1), (1, 0), (lo, 0), (hi, 999_999_999), (lo - 1, 999_999_999), (hi + 1, 0), (i64::MIN, 0), (i64::MIN, 1), (i64::MIN + 1, 0), (i64::MAX, 999_999_999), (i64::MAX, 0)];
    for s0 in [0i64, lo, hi, -86_400, 86_400, i64::MIN / 1_000_000_000, i64::MAX / 1_000_000_000] {
        for ds in -3i64..=3 {
            for n in [0u32, 1, 2, 499_999_999, 500_000_000, 999_999_998, 999_999_999] {
                sts.push((s0 + ds, n));
            }
        }
    }
    {
        // dense sweep: every second of a window around the epoch and both range ends
        let w = c.n(300, 3000) as i64;
        let ncl = [0u32, 1, 2, 499_999_999, 500_000_000, 999_999_998, 999_999_999];
        let before = sts.len();
        let mut k = 0usize;
        for ctr in [0i64, lo, hi] {
            for d in -w..=w {
                sts.push((ctr + d, ncl[k % ncl.len()]));
                k += 1;
            }
        }
        c.count_n("st:dense sweep (every second of the window around the epoch and both range ends)", (sts.len() - before) as u64);
    }
    for _ in 0..n_st {
        let s = gen_secs(c, &pts);
        let n = match c.rng.below(3) {
            0 => *c.rng.pick(&[0u32, 1, 999_999_999, 500_000_000, 999_999_998]),
            _ => c.rng.nanos(),
        };
        sts.push((s, n));
    }
    for (s, n) in sts {
        let Some(t) = st_make(s, n) else {
            c.count("st:not constructible on this platform");
            continue;
        };
        debug_assert_eq!(st_obs(t), (s as i128, n));
        let got = guard(|| DateTime::<Utc>::from(t).naive_utc());
        c.op(&format!("ts.from_st {s} {n}"), &match &got { Ok(d) => show_dt(d), Err(()) => "panic".into() });
        let in_range = lo <= s && s <= hi;
        c.count(if !in_range { "st:outside the range (panic expected)" } else if s < 0 && n != 0 { "st:before epoch, fractional (Err branch, borrow)" } else if s < 0 { "st:before epoch, whole second (Err branch)" } else { "st:epoch or later (Ok branch)" });
        match &got {
            Ok(dt) => {
                if !in_range || inst_ns(dt) != s as i128 * NS + n as i128 {
                    fl.hit(c, "DateTime::<Utc>::from(SystemTime) is not the same instant", &format!("ts.from_st {s} {n} -> {}", show_dt(dt)));
                } else if guard(|| st_obs(SystemTime::from(dt.and_utc()))) != Ok((s as i128, n)) {
                    fl.hit(c, "SystemTime -> DateTime -> SystemTime is not the identity", &format!("ts.from_st {s} {n}"));
                }
            }
            Err(()) => {
                if in_range {
                    fl.hit(c, "DateTime::<Utc>::from(SystemTime) panicked on a representable instant", &format!("ts.from_st {s} {n}"));
                }
            }
        }
    }
}
