//! C17 — rounding and truncation land on the right multiple (src/round.rs).
//!
//! Correspondence: every `duration_trunc/round/round_up` call on a real `NaiveDateTime` or
//! `DateTime<FixedOffset>` is sent to the model as `rd.<op> utc_secs subsec offset dur.secs dur.nanos`;
//! the implementation's reply is `ok <signed ns moved>` / `err <kind>` / `panic`.  The harness reads
//! the fields itself (`timestamp()`, `timestamp_subsec_nanos()`, `offset()`), so the wall-clock stamp
//! the model computes is independent of `timestamp_nanos_opt`.
//! The same call is also sent at the value level: `rd.n.<op> yof secs frac dur.secs dur.nanos`
//! (NaiveDateTime: packed date word, seconds of day, nanosecond field) and
//! `rd.z.<op> yof secs frac off dur.secs dur.nanos` (DateTime<FixedOffset>: the UTC reading and the
//! offset); the reply is the RETURNED VALUE in the same encoding (`ok yof secs frac [off]`), so the
//! model's `timestamp_nanos_opt` of the (wall-clock) reading and its `original +- TimeDelta` are
//! compared with the crate on every case (Props/C17.lean `naive_result`, `zoned_result`).
//! Direct oracles (i128 arithmetic on the implementation's own results): multiple of the span on the
//! wall-clock stamp, less than one span moved, trunc <= x <= round_up, nearer with ties up,
//! multiples fixed, idempotence, the exact error conditions, no panic.
use super::c01::yof;
use crate::ctx::*;
use chrono::{
    DateTime, DurationRound, FixedOffset, Local, NaiveDate, NaiveDateTime, NaiveTime, Offset, RoundingError,
    SubsecRound, TimeDelta, TimeZone, Timelike, Utc,
};
use std::collections::BTreeMap;

const NS: i128 = 1_000_000_000;
const I64_MIN: i128 = i64::MIN as i128;
const I64_MAX: i128 = i64::MAX as i128;
const DAY: i128 = 86_400 * NS;

fn raw_td(d: &TimeDelta) -> (i64, i64) {
    let s = format!("{:?}", d);
    let nums: Vec<i64> = s
        .split(|c: char| !(c.is_ascii_digit() || c == '-'))
        .filter(|t| !t.is_empty())
        .filter_map(|t| t.parse().ok())
        .collect();
    (nums[0], nums[1])
}
fn td_ns(d: &TimeDelta) -> i128 {
    let (s, n) = raw_td(d);
    s as i128 * NS + n as i128
}

/// what the harness observes of a value, without going through the functions under test
trait Obs: Copy + PartialEq + std::fmt::Debug + DurationRound<Err = RoundingError> + SubsecRound + Timelike {
    const KIND: &'static str;
    fn utc_secs(&self) -> i64;
    fn subsec(&self) -> u32;
    fn off(&self) -> i32;
    fn since(&self, o: &Self) -> TimeDelta;
    /// the crate's own stamp (`None` also when `naive_local` is not representable)
    fn crate_stamp(&self) -> Option<Option<i64>>;
    /// value-level op prefix and encoding of the value (packed date word, seconds of day, field[, offset])
    const VOP: &'static str;
    fn enc(&self) -> String;
}
fn enc_naive(dt: &NaiveDateTime) -> String {
    format!("{} {} {}", yof(&dt.date()), dt.time().num_seconds_from_midnight(), dt.time().nanosecond())
}
impl Obs for NaiveDateTime {
    const KIND: &'static str = "naive";
    fn utc_secs(&self) -> i64 {
        self.and_utc().timestamp()
    }
    fn subsec(&self) -> u32 {
        self.and_utc().timestamp_subsec_nanos()
    }
    fn off(&self) -> i32 {
        0
    }
    fn since(&self, o: &Self) -> TimeDelta {
        self.signed_duration_since(*o)
    }
    fn crate_stamp(&self) -> Option<Option<i64>> {
        Some(self.and_utc().timestamp_nanos_opt())
    }
    const VOP: &'static str = "rd.n";
    fn enc(&self) -> String {
        enc_naive(self)
    }
}
impl Obs for DateTime<FixedOffset> {
    const KIND: &'static str = "fixed";
    fn utc_secs(&self) -> i64 {
        self.timestamp()
    }
    fn subsec(&self) -> u32 {
        self.timestamp_subsec_nanos()
    }
    fn off(&self) -> i32 {
        self.offset().local_minus_utc()
    }
    fn since(&self, o: &Self) -> TimeDelta {
        self.signed_duration_since(*o)
    }
    fn crate_stamp(&self) -> Option<Option<i64>> {
        guard(|| self.naive_local().and_utc().timestamp_nanos_opt()).ok()
    }
    const VOP: &'static str = "rd.z";
    fn enc(&self) -> String {
        format!("{} {}", enc_naive(&self.naive_utc()), self.offset().local_minus_utc())
    }
}

/// `DateTime<Utc>` as such (audit 2, LOW-3): the model's zone-aware value with offset 0
impl Obs for DateTime<Utc> {
    const KIND: &'static str = "utc";
    fn utc_secs(&self) -> i64 {
        self.timestamp()
    }
    fn subsec(&self) -> u32 {
        self.timestamp_subsec_nanos()
    }
    fn off(&self) -> i32 {
        0
    }
    fn since(&self, o: &Self) -> TimeDelta {
        self.signed_duration_since(*o)
    }
    fn crate_stamp(&self) -> Option<Option<i64>> {
        Some(self.timestamp_nanos_opt())
    }
    const VOP: &'static str = "rd.z";
    fn enc(&self) -> String {
        format!("{} 0", enc_naive(&self.naive_utc()))
    }
}

/// UTC position on the line that counts a leap second's extra 10^9 ns (field values >= 10^9)
fn utc_line<T: Obs>(x: &T) -> i128 {
    x.utc_secs() as i128 * NS + x.subsec() as i128
}
fn wall_line<T: Obs>(x: &T) -> i128 {
    (x.utc_secs() as i128 + x.off() as i128) * NS + x.subsec() as i128
}

#[derive(Clone, Copy, PartialEq)]
enum OpK {
    Trunc,
    Round,
    Up,
}
impl OpK {
    fn name(self) -> &'static str {
        match self {
            OpK::Trunc => "trunc",
            OpK::Round => "round",
            OpK::Up => "up",
        }
    }
    fn call<T: Obs>(self, x: T, d: TimeDelta) -> Result<T, RoundingError> {
        match self {
            OpK::Trunc => x.duration_trunc(d),
            OpK::Round => x.duration_round(d),
            OpK::Up => x.duration_round_up(d),
        }
    }
    /// the property's answer on integers (w in i64, 0 < span <= i64::MAX), as the new position
    fn spec(self, w: i128, span: i128) -> i128 {
        let lo = w - w.rem_euclid(span);
        let hi = w + (-w).rem_euclid(span);
        match self {
            OpK::Trunc => lo,
            OpK::Up => hi,
            OpK::Round => {
                if hi - w <= w - lo {
                    hi
                } else {
                    lo
                }
            }
        }
    }
}

fn err_name(e: RoundingError) -> &'static str {
    match e {
        RoundingError::DurationExceedsTimestamp => "err DurationExceedsTimestamp",
        RoundingError::DurationExceedsLimit => "err DurationExceedsLimit",
        RoundingError::TimestampExceedsLimit => "err TimestampExceedsLimit",
    }
}

/// one value x one duration: the three operations, correspondence line + direct oracles
fn case<T: Obs>(c: &mut Ctx, x: T, dur: TimeDelta, tag: &str) {
    let (ds, dn) = raw_td(&dur);
    let span = td_ns(&dur);
    let w = wall_line(&x);
    let leap = x.subsec() >= 1_000_000_000;
    let in_win = (I64_MIN..=I64_MAX).contains(&w);
    // the crate's own stamp must be the wall-clock line position (relation taken from C02)
    if let Some(cs) = x.crate_stamp() {
        let mine = if in_win { Some(w as i64) } else { None };
        if cs != mine {
            c.fail(
                "timestamp_nanos_opt of the wall-clock reading differs from (secs+offset)*10^9+subsec",
                &format!("{:?}: crate {:?}, fields give {:?}", x, cs, mine),
            );
        }
    }
    c.count(&format!("kind:{}{}", T::KIND, if x.off() != 0 { ":off!=0" } else { "" }));
    if leap {
        c.count("stamp:leap-second-field");
    }
    let mut results: [Option<i128>; 3] = [None; 3];
    for (i, op) in [OpK::Trunc, OpK::Round, OpK::Up].into_iter().enumerate() {
        let nm = op.name();
        let res = guard(|| op.call(x, dur));
        let line = format!("rd.{} {} {} {} {} {}", nm, x.utc_secs(), x.subsec(), x.off(), ds, dn);
        // value level: the whole call on the value itself, reply = the returned value
        let vline = format!("{}.{} {} {} {}", T::VOP, nm, x.enc(), ds, dn);
        c.op(
            &vline,
            &match &res {
                Err(()) => "panic".to_string(),
                Ok(Err(e)) => err_name(*e).to_string(),
                Ok(Ok(r)) => format!("ok {}", r.enc()),
            },
        );
        let what = |s: &str| format!("{}: {}", nm, s);
        let ctxs = format!("{:?} (wall stamp {}) by {} ns [{}]", x, w, span, tag);
        match res {
            Err(()) => {
                c.op(&line, "panic");
                c.count(&format!("{nm}:panic"));
                c.fail(&what("panicked (must return Ok or Err)"), &ctxs);
            }
            Ok(Err(e)) => {
                c.op(&line, err_name(e));
                let expect = if span <= 0 || span > I64_MAX {
                    Some(RoundingError::DurationExceedsLimit)
                } else if !in_win {
                    Some(RoundingError::TimestampExceedsLimit)
                } else {
                    None
                };
                c.count(&format!(
                    "{nm}:{}",
                    match e {
                        RoundingError::DurationExceedsLimit if span <= 0 => "err:span<=0",
                        RoundingError::DurationExceedsLimit => "err:span>i64",
                        RoundingError::TimestampExceedsLimit if w > I64_MAX => "err:stamp>i64",
                        RoundingError::TimestampExceedsLimit => "err:stamp<i64",
                        _ => "err:other",
                    }
                ));
                if expect != Some(e) {
                    c.fail(&what("failure reported although/other than the property says"), &format!("{ctxs}: got {:?}, property says {:?}", e, expect));
                }
            }
            Ok(Ok(r)) => {
                // signed ns moved, two ways: the crate's own difference, and field arithmetic
                let d_line = utc_line(&r) - utc_line(&x);
                let r_leap = r.subsec() >= 1_000_000_000;
                if !leap && !r_leap {
                    let d_sd = td_ns(&r.since(&x));
                    if d_sd != d_line {
                        c.fail(&what("result - original differs between signed_duration_since and field arithmetic"), &format!("{ctxs}: {d_sd} vs {d_line}"));
                    }
                }
                // Inside a leap second (field >= 10^9) chrono's `+` counts the leap second as a real
                // second (C07) while timestamps do not: a move that leaves the leap second forwards
                // reads back 10^9 ns short.  `d` is the amount actually added.
                let crossed = leap && r.utc_secs() > x.utc_secs();
                let d = if crossed { d_line + NS } else { d_line };
                c.op(&line, &format!("ok {} {}", d, wall_line(&r)));
                if r.off() != x.off() {
                    c.fail(&what("offset changed"), &ctxs);
                }
                if span <= 0 || span > I64_MAX || !in_win {
                    c.fail(&what("Ok although the property demands an error"), &format!("{ctxs} -> {:?}", r));
                    continue;
                }
                results[i] = Some(w + d);
                let wr = w + d; // position of the result on the wall-clock line
                let rem = w.rem_euclid(span);
                let side = if w < 0 { "neg" } else if w == 0 { "zero" } else { "pos" };
                let cls = if rem == 0 {
                    "multiple"
                } else if op == OpK::Round {
                    if 2 * rem == span {
                        "tie"
                    } else if 2 * rem > span {
                        "goes-up"
                    } else {
                        "goes-down"
                    }
                } else {
                    "inexact"
                };
                c.count(&format!("{nm}:{side}:{cls}"));
                if span > w.abs() {
                    c.count(&format!("{nm}:span>|stamp|"));
                }
                if DAY % span != 0 && span % DAY != 0 {
                    c.count(&format!("{nm}:span-not-day-aligned"));
                }
                if leap {
                    // KNOWN FINDING F19 (known_findings.json; Props/C17.lean
                    // `leap_second_round_up_reads_back_short`): on the line that counts the leap second
                    // the result is the right multiple (checked below with the normal what-strings); read
                    // back as a plain timestamp it is 1 s short of the specified multiple when the move
                    // leaves the leap second forwards.  Raised only for inputs whose nanosecond field is
                    // >= 10^9; the same deviation on any other input is reported by the oracles below.
                    if crossed {
                        c.count("leap:rounded upwards past the end of the leap second");
                    }
                    // the exact account (theorems `naive_result_leap`, `zoned_result_leap`): the timestamp of
                    // the result is the specified multiple m, except m - 10^9 when field + (m - w) >= 2*10^9
                    let m = op.spec(w, span);
                    let passes_end = x.subsec() as i128 + (m - w) >= 2 * NS;
                    let told = if passes_end { m - NS } else { m };
                    if wall_line(&r) != told {
                        c.fail(
                            &what("leap-second input: result is neither the multiple nor (past the end of the leap second) one second before it"),
                            &format!("{ctxs} -> {:?}: stamp {}, theorem says {}", r, wall_line(&r), told),
                        );
                    }
                    if passes_end != crossed || (r_leap != ((x.subsec() as i128 + (m - w)) >= NS && !passes_end)) {
                        c.fail(&what("leap-second input: the result is a leap-second value exactly when it stays in the same leap second"), &format!("{ctxs} -> {:?}", r));
                    }
                    if wall_line(&r) != op.spec(w, span) {
                        c.count("leap:timestamp of the result is not the specified multiple (F19)");
                        c.fail(
                            "leap-second input: rounding result is not the specified multiple",
                            &format!(
                                "{:?}.duration_{}({} ns) = {:?}: wall-clock stamp {} -> {}, specified multiple {}",
                                x,
                                if nm == "up" { "round_up" } else { nm },
                                span,
                                r,
                                w,
                                wall_line(&r),
                                op.spec(w, span)
                            ),
                        );
                    }
                } else if wall_line(&r) != wr {
                    c.fail(&what("internal: result position"), &ctxs);
                }
                if wr.rem_euclid(span) != 0 {
                    c.fail(&what("result is not a multiple of the span on the wall-clock stamp"), &format!("{ctxs} -> {:?} (stamp {})", r, wr));
                }
                if d.abs() >= span {
                    c.fail(&what("result is one span or more away from the input"), &format!("{ctxs} -> moved {d}"));
                }
                if rem == 0 && d != 0 {
                    c.fail(&what("a multiple of the span was changed"), &format!("{ctxs} -> moved {d}"));
                }
                match op {
                    OpK::Trunc if d > 0 => c.fail(&what("result after the input"), &ctxs),
                    OpK::Up if d < 0 => c.fail(&what("result before the input"), &ctxs),
                    OpK::Round if 2 * rem == span && d < 0 => c.fail(&what("a tie went down"), &format!("{ctxs} -> moved {d}")),
                    OpK::Round if 2 * d.abs() > span => c.fail(&what("not the nearer multiple"), &format!("{ctxs} -> moved {d}")),
                    _ => {}
                }
                if wr != op.spec(w, span) {
                    c.fail(&what("result differs from the property's value"), &format!("{ctxs} -> stamp {wr}, property says {}", op.spec(w, span)));
                }
                // idempotence / multiples are fixed points (the result may have left the i64 window)
                if !leap {
                    let again = guard(|| op.call(r, dur));
                    let r_in = (I64_MIN..=I64_MAX).contains(&wr);
                    match again {
                        Ok(Ok(r2)) if r_in && r2 == r => c.count(&format!("{nm}:idempotent")),
                        Ok(Err(RoundingError::TimestampExceedsLimit)) if !r_in => c.count(&format!("{nm}:result-left-window")),
                        other => c.fail(&what("not idempotent"), &format!("{ctxs} -> {:?} -> {:?}", r, other)),
                    }
                } else {
                    // leap-second input, the second call (Props/C17.lean `naive_result_leap_properties`,
                    // `zoned_result_leap_properties`): if the move stays before the end of the leap second the
                    // result is a fixed point (or, outside the window, exactly TimestampExceedsLimit); if it
                    // passes the end, the result (stamp m - 10^9) is a fixed point exactly when the span
                    // divides one second
                    let m = op.spec(w, span);
                    let passes_end = x.subsec() as i128 + (m - w) >= 2 * NS;
                    let again = guard(|| op.call(r, dur));
                    let same = matches!(&again, Ok(Ok(r2)) if *r2 == r);
                    let in64 = |v: i128| (I64_MIN..=I64_MAX).contains(&v);
                    let ok = if !passes_end {
                        if in64(m) { same } else { again == Ok(Err(RoundingError::TimestampExceedsLimit)) }
                    } else {
                        same == (in64(m - NS) && NS % span == 0)
                    };
                    if !ok {
                        c.fail(&what("leap-second input: the second call is not what the theorem says (fixed point iff the move stays in the leap second, or the span divides one second)"), &format!("{ctxs} -> {:?} -> {:?}", r, again));
                    }
                    c.count(&format!(
                        "leap:second call:{}",
                        if same { if passes_end { "fixed point past the end (span divides 1 s)" } else { "fixed point" } } else if passes_end { "moves again (past the end, span does not divide 1 s; F19)" } else { "result left the window" }
                    ));
                }
            }
        }
    }
    if let [Some(t), Some(r), Some(u)] = results {
        if !(t <= w && w <= u && (r == t || r == u) && (u - t == 0 || u - t == span)) {
            c.fail("trunc <= x <= round_up, round is one of them, they are 0 or 1 span apart", &format!("{:?} by {span}: {t} {r} {u}", x));
        }
    }
}

/// value with wall-clock line position `w` at offset `off` (None when chrono cannot represent it)
fn mk(w: i128, off: i32) -> Option<(NaiveDateTime, DateTime<FixedOffset>)> {
    let naive = {
        let s = w.div_euclid(NS);
        let n = w.rem_euclid(NS) as u32;
        DateTime::<Utc>::from_timestamp(i64::try_from(s).ok()?, n)?.naive_utc()
    };
    let u = w - off as i128 * NS;
    let s = u.div_euclid(NS);
    let n = u.rem_euclid(NS) as u32;
    let utc = DateTime::<Utc>::from_timestamp(i64::try_from(s).ok()?, n)?;
    let fo = FixedOffset::east_opt(off)?;
    Some((naive, utc.with_timezone(&fo)))
}

const OFFS: [i32; 24] = [
    0, 1, -1, 59, 60, -60, 3599, 3600, -3600, 3601, -3601, 19800, 20700, -12600, 34200, 43200, -43200, 50400, 86399, -86399, 86340,
    -86340, 7, -7,
];
fn gen_off(c: &mut Ctx) -> i32 {
    match c.rng.below(4) {
        0 => 0,
        1 | 2 => *c.rng.pick(&OFFS),
        _ => c.rng.range(-86399, 86399) as i32,
    }
}

fn special_spans() -> Vec<i64> {
    let mut v: Vec<i64> = vec![
        1, 2, 3, 4, 5, 7, 10, 97, 999, 1000, 1001, 1_000_000, 999_999_999, 1_000_000_000, 1_000_000_001, 1_000_000_007,
        1_500_000_000, 7_000_000_000, 60_000_000_000, 3_600_000_000_000, 3_600_000_000_001, 86_400_000_000_000, 86_399_999_999_999,
        86_400_000_000_001, 43_200_000_000_000, 604_800_000_000_000, 2_629_746_000_000_000, 31_556_952_000_000_000,
        1_000_000_000_000_000_000, 1 << 62, (1 << 62) - 1, (1 << 62) + 1, i64::MAX, i64::MAX - 1, i64::MAX / 2, i64::MAX / 2 + 1,
        i64::MAX / 3, 1 << 32, (1 << 32) - 1, (1 << 31), 1 << 53,
    ];
    for k in 0..=18 {
        v.push(10i64.pow(k));
    }
    v
}
fn gen_span(c: &mut Ctx, specials: &[i64]) -> i64 {
    match c.rng.below(6) {
        0 | 1 => *c.rng.pick(specials),
        2 => c.rng.range(1, i64::MAX),
        3 => c.rng.log_i64().unsigned_abs().clamp(1, i64::MAX as u64) as i64,
        4 => c.rng.range(1, 100),
        _ => {
            // k whole seconds / minutes / a fraction of a day, +-1
            let base = *c.rng.pick(&[1_000_000_000i64, 60_000_000_000, 3_600_000_000_000, 86_400_000_000_000]);
            (base.saturating_mul(c.rng.range(1, 400)) + c.rng.range(-1, 1)).max(1)
        }
    }
}
/// wall-clock stamps inside the i64 window, directed at the branch boundaries for this span
fn gen_stamp(c: &mut Ctx, span: i64) -> i128 {
    let sp = span as i128;
    let lo = I64_MIN.div_euclid(sp) + 1; // multiples lo*sp .. hi*sp are inside the window
    let hi = I64_MAX.div_euclid(sp);
    let pick_k = |c: &mut Ctx| -> i128 {
        let k = match c.rng.below(6) {
            0 => 0,
            1 => *c.rng.pick(&[1i128, -1, 2, -2]),
            2 => lo,
            3 => hi,
            4 => c.rng.range(-1000, 1000) as i128,
            _ => c.rng.range(lo as i64, hi as i64) as i128,
        };
        k.clamp(lo - 1, hi)
    };
    let v = match c.rng.below(8) {
        0 => *c.rng.pick(&[0i128, 1, -1, 2, -2, I64_MIN, I64_MIN + 1, I64_MAX, I64_MAX - 1, 999_999_999, -999_999_999, 1_000_000_000, -1_000_000_000]),
        1 | 2 => pick_k(c) * sp + c.rng.range(-1, 1) as i128,
        3 | 4 => {
            // exact ties and their neighbours; for odd spans both halves
            let half = if c.rng.chance(1, 2) { sp / 2 } else { (sp + 1) / 2 };
            pick_k(c) * sp + half + c.rng.range(-1, 1) as i128
        }
        5 => c.rng.range(i64::MIN, i64::MAX) as i128,
        6 => c.rng.log_i64() as i128,
        _ => c.rng.range(-3, 3) as i128 * sp + c.rng.range(-5, 5) as i128,
    };
    v.clamp(I64_MIN, I64_MAX)
}

fn subsec_case<T: Copy + PartialEq + std::fmt::Debug + SubsecRound + Timelike>(
    c: &mut Ctx,
    x: T,
    digits: u16,
    secs_of: impl Fn(&T) -> i64,
    modulus: i64,
    vop: &str,
    enc: impl Fn(&T) -> String,
) {
    let frac = x.nanosecond() as i128;
    let span: i128 = 10i128.pow(9 - (digits.min(9) as u32));
    let leap = frac >= NS;
    let base: i128 = if leap { NS } else { 0 };
    for round in [false, true] {
        let nm = if round { "rsub" } else { "tsub" };
        let res = guard(|| if round { x.round_subsecs(digits) } else { x.trunc_subsecs(digits) });
        let line = format!("rd.{} {} {}", nm, frac, digits);
        let ctxs = format!("{:?} to {} digits", x, digits);
        // value level: the call on the value itself, reply = the returned value (or the documented
        // panic of `+` at the very end of the range)
        c.op(
            &format!("{}.{} {} {}", vop, nm, enc(&x), digits),
            &match &res {
                Err(()) => "panic".to_string(),
                Ok(r) => enc(r),
            },
        );
        let r = match res {
            Err(()) => {
                if vop != "rd.t" && x.nanosecond() as i128 + (span - frac.rem_euclid(span)) >= base + NS && round {
                    // Props/C17.lean `naive_subsecs_spec`: exactly when the carried second lies after
                    // NaiveDateTime::MAX; the model must say `panic` too (line above)
                    c.count(&format!("{nm}:panic at the end of the range (documented `+` overflow)"));
                    continue;
                }
                c.op(&line, "panic");
                c.fail(&format!("{nm}: panicked"), &ctxs);
                continue;
            }
            Ok(r) => r,
        };
        let carry = (secs_of(&r) - secs_of(&x)).rem_euclid(modulus);
        c.op(&line, &format!("{} {}", r.nanosecond(), carry));
        // position of the result on the line of the current second
        let pos: i128 = match carry {
            0 => r.nanosecond() as i128,
            1 => base + NS + r.nanosecond() as i128,
            _ => {
                c.fail(&format!("{nm}: moved by more than one second"), &format!("{ctxs} -> {:?}", r));
                continue;
            }
        };
        let down = frac.rem_euclid(span);
        let expect = if !round || 2 * down < span { frac - down } else { frac - down + span };
        c.count(&format!(
            "{nm}:{}:{}",
            if leap { "leap" } else { "plain" },
            if down == 0 { "exact" } else if round && 2 * down == span { "tie" } else if expect > frac { if carry == 1 { "up-carry" } else { "up" } } else { "down" }
        ));
        if digits >= 9 && r != x {
            c.fail(&format!("{nm}: 9 or more digits must return the value unchanged"), &ctxs);
        }
        if pos != expect {
            c.fail(&format!("{nm}: wrong sub-second result"), &format!("{ctxs} -> {:?}: line position {pos}, property says {expect}", r));
        }
        if pos.rem_euclid(span) != 0 || (pos - frac).abs() >= span {
            c.fail(&format!("{nm}: not the multiple within one span"), &format!("{ctxs} -> {:?}", r));
        }
        if leap && carry == 0 && (r.nanosecond() as i128) < NS {
            c.fail(&format!("{nm}: leap-second fraction lost"), &format!("{ctxs} -> {:?}", r));
        }
        if carry == 1 && r.nanosecond() != 0 {
            c.fail(&format!("{nm}: carried second with a non-zero fraction"), &format!("{ctxs} -> {:?}", r));
        }
        let again = guard(|| if round { r.round_subsecs(digits) } else { r.trunc_subsecs(digits) });
        if again != Ok(r) {
            c.fail(&format!("{nm}: not idempotent"), &format!("{ctxs} -> {:?} -> {:?}", r, again));
        }
    }
}

/// what one `dst_zone_batch` hands back: correspondence cases, oracle failures, class counters, samples
type ZoneOut = (Vec<(String, String)>, Vec<(String, String)>, BTreeMap<String, u64>, Vec<String>);

/// OBSERVATION block (audit 2, MEDIUM-1; outside C17's quantifier, which says "offsets"): the operations on
/// `DateTime<Local>` under a `TZ` whose offset changes (a fresh thread = a fresh zone cache), on instants
/// within about one span of a transition.  Judged: what holds for ANY zone (Props/C17.lean `tz_vs_fixed`,
/// `tz_result`): never a panic; an error exactly when the same call on the same instant at the FIXED offset
/// the value carries errs, and the same one; otherwise the INSTANT of the result is that of the fixed-offset
/// call, which is the input's instant moved by the distance from its wall-clock stamp to the specified
/// multiple (i128 arithmetic); an unmoved value is returned as it is; a moved one carries the offset the
/// zone prescribes at the new instant; and the wall-clock stamp of the result is the multiple plus the
/// change of offset.  COUNTED, not judged (`observation:dst-zone …`): results whose wall-clock stamp is
/// therefore not the specified multiple.
fn dst_zone_batch(tz: &str, seed: u64, n_cases: usize) -> ZoneOut {
    let old = std::env::var("TZ").ok();
    std::env::set_var("TZ", tz);
    let tzs = tz.to_string();
    let out = std::thread::spawn(move || {
        let mut ops: Vec<(String, String)> = vec![];
        let mut fails: Vec<(String, String)> = vec![];
        let mut cnt: BTreeMap<String, u64> = BTreeMap::new();
        let mut samples: Vec<String> = vec![];
        let mut st = seed | 1;
        let mut rnd = move || {
            st ^= st << 13;
            st ^= st >> 7;
            st ^= st << 17;
            st
        };
        let off_at = |s: i64| -> i32 { Local.offset_from_utc_datetime(&DateTime::<Utc>::from_timestamp(s, 0).unwrap().naive_utc()).fix().local_minus_utc() };
        // the transitions of the zone between 2007 and 2027 (first UTC second at the new offset)
        let mut trans: Vec<i64> = vec![];
        let (start, end, step) = (1_167_609_600i64, 1_798_761_600i64, 6 * 3600);
        let mut t = start;
        let mut prev = off_at(t);
        while t < end {
            let n = t + step;
            let o = off_at(n);
            if o != prev {
                let (mut lo, mut hi) = (t, n); // off(lo) = prev, off(hi) != prev
                while hi - lo > 1 {
                    let mid = lo + (hi - lo) / 2;
                    if off_at(mid) == prev {
                        lo = mid;
                    } else {
                        hi = mid;
                    }
                }
                trans.push(hi);
            }
            prev = o;
            t = n;
        }
        *cnt.entry(format!("dst-zone:transitions found 2007..2027 in TZ={tzs}")).or_insert(0) += trans.len() as u64;
        if trans.is_empty() {
            // a zone without transitions in that period: the block degenerates to a fixed offset
            trans.push(1_700_000_000);
        }
        let spans: [i64; 14] = [
            1_000_000_000, 60_000_000_000, 900_000_000_000, 1_800_000_000_000, 3_600_000_000_000, 5_400_000_000_000, 7_200_000_000_000,
            10_800_000_000_000, 21_600_000_000_000, 43_200_000_000_000, 86_400_000_000_000, 604_800_000_000_000, 3_600_000_000_001, 86_399_999_999_999,
        ];
        for i in 0..n_cases {
            let tr = trans[(rnd() % trans.len() as u64) as usize];
            let span: i64 = if i % 16 == 15 { 1 + (rnd() % 200_000_000_000_000) as i64 } else { spans[(rnd() % spans.len() as u64) as usize] };
            let span_s = span / 1_000_000_000 + 1;
            let delta: i64 = match rnd() % 8 {
                0 => 0,
                1 => -1,
                2 => 1,
                3 => span_s - 1,
                4 => -span_s,
                5 => span_s / 2,
                _ => (rnd() % (2 * span_s as u64 + 1)) as i64 - span_s,
            };
            let nanos: u32 = if rnd() % 3 == 0 { 0 } else { (rnd() % 1_000_000_000) as u32 };
            let dur = match i % 97 {
                96 => TimeDelta::zero(),
                95 => TimeDelta::nanoseconds(-span),
                _ => TimeDelta::nanoseconds(span),
            };
            let (ds, dn) = raw_td(&dur);
            let sp = td_ns(&dur);
            let utc = DateTime::<Utc>::from_timestamp(tr + delta, nanos).unwrap();
            let x: DateTime<Local> = match guard(|| Local.from_utc_datetime(&utc.naive_utc())) {
                Ok(x) => x,
                Err(()) => {
                    fails.push(("dst-zone: Local.from_utc_datetime panicked".into(), format!("TZ={tzs} {:?}", utc)));
                    continue;
                }
            };
            let off = x.offset().fix().local_minus_utc();
            let f: DateTime<FixedOffset> = x.with_timezone(&FixedOffset::east_opt(off).unwrap());
            let w = (utc.timestamp() as i128 + off as i128) * NS + nanos as i128;
            let u_line = utc.timestamp() as i128 * NS + nanos as i128;
            for op in [OpK::Trunc, OpK::Round, OpK::Up] {
                let nm = op.name();
                let rl = guard(|| match op {
                    OpK::Trunc => x.duration_trunc(dur),
                    OpK::Round => x.duration_round(dur),
                    OpK::Up => x.duration_round_up(dur),
                });
                let rf = guard(|| op.call(f, dur));
                let ctxs = format!("TZ={tzs} {:?} (offset {off}, wall stamp {w}) .duration_{nm}({sp} ns)", x);
                let roff = match &rl {
                    Ok(Ok(r)) => guard(|| Local.offset_from_utc_datetime(&r.naive_utc()).fix().local_minus_utc()).unwrap_or(0),
                    _ => 0,
                };
                ops.push((
                    format!("rd.l.{} {} {} {} {} {}", nm, enc_naive(&utc.naive_utc()), off, roff, ds, dn),
                    match &rl {
                        Err(()) => "panic".to_string(),
                        Ok(Err(e)) => err_name(*e).to_string(),
                        Ok(Ok(r)) => format!("ok {} {}", enc_naive(&r.naive_utc()), r.offset().fix().local_minus_utc()),
                    },
                ));
                match (rl, rf) {
                    (Err(()), _) => fails.push((format!("dst-zone: {nm}: panicked"), ctxs)),
                    (_, Err(())) => fails.push((format!("dst-zone: {nm}: the fixed-offset call panicked"), ctxs)),
                    (Ok(Err(a)), Ok(Err(b))) => {
                        *cnt.entry(format!("dst-zone:{nm}:error, as at the fixed offset")).or_insert(0) += 1;
                        let want = if sp <= 0 { RoundingError::DurationExceedsLimit } else { RoundingError::TimestampExceedsLimit };
                        if a != b || a != want {
                            fails.push((format!("dst-zone: {nm}: another error than at the fixed offset / than the property says"), format!("{ctxs}: {:?} vs {:?}", a, b)));
                        }
                    }
                    (Ok(Ok(r)), Ok(Ok(g))) => {
                        if sp <= 0 {
                            fails.push((format!("dst-zone: {nm}: Ok for a non-positive span"), ctxs.clone()));
                            continue;
                        }
                        let m = op.spec(w, sp);
                        let r_line = r.timestamp() as i128 * NS + r.timestamp_subsec_nanos() as i128;
                        let r_off = r.offset().fix().local_minus_utc();
                        let r_wall = r_line + r_off as i128 * NS;
                        if r.naive_utc() != g.naive_utc() {
                            fails.push((format!("dst-zone: {nm}: the instant of the result differs from that of the same call at the fixed offset"), format!("{ctxs} -> {:?} vs {:?}", r, g)));
                        }
                        if r_line != u_line + (m - w) {
                            fails.push((format!("dst-zone: {nm}: the instant of the result is not the input's instant moved by the wall-clock distance to the specified multiple"), format!("{ctxs} -> {:?}: moved {}, specified {}", r, r_line - u_line, m - w)));
                        }
                        if m == w && (r != x || r_off != off) {
                            fails.push((format!("dst-zone: {nm}: a multiple of the span was changed"), format!("{ctxs} -> {:?}", r)));
                        }
                        if m != w && r_off != roff {
                            fails.push((format!("dst-zone: {nm}: the result does not carry the offset the zone prescribes at its instant"), format!("{ctxs} -> {:?}, zone says {roff}", r)));
                        }
                        if r_wall != m + (r_off - off) as i128 * NS {
                            fails.push((format!("dst-zone: {nm}: wall-clock stamp of the result is not the multiple plus the change of offset"), format!("{ctxs} -> {:?}", r)));
                        }
                        if r_wall != m {
                            let key = format!("observation:dst-zone {nm}: wall-clock stamp of the result is not the specified multiple (the zone's offset at the result differs from the offset at the input)");
                            let e = cnt.entry(key).or_insert(0);
                            *e += 1;
                            if *e == 1 && samples.len() < 2 {
                                samples.push(format!("observation:dst-zone TZ={tzs} {:?}.duration_{}({} ns) = {:?}: wall-clock stamp {} -> {}, specified multiple {}", x, if nm == "up" { "round_up" } else { nm }, sp, r, w, r_wall, m));
                            }
                        } else {
                            *cnt.entry(format!("dst-zone:{nm}: wall-clock stamp of the result is the specified multiple{}", if r_off != off { " (?)" } else { "" })).or_insert(0) += 1;
                        }
                    }
                    (a, b) => fails.push((format!("dst-zone: {nm}: Ok/Err differs from the same call at the fixed offset"), format!("{ctxs}: {:?} vs {:?}", a, b))),
                }
            }
            // SubsecRound in the zone: the same instant as at the fixed offset (Props/C17.lean `tz_subsecs_vs_fixed`)
            if i % 4 == 0 {
                let digits = (rnd() % 10) as u16;
                for round in [false, true] {
                    let nm = if round { "rsub" } else { "tsub" };
                    let rl = guard(|| if round { x.round_subsecs(digits) } else { x.trunc_subsecs(digits) });
                    let rf = guard(|| if round { f.round_subsecs(digits) } else { f.trunc_subsecs(digits) });
                    let roff = match &rl {
                        Ok(r) => guard(|| Local.offset_from_utc_datetime(&r.naive_utc()).fix().local_minus_utc()).unwrap_or(0),
                        _ => 0,
                    };
                    ops.push((
                        format!("rd.l.{} {} {} {} {}", nm, enc_naive(&utc.naive_utc()), off, roff, digits),
                        match &rl {
                            Err(()) => "panic".to_string(),
                            Ok(r) => format!("{} {}", enc_naive(&r.naive_utc()), r.offset().fix().local_minus_utc()),
                        },
                    ));
                    match (rl, rf) {
                        (Ok(r), Ok(g)) => {
                            *cnt.entry(format!("dst-zone:{nm}")).or_insert(0) += 1;
                            if r.naive_utc() != g.naive_utc() {
                                fails.push((format!("dst-zone: {nm}: the instant of the result differs from that of the same call at the fixed offset"), format!("TZ={tzs} {:?} to {digits} digits -> {:?} vs {:?}", x, r, g)));
                            }
                            if r.offset().fix().local_minus_utc() != off {
                                *cnt.entry(format!("observation:dst-zone {nm}: the result is at another offset than the input (carry across a transition)")).or_insert(0) += 1;
                            }
                        }
                        (a, b) => fails.push((format!("dst-zone: {nm}: panicked"), format!("TZ={tzs} {:?} to {digits} digits -> {:?} vs {:?}", x, a, b))),
                    }
                }
            }
        }
        (ops, fails, cnt, samples)
    })
    .join()
    .unwrap_or_else(|_| (vec![], vec![("the DateTime<Local> batch died".into(), tz.to_string())], BTreeMap::new(), vec![]));
    match old {
        Some(v) => std::env::set_var("TZ", v),
        None => std::env::remove_var("TZ"),
    }
    out
}

pub fn run(c: &mut Ctx) {
    let specials = special_spans();

    // ---- the specification itself against i128 arithmetic (validates Spec.Round, not chrono) -----
    let n_spec = c.n(4000, 40000);
    for _ in 0..n_spec {
        let span = gen_span(c, &specials);
        let w = gen_stamp(c, span);
        let sp = span as i128;
        let line = format!("rd.spec {} {}", w, span);
        c.op(&line, &format!("{} {} {}", OpK::Trunc.spec(w, sp), OpK::Up.spec(w, sp), OpK::Round.spec(w, sp)));
    }

    // ---- every special span x special stamps x both receivers -------------------------------------
    for &span in &specials {
        let sp = span as i128;
        let dur = TimeDelta::nanoseconds(span);
        let mut ws: Vec<i128> = vec![0, 1, -1, I64_MIN, I64_MIN + 1, I64_MAX, I64_MAX - 1];
        for k in [0i128, 1, -1, 2, -2, I64_MAX.div_euclid(sp), I64_MIN.div_euclid(sp) + 1] {
            for e in [-1i128, 0, 1] {
                ws.push(k * sp + e);
                ws.push(k * sp + sp / 2 + e);
                ws.push(k * sp + (sp + 1) / 2 + e);
            }
        }
        for w in ws {
            if !(I64_MIN..=I64_MAX).contains(&w) {
                continue;
            }
            let off = *c.rng.pick(&OFFS);
            if let Some((n, f)) = mk(w, off) {
                case(c, n, dur, "special");
                case(c, f, dur, "special");
                case(c, n.and_utc(), dur, "special");
            }
        }
    }

    // ---- generated (stamp, span, offset) -----------------------------------------------------------
    let n_gen = c.n(25000, 400000);
    for i in 0..n_gen {
        let span = gen_span(c, &specials);
        let w = gen_stamp(c, span);
        let off = gen_off(c);
        let dur = TimeDelta::nanoseconds(span);
        if let Some((n, f)) = mk(w, off) {
            if i % 8 == 7 {
                case(c, n.and_utc(), dur, "gen");
            } else if i % 2 == 0 {
                case(c, n, dur, "gen");
            } else {
                case(c, f, dur, "gen");
            }
            if i < 6 {
                c.sample(&format!("{:?} (wall stamp {}) by {} ns: trunc {:?} round {:?} up {:?}", f, w, span, f.duration_trunc(dur), f.duration_round(dur), f.duration_round_up(dur)));
            }
        }
    }

    // ---- durations that must be refused ------------------------------------------------------------
    let bad: Vec<TimeDelta> = {
        let mut v = vec![
            TimeDelta::zero(),
            TimeDelta::nanoseconds(-1),
            TimeDelta::nanoseconds(-1_000_000_000),
            TimeDelta::nanoseconds(i64::MIN),
            TimeDelta::nanoseconds(i64::MIN + 1),
            TimeDelta::seconds(-1),
            TimeDelta::days(-1),
            TimeDelta::MIN,
            TimeDelta::MAX,
            TimeDelta::new(9_223_372_036, 854_775_808).unwrap(), // i64::MAX ns + 1
            TimeDelta::new(9_223_372_036, 854_775_807).unwrap(), // i64::MAX ns: accepted
            TimeDelta::new(9_223_372_036, 999_999_999).unwrap(),
            TimeDelta::new(9_223_372_037, 0).unwrap(),
            TimeDelta::new(-9_223_372_037, 145_224_192).unwrap(), // i64::MIN ns
            TimeDelta::new(-9_223_372_037, 145_224_191).unwrap(),
            TimeDelta::new(-1, 999_999_999).unwrap(),             // -1 ns
            TimeDelta::days(300 * 365),
            TimeDelta::weeks(20_000),
            TimeDelta::milliseconds(i64::MAX / 1000),
        ];
        let extra = c.n(200, 2000);
        for _ in 0..extra {
            let s = c.rng.range(9_223_372_036, i64::MAX / 1000);
            let n = c.rng.nanos();
            if let Some(d) = TimeDelta::new(s, n) {
                v.push(d);
            }
            let s = c.rng.range(-i64::MAX / 1000, 0);
            if let Some(d) = TimeDelta::new(s, n) {
                v.push(d);
            }
        }
        v
    };
    for d in &bad {
        for w in [0i128, 1, -1, 1_500_000_000_000_000_000, I64_MIN, I64_MAX, I64_MAX + 1, I64_MIN - 1, 12_000_000_000 * NS] {
            let off = *c.rng.pick(&OFFS);
            if let Some((n, f)) = mk(w, off) {
                case(c, n, *d, "bad-duration");
                case(c, f, *d, "bad-duration");
            }
        }
    }

    // ---- values outside the i64 window (must be Err, never a panic) --------------------------------
    let good: Vec<TimeDelta> = vec![
        TimeDelta::nanoseconds(1),
        TimeDelta::nanoseconds(7),
        TimeDelta::seconds(1),
        TimeDelta::hours(1),
        TimeDelta::days(1),
        TimeDelta::nanoseconds(i64::MAX),
    ];
    let mut outside: Vec<i128> = vec![];
    for e in [1i128, 2, 1000, NS, 3600 * NS, 86_399 * NS, 86_400 * NS, 86_401 * NS] {
        outside.push(I64_MAX + e);
        outside.push(I64_MIN - e);
    }
    for y in [2263i128, 2300, 3000, 9999, 10000, 100_000, 262_000, 1677, 1600, 1000, 1, 0, -1, -9999, -100_000, -262_000] {
        outside.push((y - 1970) * 31_556_952 * NS);
    }
    let n_out = c.n(300, 5000);
    for _ in 0..n_out {
        let e = c.rng.log_i64().unsigned_abs() as i128 + 1;
        outside.push(if c.rng.chance(1, 2) { I64_MAX + e } else { I64_MIN - e });
    }
    for &w in &outside {
        for d in &good {
            let off = gen_off(c);
            if let Some((n, f)) = mk(w, off) {
                case(c, n, *d, "outside");
                case(c, f, *d, "outside");
            }
        }
    }
    // the window edge seen through an offset: UTC inside / wall clock outside and the reverse
    let n_edge = c.n(2000, 30000);
    for _ in 0..n_edge {
        let off = loop {
            let o = gen_off(c);
            if o != 0 {
                break o;
            }
        };
        let top = c.rng.chance(1, 2);
        let edge = if top { I64_MAX } else { I64_MIN };
        // wall position within +-|off| seconds of the edge
        let w = edge + c.rng.range(-(off.abs() as i64) * 1_000_000_000 - 2, off.abs() as i64 * 1_000_000_000 + 2) as i128;
        let w = if c.rng.chance(1, 4) { edge + c.rng.range(-2, 2) as i128 } else { w };
        let span = gen_span(c, &specials);
        if let Some((_, f)) = mk(w, off) {
            let u = w - off as i128 * NS;
            let wi = (I64_MIN..=I64_MAX).contains(&w);
            let ui = (I64_MIN..=I64_MAX).contains(&u);
            c.count(match (wi, ui) {
                (true, true) => "edge:wall-in,utc-in",
                (true, false) => "edge:wall-in,utc-out",
                (false, true) => "edge:wall-out,utc-in",
                (false, false) => "edge:wall-out,utc-out",
            });
            case(c, f, TimeDelta::nanoseconds(span), "edge");
        }
    }
    // the ends of chrono's own range viewed at offsets (finding #5: was a panic)
    for base in [DateTime::<Utc>::MIN_UTC, DateTime::<Utc>::MAX_UTC] {
        for &off in OFFS.iter() {
            let f = base.with_timezone(&FixedOffset::east_opt(off).unwrap());
            for d in &good {
                c.count("range-end:MIN_UTC/MAX_UTC at an offset");
                case(c, f, *d, "range-end");
            }
        }
        for d in &good {
            case(c, base.naive_utc(), *d, "range-end");
            case(c, base, *d, "range-end");
        }
    }

    // ---- leap-second fields (nanosecond >= 10^9): correspondence + the extended-line oracle --------
    let n_leap = c.n(1500, 20000);
    for _ in 0..n_leap {
        let span = gen_span(c, &specials);
        let secs = c.rng.range(-9_223_372_000 / 60, 9_223_372_000 / 60) * 60 + 59;
        let frac = 1_000_000_000 + if c.rng.chance(1, 3) { *c.rng.pick(&[0u32, 1, 499_999_999, 500_000_000, 500_000_001, 999_999_999]) } else { c.rng.nanos() };
        if let Some(u) = DateTime::<Utc>::from_timestamp(secs, frac) {
            // offsets that are not whole minutes too: the leap-second field then sits on a wall-clock second
            // other than :59 (audit 2, LOW-3)
            let off = match c.rng.below(4) {
                0 => 0,
                1 | 2 => (c.rng.range(-1439, 1439) * 60) as i32,
                _ => gen_off(c),
            };
            if off % 60 != 0 {
                c.count("leap:field viewed at an offset that is not a whole minute");
            }
            if c.rng.chance(1, 8) {
                case(c, u, TimeDelta::nanoseconds(span), "leap");
            }
            case(c, u.naive_utc(), TimeDelta::nanoseconds(span), "leap");
            case(c, u.with_timezone(&FixedOffset::east_opt(off).unwrap()), TimeDelta::nanoseconds(span), "leap");
        }
    }

    // the wall-clock second -9223372038 with a leap-second field (reachable at offsets = 43 mod 60):
    // line position >= i64::MIN for fields >= 1_145_224_192; `timestamp_nanos_opt` refused these
    // before fix 32de816 (the negative-timestamp workaround overflowed): regression cases
    {
        let n_corner = c.n(60, 600);
        for i in 0..n_corner {
            let off = 60 * c.rng.range(-1439, 1438) as i32 + 43;
            let utc = -9_223_372_038i64 - off as i64;
            let frac = match i % 4 {
                0 => *c.rng.pick(&[1_145_224_191u32, 1_145_224_192, 1_145_224_193, 1_500_000_000, 1_999_999_999, 1_000_000_000]),
                _ => 1_000_000_000 + c.rng.nanos(),
            };
            let span = gen_span(c, &specials);
            if let Some(u) = DateTime::<Utc>::from_timestamp(utc, frac) {
                case(c, u.with_timezone(&FixedOffset::east_opt(off).unwrap()), TimeDelta::nanoseconds(span), "leap-corner");
            }
        }
        // the kernel-checked instance of Props/C17.lean (example after `zoned_result_leap`)
        let u = DateTime::<Utc>::from_timestamp(-9_223_372_081, 1_500_000_000).unwrap();
        let f = u.with_timezone(&FixedOffset::east_opt(43).unwrap());
        c.count("leap:1677-09-21T00:11:60.5Z at +00:00:43 (wall-clock stamp just inside the window)");
        case(c, f, TimeDelta::seconds(1), "leap-corner");
    }

    // the kernel-checked instance of the finding (Props/C17.lean), replayed on the crate
    {
        let x = NaiveDate::from_ymd_opt(2016, 12, 31).unwrap().and_hms_nano_opt(23, 59, 59, 1_500_000_000).unwrap();
        let r = guard(|| x.duration_round_up(TimeDelta::minutes(1)));
        let want = NaiveDate::from_ymd_opt(2017, 1, 1).unwrap().and_hms_opt(0, 0, 59).unwrap();
        if r == Ok(Ok(want)) {
            c.count("leap:F19 example 2016-12-31T23:59:60.5 .duration_round_up(1 min) = 2017-01-01T00:00:59 (reproduced)");
        } else {
            c.count("leap:F19 example 2016-12-31T23:59:60.5 .duration_round_up(1 min) no longer gives 00:00:59");
            c.sample(&format!("leap-second finding not reproduced: got {:?}", r));
        }
        case(c, x, TimeDelta::minutes(1), "leap");
    }

    // ---- OBSERVATION: zones whose offset changes (DateTime<Local>; outside the quantifier) ---------------
    {
        // the audit's instance, replayed on the crate (Props/C17.lean `dst_zone_trunc_is_not_wall_clock_midnight`)
        let old = std::env::var("TZ").ok();
        std::env::set_var("TZ", "America/New_York");
        let got = std::thread::spawn(|| {
            let u = NaiveDate::from_ymd_opt(2024, 11, 3).unwrap().and_hms_opt(17, 0, 0).unwrap();
            guard(|| {
                let x = Local.from_utc_datetime(&u);
                let r = x.duration_trunc(TimeDelta::days(1));
                (x.offset().fix().local_minus_utc(), r.map(|r| (r.naive_utc(), r.offset().fix().local_minus_utc())))
            })
        })
        .join()
        .unwrap_or(Err(()));
        match old {
            Some(v) => std::env::set_var("TZ", v),
            None => std::env::remove_var("TZ"),
        }
        let want = NaiveDate::from_ymd_opt(2024, 11, 3).unwrap().and_hms_opt(5, 0, 0).unwrap();
        if got == Ok((-18000, Ok((want, -14400)))) {
            c.count("observation:dst-zone America/New_York 2024-11-03 12:00 -05:00 .duration_trunc(1 day) = 01:00 -04:00 (reproduced)");
        } else {
            c.count("dst-zone:America/New_York example not reproduced (zone data differ?)");
            c.sample(&format!("dst-zone example: got {:?}", got));
        }
        let per_zone = c.n(400, 6000);
        for tz in ["America/New_York", "Europe/London", "Australia/Lord_Howe", "America/St_Johns", "Pacific/Apia", "Africa/Casablanca", "Asia/Kolkata"] {
            let seed = c.rng.next();
            let (ops, fails, cnt, samples) = dst_zone_batch(tz, seed, per_zone);
            for (line, got) in &ops {
                c.op(line, got);
            }
            for (what, detail) in &fails {
                c.fail(what, detail);
            }
            for (k, n) in &cnt {
                c.count_n(k, *n);
            }
            for t in &samples {
                c.sample(t);
            }
        }
    }

    // ---- SubsecRound ----------------------------------------------------------------------------------
    for d in 0..=u16::MAX as u32 {
        // every u16 digit count
        let expect: i128 = 10i128.pow(9 - d.min(9));
        c.op(&format!("rd.span {}", d), &expect.to_string());
        if d < 16 || d % 4099 == 0 || d == u16::MAX as u32 {
            // the private function is observed through trunc_subsecs on 999_999_999
            let t = NaiveTime::from_hms_nano_opt(1, 2, 3, 999_999_999).unwrap();
            let got = guard(|| t.trunc_subsecs(d as u16).nanosecond());
            let want = (999_999_999 - 999_999_999 % expect) as u32;
            if got != Ok(want) {
                c.fail("span_for_digits: wrong span", &format!("digits {d}: trunc_subsecs(999999999) = {:?}, expected {want}", got));
            }
        }
    }
    let digit_set: Vec<u16> = {
        let mut v: Vec<u16> = (0..=12).collect();
        v.extend([13, 100, 255, 256, 1000, 9999, 32767, 32768, u16::MAX - 1, u16::MAX]);
        v
    };
    let frac_specials: Vec<u32> = {
        let mut v = vec![0u32, 1, 999_999_999, 500_000_000, 499_999_999, 500_000_001, 154_000_000, 150_000_000, 5, 4, 6];
        for k in 0..9 {
            let p = 10u32.pow(k);
            v.extend([p, p - 1, p + 1, 5 * p, 5 * p - 1, 5 * p + 1, 1_000_000_000 - p, 1_000_000_000 - 5 * p, 1_000_000_000 - 5 * p - 1, 1_000_000_000 - 5 * p + 1]);
        }
        v.retain(|&x| x < 1_000_000_000);
        v
    };
    let dates: Vec<NaiveDate> = {
        let mut v = vec![NaiveDate::from_ymd_opt(2016, 12, 31).unwrap()];
        for (y, m, d) in [(1970, 1, 1), (1969, 12, 31), (2000, 2, 29), (1900, 2, 28), (2262, 4, 11), (1677, 9, 21), (1, 1, 1), (0, 12, 31), (-1, 1, 1), (9999, 12, 31), (10000, 1, 1)] {
            v.push(NaiveDate::from_ymd_opt(y, m, d).unwrap());
        }
        v.extend([NaiveDate::MIN.succ_opt().unwrap(), NaiveDate::MAX.pred_opt().unwrap(), NaiveDate::MAX, NaiveDate::MIN]);
        v
    };
    let subsec_all = |c: &mut Ctx, frac: u32, leap: bool, digits: u16, which: u64| {
        // the date varies (audit 2, LOW-3): 2016-12-31 half of the time, else a special or a random date
        let date = match c.rng.below(4) {
            0 | 1 => dates[0],
            2 => *c.rng.pick(&dates),
            _ => NaiveDate::from_yo_opt(c.rng.range(-262_142, 262_141) as i32, c.rng.range(1, 365) as u32).unwrap_or(dates[0]),
        };
        // the very ends of the range are the business of the directed block below (documented `+` panic);
        // here a date within a day of them is used only with offsets that keep the value representable
        let date = if date == NaiveDate::MAX || date == NaiveDate::MIN { dates[0] } else { date };
        c.count(if date == dates[0] { "subsec:date 2016-12-31" } else { "subsec:another date" });
        let (h, m, s) = if leap { (23, 59, 59) } else { (c.rng.below(24) as u32, c.rng.below(60) as u32, c.rng.below(60) as u32) };
        let (h, m, s) = if !leap && c.rng.chance(1, 6) { (23, 59, 59) } else { (h, m, s) };
        let f = if leap { frac + 1_000_000_000 } else { frac };
        let t = match NaiveTime::from_hms_nano_opt(h, m, s, f) {
            Some(t) => t,
            None => return,
        };
        match which % 3 {
            0 => subsec_case(c, t, digits, |x| x.num_seconds_from_midnight() as i64, 86_400, "rd.t", |x| format!("{} {}", x.num_seconds_from_midnight(), x.nanosecond())),
            1 => subsec_case(c, date.and_time(t), digits, |x| x.and_utc().timestamp(), i64::MAX, "rd.n", enc_naive),
            _ if which % 12 == 2 => {
                // `DateTime<Utc>` as such
                subsec_case(c, date.and_time(t).and_utc(), digits, |x| x.timestamp(), i64::MAX, "rd.z", |x: &DateTime<Utc>| x.enc())
            }
            _ => {
                // any offset, also for leap-second fields (not only whole minutes)
                let off = gen_off(c);
                if leap && off % 60 != 0 {
                    c.count("subsec:leap field viewed at an offset that is not a whole minute");
                }
                let fo = FixedOffset::east_opt(off).unwrap();
                let dt = fo.from_utc_datetime(&date.and_time(t));
                subsec_case(c, dt, digits, |x| x.timestamp(), i64::MAX, "rd.z", |x: &DateTime<FixedOffset>| x.enc())
            }
        }
    };
    let mut k = 0u64;
    for &digits in &digit_set {
        for &frac in &frac_specials {
            for leap in [false, true] {
                k += 1;
                subsec_all(c, frac, leap, digits, k);
            }
        }
    }
    let n_sub = c.n(20000, 300000);
    for _ in 0..n_sub {
        let digits = if c.rng.chance(7, 8) { c.rng.below(11) as u16 } else { c.rng.next() as u16 };
        let span = 10u32.pow(9 - digits.min(9) as u32);
        let frac = match c.rng.below(4) {
            0 => c.rng.nanos(),
            1 => {
                // multiples of the span +-1 and ties +-1
                let m = c.rng.below((1_000_000_000 / span) as u64 + 1) as u32;
                (m * span).saturating_add_signed(c.rng.range(-1, 1) as i32)
            }
            2 => {
                let m = c.rng.below((1_000_000_000 / span) as u64) as u32;
                (m * span + span / 2).saturating_add_signed(c.rng.range(-1, 1) as i32)
            }
            _ => 1_000_000_000 - 1 - c.rng.below(span as u64 + 2) as u32 % 1_000_000_000,
        }
        .min(999_999_999);
        let leap = c.rng.chance(1, 4);
        k += 1;
        subsec_all(c, frac, leap, digits, k);
    }
    // the specification of the sub-second part against i128 arithmetic
    let n_ss = c.n(2000, 20000);
    for _ in 0..n_ss {
        let digits = c.rng.below(12) as u16;
        let frac = c.rng.below(2_000_000_000) as i128;
        let span: i128 = 10i128.pow(9 - digits.min(9) as u32);
        let base: i128 = if frac >= NS { NS } else { 0 };
        let down = frac.rem_euclid(span);
        let t = frac - down;
        let r = if 2 * down < span { t } else { t + span };
        let field = |v: i128| if v == base + NS { "0 1".to_string() } else { format!("{} 0", v) };
        c.op(&format!("rd.spec.sub {} {}", frac, digits), &format!("{} {}", field(t), field(r)));
    }
    // the last second of the range (Props/C17.lean `naive_subsecs_spec`, `zoned_subsecs_spec`): `+`
    // panics exactly when the field rounds up into the second after NaiveDateTime::MAX
    for frac in [0u32, 1, 499_999_999, 500_000_000, 949_999_999, 950_000_000, 999_999_999] {
        for digits in [0u16, 1, 3, 8, 9] {
            let t = NaiveTime::from_hms_nano_opt(23, 59, 59, frac).unwrap();
            let x = NaiveDate::MAX.and_time(t);
            subsec_case(c, x, digits, |x| x.and_utc().timestamp(), i64::MAX, "rd.n", enc_naive);
            let off = *c.rng.pick(&OFFS);
            let z = FixedOffset::east_opt(off).unwrap().from_utc_datetime(&x);
            subsec_case(c, z, digits, |x| x.timestamp(), i64::MAX, "rd.z", |x: &DateTime<FixedOffset>| x.enc());
            let y = NaiveDate::MIN.and_time(NaiveTime::from_hms_nano_opt(0, 0, 0, frac).unwrap());
            subsec_case(c, y, digits, |x| x.and_utc().timestamp(), i64::MAX, "rd.n", enc_naive);
        }
    }
    if guard(|| NaiveDateTime::MAX.round_subsecs(0)).is_err() {
        c.count("obs:NaiveDateTime::MAX.round_subsecs(0) panics (Add overflow at the end of the range)");
    }
}
