//! C12 — every strftime specifier renders the documented field.
//!
//! Correspondence (`fm.*` ops, model = lean/Chrono/Model/{Strftime,Format}.lean):
//!   * `StrftimeItems::new` / `new_lenient` drained (with a cap) on: every ASCII letter × every
//!     modifier prefix, every truncated specifier, and random format strings assembled from the
//!     specifier table, separators, Unicode text/white space and truncated specifiers;
//!   * `DelayedFormat::write_to` on every Numeric × Pad and every Fixed item × boundary-directed
//!     (date, time, offset) values, with each of the three views missing in turn;
//!   * whole format strings formatted end to end; `to_rfc3339_opts`, `to_rfc2822`.
//! Direct oracles (implementation vs the documentation, no model involved): `doc_numeric`/`doc_fixed`
//! below restate the strftime table from independent calendar arithmetic (c01's reference calendar);
//! composite specifiers equal their documented expansion; literals are copied; an unknown specifier
//! or a missing field makes formatting fail; the item iterator terminates within 13·len + 1 items.
use super::c01::{day_num, gen_date, is_leap, month_len, yof, MAX_YEAR, MIN_YEAR};
use crate::ctx::*;
use crate::items::{encode_items, fixed_name, numeric_name, pad_code};
use chrono::format::{DelayedFormat, Fixed, Item, Numeric, Pad, SecondsFormat, StrftimeItems};
use chrono::{Datelike, FixedOffset, NaiveDate, NaiveTime, TimeZone, Timelike, Utc};

const NUMERICS: &[Numeric] = &[
    Numeric::Year, Numeric::YearDiv100, Numeric::YearMod100, Numeric::IsoYear, Numeric::IsoYearDiv100,
    Numeric::IsoYearMod100, Numeric::Quarter, Numeric::Month, Numeric::Day, Numeric::WeekFromSun,
    Numeric::WeekFromMon, Numeric::IsoWeek, Numeric::NumDaysFromSun, Numeric::WeekdayFromMon,
    Numeric::Ordinal, Numeric::Hour, Numeric::Hour12, Numeric::Minute, Numeric::Second,
    Numeric::Nanosecond, Numeric::Timestamp,
];
const PADS: &[Pad] = &[Pad::None, Pad::Zero, Pad::Space];
const FIXEDS: &[Fixed] = &[
    Fixed::ShortMonthName, Fixed::LongMonthName, Fixed::ShortWeekdayName, Fixed::LongWeekdayName,
    Fixed::LowerAmPm, Fixed::UpperAmPm, Fixed::Nanosecond, Fixed::Nanosecond3, Fixed::Nanosecond6,
    Fixed::Nanosecond9, Fixed::TimezoneName, Fixed::TimezoneOffsetColon, Fixed::TimezoneOffsetDoubleColon,
    Fixed::TimezoneOffsetTripleColon, Fixed::TimezoneOffsetColonZ, Fixed::TimezoneOffset,
    Fixed::TimezoneOffsetZ, Fixed::RFC2822, Fixed::RFC3339,
];

/// every documented specifier (module table of strftime.rs), with the prefix forms
const DOC_SPECS: &[&str] = &[
    "%Y", "%C", "%y", "%q", "%m", "%b", "%B", "%h", "%d", "%e", "%a", "%A", "%w", "%u", "%U", "%W", "%G", "%g", "%V", "%j", "%D",
    "%x", "%F", "%v", "%H", "%k", "%I", "%l", "%P", "%p", "%M", "%S", "%f", "%.f", "%.3f", "%.6f", "%.9f", "%3f", "%6f", "%9f",
    "%R", "%T", "%X", "%r", "%Z", "%z", "%:z", "%::z", "%:::z", "%#z", "%c", "%+", "%s", "%t", "%n", "%%",
];
/// the module source of the crate under test: the documentation table is read from it at build time (cargo
/// rebuilds the harness when the file changes), independently of tools/extractors/strftime_doc.py
const STRFTIME_RS: &str = include_str!("/repo/src/format/strftime.rs");

/// rows of the "Specifiers" table of the module doc comment: (specifier incl. `%`, Example cell without back-ticks)
fn doc_example_rows() -> Vec<(String, String)> {
    let start = STRFTIME_RS.find("## Specifiers").expect("doc table");
    let end = STRFTIME_RS.find("It is possible to override the default padding").expect("doc table end");
    let mut rows = vec![];
    for ln in STRFTIME_RS[start..end].lines() {
        if !ln.starts_with('|') {
            continue;
        }
        let cells: Vec<&str> = ln.split('|').collect();
        if cells.len() != 5 {
            continue;
        }
        let spec = cells[1].trim();
        if !(spec.starts_with("`%") && spec.ends_with('`') && spec.len() >= 4) {
            continue;
        }
        let ex = cells[2].trim();
        let ex = if ex.len() >= 2 && ex.starts_with('`') && ex.ends_with('`') { &ex[1..ex.len() - 1] } else { ex };
        rows.push((spec[1..spec.len() - 1].to_string(), ex.to_string()));
    }
    rows
}

/// footnote 7: "7μs is formatted as `X` with `%f`, and formatted as `Y` with `%.f`"
fn doc_footnote7() -> Option<(String, String)> {
    let i = STRFTIME_RS.find("Example: 7μs is formatted as `")?;
    let rest = &STRFTIME_RS[i + "Example: 7μs is formatted as `".len()..];
    let x = &rest[..rest.find('`')?];
    let j = rest.find("and formatted as `")?;
    let rest2 = &rest[j + "and formatted as `".len()..];
    let y = &rest2[..rest2.find('`')?];
    Some((x.to_string(), y.to_string()))
}
/// numeric specifiers, the only ones that take a padding modifier
const NUM_LETTERS: &[char] = &['Y', 'C', 'y', 'q', 'm', 'd', 'e', 'w', 'u', 'U', 'W', 'G', 'g', 'V', 'j', 'H', 'k', 'I', 'l', 'M', 'S', 'f', 's'];
const PREFIXES: &[&str] = &["", "-", "0", "_", "#", ".", ".3", ".6", ".9", "3", "6", "9", ":", "::", ":::", "-#", "#-", "--", ".f", "-.", "-3"];
const TRUNCATED: &[&str] = &["%", "%-", "%0", "%_", "%.", "%:", "%::", "%:::", "%.3", "%.6", "%.9", "%#", "%3", "%6", "%9", "%-.", "%#:", "%.é", "%é", "%-é", "%.3é", "%#é", "%:é", "%😀", "%.😀"];
const SEPS: &[&str] = &["", " ", "-", ":", "/", "T", ", ", "  ", "\t", ".", "x", "é", "\u{3000}", "Z", "\u{a0}", "\u{2003} ", "😀", "%%", "日本", "\n", "\u{85}", "\u{1680}", "\u{2028}\u{205f}", "a b", "\u{200b}"];

// ------------------------------------------------------------------------------------------------
// item iterator

fn drain(fmt: &str, lenient: bool) -> (Vec<Item<'_>>, bool) {
    let cap = 13 * fmt.len() + 16;
    let mut it = if lenient { StrftimeItems::new_lenient(fmt) } else { StrftimeItems::new(fmt) };
    let mut v = vec![];
    loop {
        match it.next() {
            None => return (v, true),
            Some(x) => v.push(x),
        }
        if v.len() > cap {
            return (v, false);
        }
    }
}

fn item_text<'a>(it: &'a Item<'a>) -> Option<&'a str> {
    match it {
        Item::Literal(s) | Item::Space(s) => Some(s),
        Item::OwnedLiteral(s) | Item::OwnedSpace(s) => Some(s),
        _ => None,
    }
}

fn check_items(c: &mut Ctx, fmt: &str, sample: bool) {
    for lenient in [false, true] {
        let op = if lenient { "fm.lenient" } else { "fm.items" };
        let r = guard(|| drain(fmt, lenient));
        match r {
            Err(()) => {
                c.fail("StrftimeItems panicked", &format!("{:?} lenient={}", fmt, lenient));
                c.op(&format!("{} {}", op, hex(fmt.as_bytes())), "panic");
            }
            Ok((items, done)) => {
                if !done {
                    c.fail("StrftimeItems does not end within 13*len+16 items", &format!("{:?} lenient={}", fmt, lenient));
                    continue;
                }
                if items.len() > 13 * fmt.len() {
                    c.fail("more than 13*len items", &format!("{:?}", fmt));
                }
                let has_err = items.iter().any(|x| matches!(x, Item::Error));
                c.count(&format!("items:{}:{}", if lenient { "lenient" } else { "strict" }, if has_err { "error" } else { "clean" }));
                if lenient && has_err {
                    c.fail("lenient iterator produced Item::Error", &format!("{:?}", fmt));
                }
                // literals are copied: without `%` the item texts concatenate to the input
                if !fmt.contains('%') {
                    let cat: String = items.iter().filter_map(item_text).collect();
                    if cat != fmt || items.iter().any(|x| item_text(x).is_none()) {
                        c.fail("literal text not copied into the items", &format!("{:?}", fmt));
                    }
                    c.count("items:no-percent");
                }
                // lenient: every byte of the input is accounted for when no specifier is recognised
                if !lenient {
                    let p = guard(|| StrftimeItems::new(fmt).parse().is_err());
                    if p != Ok(has_err) {
                        c.fail("StrftimeItems::parse() error status differs from presence of Item::Error", &format!("{:?}", fmt));
                    }
                }
                let enc = encode_items(&items);
                c.op(&format!("{} {}", op, hex(fmt.as_bytes())), &enc);
                if sample {
                    c.sample(&format!("{} {:?} -> {}", op, fmt, enc));
                }
            }
        }
    }
}

fn gen_fmt(c: &mut Ctx) -> String {
    let n = 1 + c.rng.below(6);
    let mut s = String::new();
    for _ in 0..n {
        match c.rng.below(16) {
            0 => s.push_str(*c.rng.pick(TRUNCATED)),
            1 => {
                // a modifier in front of an arbitrary letter
                s.push('%');
                s.push_str(*c.rng.pick(PREFIXES));
                s.push(c.rng.range(0x21, 0x7e) as u8 as char);
            }
            2 => {
                s.push('%');
                s.push(*c.rng.pick(&['-', '0', '_']));
                s.push(*c.rng.pick(NUM_LETTERS));
            }
            3 => {
                let cp = *c.rng.pick(&[0x20u32, 0x25, 0x7f, 0x80, 0x85, 0xa0, 0x7ff, 0x800, 0x1680, 0x2000, 0x200a, 0x200b, 0x2028, 0x202f, 0x205f, 0x3000, 0x3001, 0xfeff, 0xffff, 0x10000, 0x1f600, 0x10ffff]);
                if let Some(ch) = char::from_u32(cp) {
                    s.push(ch);
                }
            }
            4 => {
                if let Some(ch) = char::from_u32(c.rng.below(0x3100) as u32) {
                    s.push(ch);
                }
            }
            _ => s.push_str(*c.rng.pick(DOC_SPECS)),
        }
        s.push_str(*c.rng.pick(SEPS));
    }
    if c.rng.chance(1, 10) {
        s.push_str(*c.rng.pick(TRUNCATED));
    }
    s
}

// ------------------------------------------------------------------------------------------------
// documentation oracle: the strftime table restated from independent arithmetic

struct V {
    y: i64,
    m: i64,
    d: i64,
    ord: i64,
    /// 0 = Monday
    wd: i64,
    iso_y: i64,
    iso_w: i64,
    secs: i64,
    frac: i64,
    off: Option<i64>,
}

fn first_day(y: i64) -> i64 {
    day_num(y, 1, 1)
}

fn mk_v(date: &NaiveDate, secs: u32, frac: u32, off: Option<i32>) -> V {
    // only year and ordinal are read from chrono; everything else is recomputed
    let y = date.year() as i64;
    let ord = date.ordinal() as i64;
    let (mut m, mut rest) = (1, ord);
    while rest > month_len(y, m) {
        rest -= month_len(y, m);
        m += 1;
    }
    let n = first_day(y) + ord - 1;
    let wd = (n - 1).rem_euclid(7);
    let thu = n - wd + 3;
    let mut iy = y - 1;
    while first_day(iy + 1) <= thu {
        iy += 1;
    }
    let iso_w = (thu - first_day(iy)) / 7 + 1;
    V { y, m, d: rest, ord, wd, iso_y: iy, iso_w, secs: secs as i64, frac: frac as i64, off: off.map(|o| o as i64) }
}

/// number of days with weekday `start` (0 = Monday) among ordinals 1..=ord
fn count_starts(v: &V, start: i64) -> i64 {
    let wd1 = (v.wd - (v.ord - 1)).rem_euclid(7); // weekday of ordinal 1
    (1..=v.ord).filter(|k| (wd1 + k - 1).rem_euclid(7) == start).count() as i64
}

fn digits(mut n: u64) -> String {
    let mut v = vec![];
    loop {
        v.push(b'0' + (n % 10) as u8);
        n /= 10;
        if n == 0 {
            break;
        }
    }
    v.reverse();
    String::from_utf8(v).unwrap()
}

/// a number with a minimum width: zero padding goes after the sign, space padding before it
fn padded(v: i64, width: usize, pad: &Pad, plus: bool) -> String {
    let sign = if v < 0 { "-" } else if plus { "+" } else { "" };
    let ds = digits(v.unsigned_abs());
    let fill = width.saturating_sub(sign.len() + ds.len());
    match pad {
        Pad::None => format!("{}{}", sign, ds),
        Pad::Zero => format!("{}{}{}", sign, "0".repeat(fill), ds),
        Pad::Space => format!("{}{}{}", " ".repeat(fill), sign, ds),
    }
}

fn doc_year(y: i64, pad: &Pad) -> String {
    // "zero-padded to 4 digits … years before 1 BCE or after 9999 CE require an initial sign"
    if (0..=9999).contains(&y) {
        padded(y, 4, pad, false)
    } else {
        padded(y, 5, pad, true)
    }
}

/// `None` = the oracle does not cover this case
fn doc_numeric(n: &Numeric, pad: &Pad, v: &V) -> Option<String> {
    Some(match n {
        Numeric::Year => doc_year(v.y, pad),
        Numeric::YearDiv100 => padded(v.y.div_euclid(100), 2, pad, false),
        Numeric::YearMod100 => padded(v.y.rem_euclid(100), 2, pad, false),
        Numeric::IsoYear => doc_year(v.iso_y, pad),
        Numeric::IsoYearDiv100 => padded(v.iso_y.div_euclid(100), 2, pad, false),
        Numeric::IsoYearMod100 => padded(v.iso_y.rem_euclid(100), 2, pad, false),
        Numeric::Quarter => padded((v.m + 2) / 3, 1, &Pad::None, false),
        Numeric::Month => padded(v.m, 2, pad, false),
        Numeric::Day => padded(v.d, 2, pad, false),
        Numeric::WeekFromSun => padded(count_starts(v, 6), 2, pad, false),
        Numeric::WeekFromMon => padded(count_starts(v, 0), 2, pad, false),
        Numeric::IsoWeek => padded(v.iso_w, 2, pad, false),
        Numeric::NumDaysFromSun => padded((v.wd + 1) % 7, 1, &Pad::None, false),
        Numeric::WeekdayFromMon => padded(v.wd + 1, 1, &Pad::None, false),
        Numeric::Ordinal => padded(v.ord, 3, pad, false),
        Numeric::Hour => padded(v.secs / 3600, 2, pad, false),
        Numeric::Hour12 => padded((v.secs / 3600 + 11) % 12 + 1, 2, pad, false),
        Numeric::Minute => padded(v.secs / 60 % 60, 2, pad, false),
        Numeric::Second => padded(v.secs % 60 + (v.frac >= 1_000_000_000) as i64, 2, pad, false),
        Numeric::Nanosecond => padded(v.frac % 1_000_000_000, 9, pad, false),
        Numeric::Timestamp => {
            let days = first_day(v.y) + v.ord - 1 - day_num(1970, 1, 1);
            padded(days * 86400 + v.secs - v.off.unwrap_or(0), 9, pad, false)
        }
        _ => return None,
    })
}

const MONTHS: [&str; 12] = ["January", "February", "March", "April", "May", "June", "July", "August", "September", "October", "November", "December"];
const DAYS: [&str; 7] = ["Monday", "Tuesday", "Wednesday", "Thursday", "Friday", "Saturday", "Sunday"];

fn two(v: i64) -> String {
    padded(v, 2, &Pad::Zero, false)
}

fn doc_offset(off: i64, colon: bool, secs: bool, hours_only: bool) -> String {
    let sign = if off < 0 { '-' } else { '+' };
    let a = off.abs();
    if hours_only {
        return format!("{}{}", sign, two(a / 3600)); // minutes truncated
    }
    let sep = if colon { ":" } else { "" };
    if secs {
        format!("{}{}{}{}{}{}", sign, two(a / 3600), sep, two(a / 60 % 60), sep, two(a % 60))
    } else {
        let m = (a + 30) / 60; // rounded to the nearest minute
        format!("{}{}{}{}", sign, two(m / 60), sep, two(m % 60))
    }
}

fn doc_fraction(frac: i64, width: Option<usize>, dot: bool) -> String {
    let nano = frac % 1_000_000_000;
    let nine = padded(nano, 9, &Pad::Zero, false);
    let w = match width {
        Some(w) => w,
        None => {
            if nano == 0 {
                return String::new();
            } else if nano % 1_000_000 == 0 {
                3
            } else if nano % 1000 == 0 {
                6
            } else {
                9
            }
        }
    };
    format!("{}{}", if dot { "." } else { "" }, &nine[..w])
}

fn doc_fixed(f: &Fixed, v: &V) -> Option<String> {
    let name = fixed_name(f);
    Some(match name.as_str() {
        "ShortMonthName" => MONTHS[(v.m - 1) as usize][..3].to_string(),
        "LongMonthName" => MONTHS[(v.m - 1) as usize].to_string(),
        "ShortWeekdayName" => DAYS[v.wd as usize][..3].to_string(),
        "LongWeekdayName" => DAYS[v.wd as usize].to_string(),
        "LowerAmPm" => if v.secs < 43200 { "am" } else { "pm" }.to_string(),
        "UpperAmPm" => if v.secs < 43200 { "AM" } else { "PM" }.to_string(),
        "Nanosecond" => doc_fraction(v.frac, None, true),
        "Nanosecond3" => doc_fraction(v.frac, Some(3), true),
        "Nanosecond6" => doc_fraction(v.frac, Some(6), true),
        "Nanosecond9" => doc_fraction(v.frac, Some(9), true),
        "Nanosecond3NoDot" => doc_fraction(v.frac, Some(3), false),
        "Nanosecond6NoDot" => doc_fraction(v.frac, Some(6), false),
        "Nanosecond9NoDot" => doc_fraction(v.frac, Some(9), false),
        "TimezoneOffset" => doc_offset(v.off?, false, false, false),
        "TimezoneOffsetColon" => doc_offset(v.off?, true, false, false),
        "TimezoneOffsetDoubleColon" => doc_offset(v.off?, true, true, false),
        "TimezoneOffsetTripleColon" => doc_offset(v.off?, false, false, true),
        "TimezoneOffsetZ" => if v.off? == 0 { "Z".to_string() } else { doc_offset(v.off?, false, false, false) },
        "TimezoneOffsetColonZ" => if v.off? == 0 { "Z".to_string() } else { doc_offset(v.off?, true, false, false) },
        // `%Z`: "Identical to `%:z` when formatting" for whole-minute offsets (the name of a fixed
        // offset is its Display form, which keeps seconds)
        "TimezoneName" => if v.off? % 60 == 0 { doc_offset(v.off?, true, false, false) } else { doc_offset(v.off?, true, true, false) },
        "RFC3339" => format!(
            "{}-{}-{}T{}:{}:{}{}{}",
            doc_year(v.y, &Pad::Zero), two(v.m), two(v.d), two(v.secs / 3600), two(v.secs / 60 % 60),
            two(v.secs % 60 + (v.frac >= 1_000_000_000) as i64), doc_fraction(v.frac, None, true), doc_offset(v.off?, true, false, false)
        ),
        "RFC2822" => {
            if !(0..=9999).contains(&v.y) {
                return None;
            }
            format!(
                "{}, {} {} {} {}:{}:{} {}",
                &DAYS[v.wd as usize][..3], v.d, &MONTHS[(v.m - 1) as usize][..3], padded(v.y, 4, &Pad::Zero, false), two(v.secs / 3600),
                two(v.secs / 60 % 60), two(v.secs % 60 + (v.frac >= 1_000_000_000) as i64), doc_offset(v.off?, false, false, false)
            )
        }
        _ => return None,
    })
}

// ------------------------------------------------------------------------------------------------
// formatting

fn write_items(items: &[Item], d: Option<NaiveDate>, t: Option<NaiveTime>, off: Option<FixedOffset>) -> Result<Result<String, ()>, ()> {
    guard(|| {
        let mut s = String::new();
        let r = match off {
            Some(o) => DelayedFormat::new_with_offset(d, t, &o, items.iter()).write_to(&mut s),
            None => DelayedFormat::new(d, t, items.iter()).write_to(&mut s),
        };
        r.map(|_| s).map_err(|_| ())
    })
}

fn show_w(r: &Result<Result<String, ()>, ()>) -> String {
    match r {
        Ok(Ok(s)) => hex(s.as_bytes()),
        Ok(Err(())) => "err".into(),
        Err(()) => "panic".into(),
    }
}

fn fmt_op(items: &[Item], d: Option<NaiveDate>, t: Option<NaiveTime>, off: Option<FixedOffset>) -> String {
    let o = |x: Option<String>| x.unwrap_or_else(|| "-".into());
    format!(
        "fm.fmt {} {} {} {} {}",
        encode_items(items),
        o(d.map(|d| yof(&d).to_string())),
        o(t.map(|t| t.num_seconds_from_midnight().to_string())),
        o(t.map(|t| t.nanosecond().to_string())),
        o(off.map(|f| f.local_minus_utc().to_string()))
    )
}

fn mk_time(secs: u32, frac: u32) -> NaiveTime {
    // `with_nanosecond` admits the leap representation on any second
    NaiveTime::from_num_seconds_from_midnight_opt(secs, 0).unwrap().with_nanosecond(frac).unwrap()
}

const YEARS: &[i32] = &[
    MIN_YEAR, MIN_YEAR + 1, MAX_YEAR, MAX_YEAR - 1, -100000, -99999, -10001, -10000, -9999, -1001, -1000, -999, -101, -100, -99, -10, -9,
    -1, 0, 1, 9, 10, 99, 100, 101, 999, 1000, 1001, 1969, 1970, 1999, 2000, 2001, 2024, 9999, 10000, 10001, 12345, 99999, 100000,
];
const ORDS: &[u32] = &[1, 2, 3, 4, 5, 6, 7, 8, 9, 10, 31, 32, 59, 60, 61, 99, 100, 101, 357, 358, 359, 360, 361, 362, 363, 364, 365, 366];
const SECS: &[u32] = &[0, 1, 59, 60, 61, 599, 600, 3599, 3600, 3661, 35999, 36000, 43199, 43200, 43201, 46799, 46800, 50399, 50400, 82799, 82800, 86340, 86398, 86399];
const FRACS: &[u32] = &[
    0, 1, 9, 10, 999, 1000, 1001, 999_999, 1_000_000, 1_000_001, 26_490_000, 100_000_000, 123_000_000, 123_456_000, 123_456_789, 999_000_000,
    999_999_000, 999_999_999, 1_000_000_000, 1_000_000_001, 1_001_000_000, 1_500_000_000, 1_999_999_999,
];
const OFFS: &[i32] = &[
    0, 1, 29, 30, 31, 59, 60, 61, 89, 90, 1799, 1800, 3569, 3570, 3599, 3600, 3601, 3629, 3630, 19800, 20700, 34200, 35969, 35970, 35999, 36000,
    36030, 45296, 50400, 86340, 86369, 86370, 86399,
];

fn gen_date_b(c: &mut Ctx) -> NaiveDate {
    loop {
        if c.rng.chance(1, 3) {
            return gen_date(c);
        }
        let y = *c.rng.pick(YEARS);
        let o = if c.rng.chance(1, 4) { c.rng.range(1, 366) as u32 } else { *c.rng.pick(ORDS) };
        if let Some(d) = NaiveDate::from_yo_opt(y, o) {
            return d;
        }
    }
}
fn gen_time(c: &mut Ctx) -> NaiveTime {
    let secs = if c.rng.chance(1, 3) { c.rng.below(86400) as u32 } else { *c.rng.pick(SECS) };
    let frac = if c.rng.chance(1, 4) { c.rng.nanos() + if c.rng.chance(1, 2) { 1_000_000_000 } else { 0 } } else { *c.rng.pick(FRACS) };
    mk_time(secs, frac)
}
fn gen_off(c: &mut Ctx) -> FixedOffset {
    let o = if c.rng.chance(1, 4) { c.rng.range(-86399, 86399) as i32 } else { *c.rng.pick(OFFS) * if c.rng.chance(1, 2) { -1 } else { 1 } };
    FixedOffset::east_opt(o).unwrap()
}

/// one item against model and documentation, plus the three missing-field variants
fn check_item(c: &mut Ctx, it: &Item, d: NaiveDate, t: NaiveTime, off: FixedOffset, sample: bool) {
    let items = [it.clone()];
    let full = write_items(&items, Some(d), Some(t), Some(off));
    let op = fmt_op(&items, Some(d), Some(t), Some(off));
    c.op(&op, &show_w(&full));
    if sample {
        c.sample(&format!("{} -> {}", op, match &full { Ok(Ok(s)) => format!("{:?}", s), Ok(Err(())) => "err".into(), Err(()) => "panic".into() }));
    }
    let v = mk_v(&d, t.num_seconds_from_midnight(), t.nanosecond(), Some(off.local_minus_utc()));
    let (label, want) = match it {
        Item::Numeric(n, p) => (format!("N{}:{}", numeric_name(n), pad_code(p)), doc_numeric(n, p, &v)),
        Item::Fixed(f) => (format!("F{}", fixed_name(f)), doc_fixed(f, &v)),
        _ => ("other".to_string(), None),
    };
    if full.is_err() {
        c.fail("formatting panicked", &op);
    }
    if let Some(w) = want {
        // `%y` / `%g`: documentation and tests agree for years >= 0 only
        let excluded = match it {
            Item::Numeric(Numeric::YearMod100, _) => v.y < 0,
            Item::Numeric(Numeric::IsoYearMod100, _) => v.iso_y < 0,
            _ => false,
        };
        if excluded {
            c.count("doc-oracle:excluded(%y/%g of a negative year)");
        } else {
            c.count(&format!("doc-oracle:{}", label));
            if full != Ok(Ok(w.clone())) {
                c.fail(&format!("{} does not render the documented field", label), &format!("{} -> {} but documentation gives {:?}", op, show_w(&full), w));
            }
        }
    }
    // missing views: an item needing an absent field must fail; one not needing it is unchanged
    for k in 0..3 {
        let (dd, tt, oo) = match k {
            0 => (None, Some(t), Some(off)),
            1 => (Some(d), None, Some(off)),
            _ => (Some(d), Some(t), None),
        };
        let r = write_items(&items, dd, tt, oo);
        c.op(&fmt_op(&items, dd, tt, oo), &show_w(&r));
        let needs = needs_view(it, k);
        match (&r, needs) {
            (Ok(Err(())), true) => c.count("missing-field:fails"),
            (Ok(Ok(_)), true) => c.fail("item was formatted although the value lacks the field", &fmt_op(&items, dd, tt, oo)),
            (Ok(Ok(s)), false) => {
                // `%s` without an offset is read as UTC; otherwise the text must not depend on the absent view
                let same = full == Ok(Ok(s.clone())) || matches!(it, Item::Numeric(Numeric::Timestamp, _));
                if !same {
                    c.fail("text depends on a view the item does not use", &fmt_op(&items, dd, tt, oo));
                }
                c.count("missing-field:irrelevant");
            }
            (Ok(Err(())), false) => c.fail("item failed although its fields are present", &fmt_op(&items, dd, tt, oo)),
            (Err(()), _) => c.fail("formatting panicked", &fmt_op(&items, dd, tt, oo)),
        }
    }
}

/// does the item read view `k` (0 date, 1 time, 2 offset)?
fn needs_view(it: &Item, k: usize) -> bool {
    match it {
        Item::Numeric(n, _) => match n {
            Numeric::Hour | Numeric::Hour12 | Numeric::Minute | Numeric::Second | Numeric::Nanosecond => k == 1,
            Numeric::Timestamp => k == 0 || k == 1,
            _ => k == 0,
        },
        Item::Fixed(f) => match fixed_name(f).as_str() {
            "ShortMonthName" | "LongMonthName" | "ShortWeekdayName" | "LongWeekdayName" => k == 0,
            "LowerAmPm" | "UpperAmPm" | "Nanosecond" | "Nanosecond3" | "Nanosecond6" | "Nanosecond9" | "Nanosecond3NoDot"
            | "Nanosecond6NoDot" | "Nanosecond9NoDot" => k == 1,
            "RFC2822" | "RFC3339" => true,
            "TimezoneOffsetPermissive" => true, // never formattable
            _ => k == 2,
        },
        _ => false,
    }
}

const COMPOSITES: &[(&str, &str)] = &[
    ("%D", "%m/%d/%y"), ("%x", "%m/%d/%y"), ("%F", "%Y-%m-%d"), ("%v", "%e-%b-%Y"), ("%R", "%H:%M"), ("%T", "%H:%M:%S"), ("%X", "%H:%M:%S"),
    ("%r", "%I:%M:%S %p"), ("%c", "%a %b %e %H:%M:%S %Y"), ("%+", "%Y-%m-%dT%H:%M:%S%.f%:z"), ("%h", "%b"), ("%e", "%_d"), ("%k", "%_H"),
    ("%l", "%_I"), ("%t", "\t"), ("%n", "\n"), ("%%", "<pct>"),
];

pub fn run(c: &mut Ctx) {
    // ---- item iterator: every ASCII character behind every modifier prefix ----------------------
    for ch in 0x20u8..0x7f {
        for p in PREFIXES {
            let fmt = format!("%{}{}", p, ch as char);
            check_items(c, &fmt, false);
            check_items(c, &format!("a{}b %", fmt), false);
            c.count("items:letter-x-prefix");
        }
    }
    for t in TRUNCATED {
        check_items(c, t, true);
        check_items(c, &format!("%Y {}", t), false);
        check_items(c, &format!("{}x %d", t), false);
        c.count("items:truncated");
    }
    for s in DOC_SPECS {
        check_items(c, s, false);
        // documented specifiers are accepted in strict mode
        if guard(|| StrftimeItems::new(s).parse().is_ok()) != Ok(true) {
            c.fail("documented specifier rejected", s);
        }
    }
    for l in NUM_LETTERS {
        for m in ['-', '0', '_'] {
            let fmt = format!("%{}{}", m, l);
            check_items(c, &fmt, false);
            // documented: the modifier overrides the padding of a numeric specifier
            let want = match m { '-' => Pad::None, '0' => Pad::Zero, _ => Pad::Space };
            let plain_fmt = format!("%{}", l);
            let ok = guard(|| {
                let v: Vec<Item> = StrftimeItems::new(&fmt).collect();
                let plain: Vec<Item> = StrftimeItems::new(&plain_fmt).collect();
                match (v.as_slice(), plain.as_slice()) {
                    ([Item::Numeric(n, p)], [Item::Numeric(n0, _)]) => n == n0 && *p == want,
                    _ => false,
                }
            });
            if ok != Ok(true) {
                c.fail("padding modifier does not override the padding of a numeric specifier", &fmt);
            }
            c.count("items:pad-override");
        }
    }
    // ---- random format strings ---------------------------------------------------------------------
    let n_fmt = c.n(50000, 500000);
    for i in 0..n_fmt {
        let fmt = gen_fmt(c);
        check_items(c, &fmt, i < 3);
    }
    // pure text (no `%`): literals and spaces only
    for _ in 0..c.n(3000, 30000) {
        let n = c.rng.below(8);
        let mut s = String::new();
        for _ in 0..n {
            s.push_str(*c.rng.pick(SEPS));
            if let Some(ch) = char::from_u32(c.rng.below(0x3100) as u32) {
                s.push(ch);
            }
        }
        let s = s.replace('%', "");
        check_items(c, &s, false);
    }

    // ---- formatting: every item x boundary-directed values --------------------------------------------
    let mut all_items: Vec<Item<'static>> = vec![];
    for n in NUMERICS {
        for p in PADS {
            all_items.push(Item::Numeric(n.clone(), *p));
        }
    }
    for f in FIXEDS {
        all_items.push(Item::Fixed(f.clone()));
    }
    for s in ["%#z", "%3f", "%6f", "%9f"] {
        all_items.extend(StrftimeItems::new(s).map(|x| x.to_owned()));
    }
    let per_item = c.n(120, 1500);
    for (k, it) in all_items.clone().iter().enumerate() {
        for j in 0..per_item {
            let (d, t, off) = (gen_date_b(c), gen_time(c), gen_off(c));
            check_item(c, it, d, t, off, j == 0 && k % 16 == 0);
        }
    }
    // the grid of date boundaries for the date-only numerics (all year classes x ordinal boundaries)
    let t0 = mk_time(0, 0);
    let o0 = FixedOffset::east_opt(0).unwrap();
    for y in YEARS {
        for o in ORDS {
            if let Some(d) = NaiveDate::from_yo_opt(*y, *o) {
                for it in all_items.iter().filter(|it| needs_view(it, 0) && !needs_view(it, 1)) {
                    if !matches!(it, Item::Numeric(_, Pad::None) | Item::Numeric(_, Pad::Space)) || c.tier == Tier::Thorough {
                        check_item(c, it, d, t0, o0, false);
                    }
                }
                c.count("grid:date");
            }
        }
    }
    // the grid of offsets for the offset items, both signs
    let d0 = NaiveDate::from_ymd_opt(2001, 7, 8).unwrap();
    for o in OFFS {
        for sgn in [1, -1] {
            let off = FixedOffset::east_opt(o * sgn).unwrap();
            for it in all_items.iter().filter(|it| needs_view(it, 2)) {
                check_item(c, it, d0, mk_time(2099, 26_490_000), off, false);
            }
            c.count("grid:offset");
        }
    }
    // every second class x fraction class for the time items
    for s in SECS {
        for f in FRACS {
            for it in all_items.iter().filter(|it| needs_view(it, 1) && !needs_view(it, 0)) {
                if !matches!(it, Item::Numeric(_, Pad::None) | Item::Numeric(_, Pad::Space)) || c.tier == Tier::Thorough {
                    check_item(c, it, d0, mk_time(*s, *f), o0, false);
                }
            }
            c.count("grid:time");
        }
    }

    // ---- whole format strings, composites, literals ----------------------------------------------------
    for i in 0..c.n(20000, 200000) {
        let fmt = if i % 3 == 0 { gen_fmt(c) } else {
            let n = 1 + c.rng.below(4);
            (0..n).map(|_| format!("{}{}", *c.rng.pick(DOC_SPECS), *c.rng.pick(SEPS))).collect::<String>()
        };
        let items: Vec<Item> = StrftimeItems::new(&fmt).collect();
        let (d, t, off) = (gen_date_b(c), gen_time(c), gen_off(c));
        let (dd, tt, oo) = match c.rng.below(8) {
            0 => (None, Some(t), Some(off)),
            1 => (Some(d), None, Some(off)),
            2 => (Some(d), Some(t), None),
            3 => (Some(d), None, None),
            _ => (Some(d), Some(t), Some(off)),
        };
        let r = write_items(&items, dd, tt, oo);
        c.count(match &r { Ok(Ok(_)) => "format-string:ok", Ok(Err(())) => "format-string:err", Err(()) => "format-string:panic" });
        c.op(&fmt_op(&items, dd, tt, oo), &show_w(&r));
        if r.is_err() {
            c.fail("formatting panicked", &format!("{:?}", fmt));
        }
        // an unknown / malformed specifier makes formatting fail rather than print something else
        if items.iter().any(|x| matches!(x, Item::Error)) && r != Ok(Err(())) {
            c.fail("format string with an invalid specifier was formatted", &format!("{:?}", fmt));
        }
        // the whole text is the concatenation of the items' texts
        if let Ok(Ok(s)) = &r {
            let mut cat = String::new();
            let mut ok = true;
            for it in &items {
                match write_items(std::slice::from_ref(it), dd, tt, oo) {
                    Ok(Ok(p)) => cat.push_str(&p),
                    _ => ok = false,
                }
            }
            if !ok || &cat != s {
                c.fail("text of a format string is not the concatenation of its items", &format!("{:?}", fmt));
            }
        }
        // every public entry point (`format`, `format_with_items` of the four types) is the DelayedFormat
        // built by hand from the same items: same text, same failure
        if i % 4 == 0 {
            use std::fmt::Write;
            let w = |f: &dyn Fn(&mut String) -> std::fmt::Result| {
                guard(|| {
                    let mut s = String::new();
                    f(&mut s).map(|_| s).map_err(|_| ())
                })
            };
            let ndt = d.and_time(t);
            let mut forms: Vec<(&'static str, Result<Result<String, ()>, ()>, Result<Result<String, ()>, ()>)> = vec![
                ("NaiveDate::format", w(&|s| write!(s, "{}", d.format(&fmt))), write_items(&items, Some(d), None, None)),
                ("NaiveDate::format_with_items", w(&|s| write!(s, "{}", d.format_with_items(items.iter()))), write_items(&items, Some(d), None, None)),
                ("NaiveTime::format", w(&|s| write!(s, "{}", t.format(&fmt))), write_items(&items, None, Some(t), None)),
                ("NaiveTime::format_with_items", w(&|s| write!(s, "{}", t.format_with_items(items.iter()))), write_items(&items, None, Some(t), None)),
                ("NaiveDateTime::format", w(&|s| write!(s, "{}", ndt.format(&fmt))), write_items(&items, Some(d), Some(t), None)),
                ("NaiveDateTime::format_with_items", w(&|s| write!(s, "{}", ndt.format_with_items(items.iter()))), write_items(&items, Some(d), Some(t), None)),
            ];
            if let Some(z) = off.from_local_datetime(&ndt).single() {
                forms.push(("DateTime::format", w(&|s| write!(s, "{}", z.format(&fmt))), write_items(&items, Some(d), Some(t), Some(off))));
                forms.push(("DateTime::format_with_items", w(&|s| write!(s, "{}", z.format_with_items(items.iter()))), write_items(&items, Some(d), Some(t), Some(off))));
            }
            for (how, got, want) in forms {
                c.count("entry-point:compared");
                if got != want {
                    c.fail("a format entry point differs from DelayedFormat on the same items and fields", &format!("{how} {:?} on {:?} {:?} {:?}: {:?} / {:?}", fmt, d, t, off, got, want));
                }
            }
        }
        // DateTime::format agrees with the DelayedFormat built by hand
        if i % 16 == 0 && dd.is_some() && tt.is_some() && oo.is_some() {
            if let Some(dt) = off.from_local_datetime(&d.and_time(t)).single() {
                let via = guard(|| {
                    use std::fmt::Write;
                    let mut s = String::new();
                    write!(s, "{}", dt.format(&fmt)).map(|_| s).map_err(|_| ())
                });
                if via != r {
                    c.fail("DateTime::format differs from DelayedFormat::new_with_offset on the local view", &format!("{:?}", fmt));
                }
            }
        }
    }
    for (spec, expansion) in COMPOSITES {
        for _ in 0..c.n(40, 400) {
            let (d, t, off) = (gen_date_b(c), gen_time(c), gen_off(c));
            let a: Vec<Item> = StrftimeItems::new(spec).collect();
            let b: Vec<Item> = if *expansion == "<pct>" { vec![Item::Literal("%")] } else { StrftimeItems::new(expansion).collect() };
            let ra = write_items(&a, Some(d), Some(t), Some(off));
            let rb = write_items(&b, Some(d), Some(t), Some(off));
            c.op(&fmt_op(&a, Some(d), Some(t), Some(off)), &show_w(&ra));
            if ra != rb || !matches!(ra, Ok(Ok(_))) {
                c.fail("composite specifier differs from its documented expansion", &format!("{} vs {} on {:?} {:?} {:?}: {:?} / {:?}", spec, expansion, d, t, off, ra, rb));
            }
            c.count("composite:compared");
        }
    }
    // unknown specifiers: everything outside the documented table is rejected and cannot be formatted
    let documented: Vec<char> = "YCyqmbBhdeaAwuUWGgVjDxFvHkIlPpMSfRTXrZzcst n%+".chars().filter(|x| *x != ' ').collect();
    for ch in 0x21u8..0x7f {
        let chh = ch as char;
        if documented.contains(&chh) || "-0_#.:369".contains(chh) {
            continue;
        }
        let fmt = format!("%{}", chh);
        let items: Vec<Item> = StrftimeItems::new(&fmt).collect();
        let r = write_items(&items, Some(d0), Some(t0), Some(o0));
        c.op(&fmt_op(&items, Some(d0), Some(t0), Some(o0)), &show_w(&r));
        if r != Ok(Err(())) {
            c.fail("unknown specifier was formatted", &fmt);
        }
        c.count("unknown-specifier:fails");
    }


    // ---- the documentation table read as TEXT: example column and per-type availability --------------------
    // (Spec/StrftimeDocSpec.lean `docRows`; theorems doc_examples_ok /
    //  entry_point_specifier).  The example value of the documentation: 2001-07-08T00:34:60.026490+09:30.
    {
        use std::fmt::Write;
        let ex_off = FixedOffset::east_opt(34200).unwrap();
        let ex_d = NaiveDate::from_ymd_opt(2001, 7, 8).unwrap();
        let ex_t = mk_time(2099, 1_026_490_000);
        let ex = ex_off.from_local_datetime(&ex_d.and_time(ex_t)).single().unwrap();
        let show = |f: &dyn Fn(&mut String) -> std::fmt::Result| {
            guard(|| {
                let mut s = String::new();
                f(&mut s).map(|_| s).map_err(|_| ())
            })
        };
        // EVERY Example cell of the documentation (as it stands in the source now) is what the crate prints for
        // the documentation's example value.  The two rows the documentation itself explains: `%Z` (footnote 8:
        // only the offset is printed, "identical to `%:z`") and the parsing-only `%#z` (must fail).
        let rows = doc_example_rows();
        if rows.len() < 50 {
            c.fail("documentation table of strftime.rs not recognised", &format!("{} rows", rows.len()));
        }
        for (spec, example) in &rows {
            if example.is_empty() {
                continue;
            }
            let got = show(&|s| write!(s, "{}", ex.format(spec)));
            c.count("doc-example:checked");
            let want: Result<Result<String, ()>, ()> = match spec.as_str() {
                "%Z" => show(&|s| write!(s, "{}", ex.format("%:z"))),
                "%#z" => Ok(Err(())),
                _ => Ok(Ok(example.clone())),
            };
            if got != want {
                c.fail(
                    "specifier does not print the Example cell of its documentation row",
                    &format!("{}.format({:?}) -> {:?}, documentation example {:?} (expected {:?})", ex, spec, got, example, want),
                );
            }
        }
        match doc_footnote7() {
            None => c.fail("footnote 7 of the strftime documentation not recognised", ""),
            Some((f, dotf)) => {
                let t7 = mk_time(0, 7000);
                for (spec, want) in [("%f", f), ("%.f", dotf)] {
                    let got = show(&|s| write!(s, "{}", t7.format(spec)));
                    c.count("doc-example:footnote7");
                    if got != Ok(Ok(want.clone())) {
                        c.fail("specifier does not print the example of documentation footnote 7", &format!("00:00:00.000007 .format({:?}) -> {:?}, documentation {:?}", spec, got, want));
                    }
                }
            }
        }
        // which documented specifier each of the four types can print: DATE rows need a date, TIME rows a time,
        // TIME ZONE rows an offset, `%c` date+time, `%+` all three, `%s` date+time; everything else must fail
        let date_ok = "YCyqmbBhdeaAwuUWGgVjDxFv";
        let time_ok = ["H", "k", "I", "l", "P", "p", "M", "S", "f", ".f", ".3f", ".6f", ".9f", "3f", "6f", "9f", "R", "T", "X", "r"];
        let off_only = ["Z", "z", ":z", "::z", ":::z"];
        for spec in DOC_SPECS {
            let body = &spec[1..];
            let special = ["t", "n", "%"].contains(&body);
            let is_date = body.len() == 1 && date_ok.contains(body);
            let is_time = time_ok.contains(&body);
            let is_off = off_only.contains(&body);
            for _ in 0..c.n(6, 40) {
                let (d, t, off) = (gen_date_b(c), gen_time(c), gen_off(c));
                let ndt = d.and_time(t);
                let mut cases: Vec<(&str, Result<Result<String, ()>, ()>, bool)> = vec![
                    ("NaiveDate", show(&|s| write!(s, "{}", d.format(spec))), special || is_date),
                    ("NaiveTime", show(&|s| write!(s, "{}", t.format(spec))), special || is_time),
                    ("NaiveDateTime", show(&|s| write!(s, "{}", ndt.format(spec))), special || is_date || is_time || body == "c" || body == "s"),
                ];
                if let Some(z) = off.from_local_datetime(&ndt).single() {
                    cases.push(("DateTime", show(&|s| write!(s, "{}", z.format(spec))), body != "#z"));
                    let _ = is_off;
                }
                for (ty, got, want_ok) in cases {
                    c.count("entry-point:availability");
                    match (&got, want_ok) {
                        (Ok(Ok(_)), true) | (Ok(Err(())), false) => {}
                        _ => c.fail("a type prints a specifier whose field it lacks, or fails on one it has", &format!("{}::format({:?}) on {:?} {:?} {:?} -> {:?}", ty, spec, d, t, off, got)),
                    }
                }
            }
        }
    }

    // ---- RFC 3339 / RFC 2822 writers -----------------------------------------------------------------------
    let sfs = [SecondsFormat::Secs, SecondsFormat::Millis, SecondsFormat::Micros, SecondsFormat::Nanos, SecondsFormat::AutoSi];
    for _ in 0..c.n(8000, 80000) {
        let (d, t, off) = (gen_date_b(c), gen_time(c), gen_off(c));
        let Some(dt) = off.from_local_datetime(&d.and_time(t)).single() else { continue };
        let k = c.rng.below(5) as usize;
        let z = c.rng.chance(1, 2);
        let r = gs(|| dt.to_rfc3339_opts(sfs[k], z), |s| hex(s.as_bytes()));
        c.op(&format!("fm.3339 {} {} {} {} {} {}", yof(&d), t.num_seconds_from_midnight(), t.nanosecond(), off.local_minus_utc(), k, b01(z)), &r);
        c.count("rfc3339:compared");
        if (0..=9999).contains(&d.year()) {
            let r = gs(|| dt.to_rfc2822(), |s| hex(s.as_bytes()));
            c.op(&format!("fm.2822 {} {} {} {}", yof(&d), t.num_seconds_from_midnight(), t.nanosecond(), off.local_minus_utc()), &r);
            c.count("rfc2822:compared");
        }
    }
    // `Utc`: the zone name is "UTC"
    for _ in 0..c.n(200, 2000) {
        let (d, t) = (gen_date_b(c), gen_time(c));
        let items: Vec<Item> = StrftimeItems::new("%Z %z %:z %s %+").collect();
        let r = guard(|| {
            let mut s = String::new();
            DelayedFormat::new_with_offset(Some(d), Some(t), &Utc, items.iter()).write_to(&mut s).map(|_| s).map_err(|_| ())
        });
        c.op(
            &format!("fm.fmtn {} {} {} {} 0 {}", encode_items(&items), yof(&d), t.num_seconds_from_midnight(), t.nanosecond(), hex(b"UTC")),
            &show_w(&r),
        );
        c.count("utc-name:compared");
    }
    // ---- round 3: `DateTime<Utc>::format` (the public entry point): model `ParseFrom.formatUtc`; direct oracle:
    // `%Z` prints the zone's own name `UTC`, every other specifier what the same instant prints at FixedOffset 0
    let utc_fmts = ["%Z", "%F %T %Z %z %:z", "%c|%Z|%s", "%+ %Z", "%Y-%m-%dT%H:%M:%S%.f %Z é\u{3000}%j", "%Z%Z %::z %:::z"];
    for _ in 0..c.n(600, 6000) {
        let (d, t) = (gen_date_b(c), gen_time(c));
        let f = *c.rng.pick(&utc_fmts);
        let dt = Utc.from_utc_datetime(&d.and_time(t));
        let r = guard(|| {
            use std::fmt::Write;
            let mut s = String::new();
            write!(s, "{}", dt.format(f)).map(|_| s).map_err(|_| ())
        });
        c.op(&format!("fmu.f {} {} {} {}", hex(f.as_bytes()), yof(&d), t.num_seconds_from_midnight(), t.nanosecond()), &show_w(&r));
        c.count("utc-format:compared");
        let fixed = FixedOffset::east_opt(0).unwrap().from_utc_datetime(&d.and_time(t));
        let want = guard(|| {
            use std::fmt::Write;
            let mut s = String::new();
            // reference: format piecewise at +00:00 with every `%Z` replaced by the literal name
            for (i, part) in f.split("%Z").enumerate() {
                if i > 0 { s.push_str("UTC"); }
                write!(s, "{}", fixed.format(part)).map_err(|_| ())?;
            }
            Ok(s)
        });
        if r != want {
            c.fail("DateTime<Utc>::format: %Z is not the name UTC / other specifiers differ from +00:00",
                &format!("fmt={:?} value={:?} got={:?} want={:?}", f, dt, r, want));
        }
    }
    // ---- round 3: the two headroom wall-clock dates through the public `format` (direct oracle with literal texts
    // of the calendar's own day: -262144-12-31 is day 366, a Wednesday; +262143-01-01 is day 1, a Tuesday)
    for _ in 0..c.n(300, 3000) {
        let secs = 1 + c.rng.below(86399) as i32;
        let hi = c.rng.chance(1, 2);
        let off = FixedOffset::east_opt(if hi { secs } else { -secs }).unwrap();
        let base = if hi { chrono::NaiveDateTime::MAX } else { chrono::NaiveDateTime::MIN };
        // a UTC reading within `secs` of the range end, so that the wall clock is in the headroom day
        let back = c.rng.below(secs as u64) as i64;
        let u = if hi { base - chrono::TimeDelta::seconds(back) } else { base + chrono::TimeDelta::seconds(back) };
        let dt = off.from_utc_datetime(&u);
        let f = "%Y-%m-%d %j %a %A %b %B %U %W %G %g %V %u %w %C %y %e %q";
        let r = guard(|| {
            use std::fmt::Write;
            let mut s = String::new();
            write!(s, "{}", dt.format(f)).map(|_| s).map_err(|_| ())
        });
        let want = if hi { "+262143-01-01 001 Tue Tuesday Jan January 00 00 +262143 43 01 2 2 2621 43  1 1" }
                   else { "-262144-12-31 366 Wed Wednesday Dec December 52 52 -262143 57 01 3 3 -2622 56 31 4" };
        if r != Ok(Ok(want.to_string())) {
            c.fail("headroom wall clock: DateTime::format does not print the calendar's own day",
                &format!("utc={:?} off={} got={:?} want={:?}", u, off.local_minus_utc(), r, want));
        }
        c.count("headroom-format:oracle");
    }
    let _ = is_leap;
}
