//! C01 — calendar, ordinal, ISO-week and day-count forms of a date agree.
use crate::ctx::*;
use chrono::{Datelike, NaiveDate, Weekday};
use std::hash::{Hash, Hasher};

pub const MIN_YEAR: i32 = -262143;
pub const MAX_YEAR: i32 = 262142;
const WD: [Weekday; 7] =
    [Weekday::Mon, Weekday::Tue, Weekday::Wed, Weekday::Thu, Weekday::Fri, Weekday::Sat, Weekday::Sun];

/// records the single `write_i32` that `NaiveDate`'s derived `Hash` performs: the packed `yof`
#[derive(Default)]
struct Rec(i64, u32);
impl Hasher for Rec {
    fn finish(&self) -> u64 {
        0
    }
    fn write(&mut self, bytes: &[u8]) {
        if bytes.len() == 4 {
            self.0 = i32::from_ne_bytes([bytes[0], bytes[1], bytes[2], bytes[3]]) as i64;
        }
        self.1 += 1;
    }
    fn write_i32(&mut self, i: i32) {
        self.0 = i as i64;
        self.1 += 1;
    }
}
pub fn yof(d: &NaiveDate) -> i64 {
    let mut h = Rec::default();
    d.hash(&mut h);
    h.0
}

/// the single `write_i32` of `IsoWeek`'s derived `Hash`: the packed `ywf`
pub fn ywf(w: &chrono::IsoWeek) -> i64 {
    let mut h = Rec::default();
    w.hash(&mut h);
    h.0
}
/// independent year flags: bit 3 = common year, low bits = weekday (Mon = 0, written 7) of 31 December
/// of the previous year
fn ref_flags(y: i64) -> i64 {
    let w = (day_num(y, 1, 0) + 6).rem_euclid(7);
    (if is_leap(y) { 0 } else { 8 }) + if w == 0 { 7 } else { w }
}
/// packed word, year, week, and `week0` guarded on its own (its `u32` subtraction is a separate panic site)
type IsoViews = Result<(i64, i64, i64, Result<i64, ()>), ()>;
type ZeroViews = [Result<u32, ()>; 3];
fn iso_views(d: &NaiveDate) -> (IsoViews, ZeroViews) {
    let r = guard(|| {
        let iw = d.iso_week();
        (ywf(&iw), iw.year() as i64, iw.week() as i64, guard(|| iw.week0() as i64))
    });
    (r, [guard(|| d.month0()), guard(|| d.day0()), guard(|| d.ordinal0())])
}
/// direct oracle for the packed ISO week, its three views and the 0-based twins: judged against the
/// Thursday rule, the independent year flags and the independent month lengths
fn iso_views_bad(d: &NaiveDate, r: &IsoViews, z: &ZeroViews) -> Vec<(&'static str, String)> {
    let mut bad = vec![];
    match r {
        Ok((a, iy, w, w0)) => {
            let (a, iy, w) = (*a, *iy, *w);
            let w0 = match w0 {
                Ok(v) => *v,
                Err(()) => {
                    bad.push(("IsoWeek::week0 panicked (u32 underflow)", gs(|| show_obs(d), |s| s)));
                    -1
                }
            };
            // the Thursday of the date's Monday-based week is day `ot` of calendar year `ty`
            let n = d.num_days_from_ce() as i64;
            let thu = n - (n + 6).rem_euclid(7) + 3;
            let mut ty = d.year() as i64;
            if thu <= day_num(ty, 1, 0) {
                ty -= 1;
            } else if thu > day_num(ty + 1, 1, 0) {
                ty += 1;
            }
            let ot = thu - day_num(ty, 1, 0);
            if iy != ty || w != (ot - 1) / 7 + 1 || w0 != (ot - 1) / 7 {
                bad.push(("iso_week year/week/week0 is not the year and week of the week's Thursday", format!("{} (Thursday = day {ot} of year {ty}; got {iy} {w} {w0})", show_obs(d))));
            }
            if a != iy * 1024 + w * 16 + ref_flags(iy) {
                bad.push(("the packed IsoWeek is not year<<10 | week<<4 | flags of the ISO year", format!("{}: ywf {a}", show_obs(d))));
            }
        }
        Err(()) => bad.push(("iso_week or an IsoWeek view panicked", gs(|| show_obs(d), |s| s))),
    }
    match z {
        [Ok(m0), Ok(d0), Ok(o0)] => {
            // judged against the independent calendar: month/day from the ordinal by month lengths
            let (yy, mut rest, mut m) = (d.year() as i64, d.ordinal() as i64, 1i64);
            while m < 12 && rest > month_len(yy, m) {
                rest -= month_len(yy, m);
                m += 1;
            }
            if (*m0 as i64, *d0 as i64, *o0 as i64) != (m - 1, rest - 1, d.ordinal() as i64 - 1) {
                bad.push(("month0/day0/ordinal0 are not the calendar month, day, ordinal minus one", format!("{} -> {m0} {d0} {o0}", show_obs(d))));
            }
        }
        _ => bad.push(("a 0-based accessor panicked", gs(|| show_obs(d), |s| s))),
    }
    bad
}
/// `di.isoweek` / `di.zero`: correspondence ops + the direct oracle
fn check_iso_views(c: &mut Ctx, d: &NaiveDate) {
    let y = yof(d);
    let (r, z) = iso_views(d);
    let one = |r: &Result<u32, ()>| match r { Ok(v) => v.to_string(), Err(()) => "panic".into() };
    c.op(&format!("di.isoweek {y}"), &match &r {
        Ok((a, b, w, w0)) => format!("{a} {b} {w} {}", match w0 { Ok(v) => v.to_string(), Err(()) => "panic".into() }),
        Err(()) => "panic".into(),
    });
    c.op(&format!("di.zero {y}"), &format!("{} {} {}", one(&z[0]), one(&z[1]), one(&z[2])));
    for (what, detail) in iso_views_bad(d, &r, &z) {
        c.fail(what, &detail);
    }
}
/// digest of the packed ISO week, its views, the 0-based twins and the ISO-week comparison with the
/// previous day, over every date of the years `y0..=y1` (`di.blockiso`); the direct oracle runs on each
fn block_iso(y0: i32, y1: i32) -> (u64, Option<(&'static str, String)>) {
    let mut h = 14695981039346656037u64;
    let mut bad = None;
    let mut prev: Option<NaiveDate> = None;
    for y in y0..=y1 {
        for o in 0..367u32 {
            let d = match guard(|| NaiveDate::from_yo_opt(y, o)) {
                Ok(Some(d)) => d,
                _ => continue,
            };
            let (r, z) = iso_views(&d);
            h = match r {
                Ok((a, b, w, w0)) => [a, b, w, w0.unwrap_or(-2)].iter().fold(h, |h, v| mix(h, *v)),
                Err(()) => mix(h, -2),
            };
            for v in &z {
                h = mix(h, match v { Ok(v) => *v as i64, Err(()) => -2 });
            }
            if let Some(p) = prev {
                let cmp = guard(|| p.iso_week().cmp(&d.iso_week()) as i64);
                h = mix(h, cmp.unwrap_or(-2));
                // consecutive days: the ISO week steps up exactly from Sunday to Monday
                let expect = if d.weekday() == Weekday::Mon { -1 } else { 0 };
                if bad.is_none() && p.succ_opt() == Some(d) && cmp != Ok(expect) {
                    bad = Some(("ISO weeks of consecutive days do not compare as same week / next week", format!("{} then {}", show_obs(&p), show_obs(&d))));
                }
            }
            if bad.is_none() {
                bad = iso_views_bad(&d, &r, &z).into_iter().next();
            }
            prev = Some(d);
        }
    }
    (h, bad)
}

pub fn obs(d: &NaiveDate) -> [i64; 10] {
    let iw = d.iso_week();
    [
        yof(d),
        d.year() as i64,
        d.month() as i64,
        d.day() as i64,
        d.ordinal() as i64,
        d.weekday().num_days_from_monday() as i64,
        iw.year() as i64,
        iw.week() as i64,
        d.num_days_from_ce() as i64,
        d.leap_year() as i64,
    ]
}
fn show_obs(d: &NaiveDate) -> String {
    obs(d).iter().map(|x| x.to_string()).collect::<Vec<_>>().join(" ")
}
fn sod(o: Option<NaiveDate>) -> String {
    match o {
        Some(d) => show_obs(&d),
        None => "none".into(),
    }
}
fn syof(o: Option<NaiveDate>) -> String {
    match o {
        Some(d) => yof(&d).to_string(),
        None => "none".into(),
    }
}
fn mix(h: u64, v: i64) -> u64 {
    (h ^ (v as u64)).wrapping_mul(1099511628211)
}
fn mix_obs(h: u64, r: Result<Option<NaiveDate>, ()>) -> u64 {
    match r {
        Ok(Some(d)) => match guard(|| obs(&d)) {
            Ok(xs) => xs.iter().fold(h, |h, v| mix(h, *v)),
            Err(()) => mix(h, -2),
        },
        Ok(None) => mix(h, -1),
        Err(()) => mix(h, -2),
    }
}
fn block_yo(y0: i32, y1: i32) -> (u64, Option<String>) {
    let mut h = 14695981039346656037u64;
    let mut bad = None;
    for y in y0..=y1 {
        for o in 0..368u32 {
            let r = guard(|| NaiveDate::from_yo_opt(y, o));
            if let (Ok(Some(d)), None) = (&r, &bad) {
                if let Err(e) = derived_views(d) {
                    bad = Some(e);
                }
            }
            h = mix_obs(h, r);
        }
    }
    (h, bad)
}

/// the views that are defined from the ten observed ones (0-based twins, trait-provided copies,
/// common-era year, the constructors applied to the date's own fields) agree with them
pub fn derived_views(d: &NaiveDate) -> Result<(), String> {
    let r = guard(|| {
        let iw = d.iso_week();
        let mut bad: Vec<&'static str> = vec![];
        if iw.week0().wrapping_add(1) != iw.week() {
            bad.push("IsoWeek::week0 + 1 != week");
        }
        if d.month0() + 1 != d.month() {
            bad.push("month0 + 1 != month");
        }
        if d.day0() + 1 != d.day() {
            bad.push("day0 + 1 != day");
        }
        if d.ordinal0() + 1 != d.ordinal() {
            bad.push("ordinal0 + 1 != ordinal");
        }
        let y = d.year();
        if d.year_ce() != (y >= 1, if y >= 1 { y as u32 } else { (1 - y) as u32 }) {
            bad.push("year_ce is not (CE?, year or 1 - year)");
        }
        // through a generic `T: Datelike` (so the trait's provided `num_days_from_ce` / `year_ce` and the
        // impl's `iso_week`, as any generic caller reaches them), judged against the independent calendar;
        // the inherent `num_days_from_ce` is pub(crate) and only observable through C03's differences
        fn via<T: Datelike>(t: &T) -> (i32, (bool, u32), i32, u32, i32, u32, u32, u32) {
            let iw = t.iso_week();
            (t.num_days_from_ce(), t.year_ce(), iw.year(), iw.week(), t.year(), t.month(), t.day(), t.ordinal())
        }
        let g = via(d);
        if g.0 as i64 != day_num(y as i64, d.month() as i64, d.day() as i64) || (g.2, g.3) != (iw.year(), iw.week()) || g.1 != d.year_ce() || (g.4, g.5, g.6, g.7) != (y, d.month(), d.day(), d.ordinal()) {
            bad.push("a Datelike view reached through a generic T: Datelike differs from the calendar / the direct call");
        }
        if d.leap_year() != is_leap(y as i64) {
            bad.push("leap_year disagrees with the Gregorian rule");
        }
        if NaiveDate::from_ymd_opt(y, d.month(), d.day()) != Some(*d)
            || NaiveDate::from_yo_opt(y, d.ordinal()) != Some(*d)
            || NaiveDate::from_isoywd_opt(iw.year(), iw.week(), d.weekday()) != Some(*d)
            || NaiveDate::from_num_days_from_ce_opt(d.num_days_from_ce()) != Some(*d)
        {
            bad.push("a constructor applied to the date's own fields does not return the date");
        }
        bad
    });
    match r {
        Ok(b) if b.is_empty() => Ok(()),
        Ok(b) => Err(format!("{}: {}", b.join("; "), show_obs(d))),
        Err(()) => Err(format!("a derived accessor panicked: {}", gs(|| show_obs(d), |s| s))),
    }
}
fn block_ymd(y0: i32, y1: i32) -> u64 {
    let mut h = 14695981039346656037u64;
    for y in y0..=y1 {
        for m in 0..14u32 {
            for d in 0..33u32 {
                h = match guard(|| NaiveDate::from_ymd_opt(y, m, d)) {
                    Ok(Some(x)) => mix(h, yof(&x)),
                    Ok(None) => mix(h, -1),
                    Err(()) => mix(h, -2),
                };
            }
        }
    }
    h
}

// ---- independent reference calendar (shares nothing with chrono) -------------------------------
pub fn is_leap(y: i64) -> bool {
    y.rem_euclid(4) == 0 && (y.rem_euclid(100) != 0 || y.rem_euclid(400) == 0)
}
pub fn month_len(y: i64, m: i64) -> i64 {
    match m {
        1 | 3 | 5 | 7 | 8 | 10 | 12 => 31,
        4 | 6 | 9 | 11 => 30,
        2 => 28 + is_leap(y) as i64,
        _ => 0,
    }
}
/// day number (0001-01-01 = 1)
pub fn day_num(y: i64, m: i64, d: i64) -> i64 {
    let p = y - 1;
    let mut n = 365 * p + p.div_euclid(4) - p.div_euclid(100) + p.div_euclid(400);
    for mm in 1..m {
        n += month_len(y, mm);
    }
    n + d
}

/// independent ISO week date -> day number: week 1 is the Monday-based week containing 4 January;
/// `None` when ISO year `y` has no week `w` (the week's Thursday is not a day of calendar year `y`)
pub fn iso_day_num(y: i64, w: i64, wd: i64) -> Option<i64> {
    let jan4 = day_num(y, 1, 4);
    let mon1 = jan4 - (jan4 + 6).rem_euclid(7);
    let thu = mon1 + 7 * (w - 1) + 3;
    if w < 1 || thu <= day_num(y, 1, 0) || thu > day_num(y + 1, 1, 0) {
        return None;
    }
    Some(mon1 + 7 * (w - 1) + wd)
}
pub const MIN_DAYS: i64 = -95746129;
pub const MAX_DAYS: i64 = 95745399;

/// one `from_isoywd_opt` case: correspondence op + direct oracle against `iso_day_num`
fn check_isoywd(c: &mut Ctx, yi: i32, w: u32, wd: usize) {
    let r = guard(|| NaiveDate::from_isoywd_opt(yi, w, WD[wd]));
    c.op(&format!("d.isoywd {yi} {w} {wd}"), &match r { Ok(o) => sod(o), Err(()) => "panic".into() });
    let expect = iso_day_num(yi as i64, w as i64, wd as i64);
    let in_range = |n: i64| (MIN_DAYS..=MAX_DAYS).contains(&n);
    match r {
        Ok(Some(x)) => {
            let iw = x.iso_week();
            if iw.year() != yi || iw.week() != w || x.weekday() != WD[wd] {
                c.fail("from_isoywd_opt yields a date with a different ISO week date", &format!("d.isoywd {yi} {w} {wd} -> {}", show_obs(&x)));
            }
            if expect != Some(x.num_days_from_ce() as i64) {
                c.fail("from_isoywd_opt yields a date that is not the day the ISO week date denotes", &format!("d.isoywd {yi} {w} {wd} -> {} (expected day {:?})", show_obs(&x), expect));
            }
            c.count(match x.year().cmp(&yi) {
                std::cmp::Ordering::Less => "isoywd:date-in-previous-year",
                std::cmp::Ordering::Equal => "isoywd:date-in-same-year",
                std::cmp::Ordering::Greater => "isoywd:date-in-next-year",
            });
            if w >= 53 {
                c.count("isoywd:week53-accepted");
            }
        }
        Ok(None) => match expect {
            Some(n) if in_range(n) => c.fail("from_isoywd_opt rejects an existing in-range ISO week date", &format!("d.isoywd {yi} {w} {wd} (day {n})")),
            Some(_) => c.count("isoywd:out-of-range"),
            None => c.count(if w == 53 { "isoywd:no-week-53" } else { "isoywd:no-such-week" }),
        },
        Err(()) => c.fail("from_isoywd_opt panicked", &format!("d.isoywd {yi} {w} {wd}")),
    }
}

pub fn gen_year(c: &mut Ctx) -> i32 {
    let edges = [MIN_YEAR, MIN_YEAR + 1, MAX_YEAR, MAX_YEAR - 1, 0, 1, -1, -4, 4, 100, 400, 1600, 1900, 1970, 2000, 2024, 9999, 10000, -9999];
    match c.rng.below(4) {
        0 => *c.rng.pick(&edges),
        1 => c.rng.range(MIN_YEAR as i64, MAX_YEAR as i64) as i32,
        2 => c.rng.range(1500, 2500) as i32,
        _ => (c.rng.range(-600, 600) * 400 + c.rng.range(-2, 2)) as i32,
    }
}
pub fn gen_date(c: &mut Ctx) -> NaiveDate {
    loop {
        let y = gen_year(c);
        let o = match c.rng.below(4) {
            0 => *c.rng.pick(&[1u32, 2, 59, 60, 61, 365, 366, 364]),
            _ => c.rng.range(1, 366) as u32,
        };
        if let Some(d) = NaiveDate::from_yo_opt(y, o) {
            return d;
        }
    }
}

pub fn run(c: &mut Ctx) {
    crate::aliases::c01(c);
    // ---- exhaustive blocks as digests ----------------------------------------------------------
    let mut blocks: Vec<(i32, i32)> = vec![];
    if c.tier == Tier::Quick {
        // one whole 400-year cycle in 20-year blocks, two years at each range end and beyond
        let mut y = 1800;
        while y < 2200 {
            blocks.push((y, y + 19));
            y += 20;
        }
        blocks.push((MIN_YEAR - 2, MIN_YEAR + 2));
        blocks.push((MAX_YEAR - 2, MAX_YEAR + 2));
        blocks.push((-3, 3));
    } else {
        // every representable year (and two beyond each end) in 400-year blocks
        let mut y = MIN_YEAR - 2;
        while y <= MAX_YEAR + 2 {
            let e = (y + 399).min(MAX_YEAR + 2);
            blocks.push((y, e));
            y = e + 1;
        }
    }
    for (y0, y1) in &blocks {
        let (h, bad) = block_yo(*y0, *y1);
        c.op(&format!("d.blockyo {y0} {y1}"), &h.to_string());
        if let Some(e) = bad {
            c.fail("a derived view (0-based twin, trait copy, year_ce, own-field constructor) disagrees", &e);
        }
        c.count_n("dates:enumerated-in-digests", ((*y1 - *y0 + 1) as u64) * 365);
    }
    // the ISO-week word, its views, the 0-based twins and the ISO-week order of consecutive days: quick — one
    // whole 400-year cycle (all 14 year classes in every neighbourhood) and both range ends; thorough — every
    // representable year (the same 400-year blocks as d.blockyo), so the packed ywf, week0 and the IsoWeek
    // comparison of consecutive days are compared on every date, as the yof word already is
    let mut iso_blocks: Vec<(i32, i32)> = (0..20).map(|i| (1800 + 20 * i, 1819 + 20 * i)).collect();
    iso_blocks.extend([(MIN_YEAR - 1, MIN_YEAR + 2), (MAX_YEAR - 2, MAX_YEAR + 1), (-3, 3)]);
    if c.tier != Tier::Quick {
        iso_blocks.extend(blocks.iter().copied());
    }
    for (y0, y1) in &iso_blocks {
        let (h, bad) = block_iso(*y0, *y1);
        c.op(&format!("di.blockiso {y0} {y1}"), &h.to_string());
        if let Some((what, detail)) = bad {
            c.fail(what, &detail);
        }
        c.count_n("dates:iso-views-enumerated-in-digests", ((*y1 - *y0 + 1) as u64) * 365);
    }
    let ymd_blocks: Vec<(i32, i32)> = if c.tier == Tier::Quick {
        vec![(1896, 1905), (1996, 2005), (2096, 2104), (MIN_YEAR - 1, MIN_YEAR + 1), (MAX_YEAR - 1, MAX_YEAR + 1), (-2, 2)]
    } else {
        let mut v = vec![];
        let mut y = MIN_YEAR - 2;
        while y <= MAX_YEAR + 2 {
            let e = (y + 399).min(MAX_YEAR + 2);
            v.push((y, e));
            y = e + 1;
        }
        v
    };
    for (y0, y1) in &ymd_blocks {
        c.op(&format!("d.blockymd {y0} {y1}"), &block_ymd(*y0, *y1).to_string());
    }
    // ---- constructor tuples: valid, non-existent, out of range, integer extremes ----------------
    let n_tuples = c.n(60000, 1000000);
    let ext_i32: Vec<i32> = int_extremes().into_iter().filter_map(|v| i32::try_from(v).ok()).collect();
    let ext_u32: Vec<u32> = int_extremes().into_iter().filter_map(|v| u32::try_from(v).ok()).collect();
    for i in 0..n_tuples {
        let y = if i % 7 == 0 { *c.rng.pick(&ext_i32) } else { gen_year(c) + c.rng.range(-1, 1) as i32 * (c.rng.below(50) == 0) as i32 * 3 };
        let m = match c.rng.below(6) { 0 => *c.rng.pick(&ext_u32), 1 => c.rng.below(15) as u32, _ => c.rng.range(1, 12) as u32 };
        let d = match c.rng.below(6) { 0 => *c.rng.pick(&ext_u32), 1 => c.rng.below(34) as u32, 2 => c.rng.range(28, 31) as u32, _ => c.rng.range(1, 28) as u32 };
        let r = guard(|| NaiveDate::from_ymd_opt(y, m, d));
        c.op(&format!("d.ymd {y} {m} {d}"), &match r { Ok(o) => sod(o), Err(()) => "panic".into() });
        // direct oracle: accepted exactly for existing in-range dates, and then it is that date
        let valid = (MIN_YEAR..=MAX_YEAR).contains(&y) && (1..=12).contains(&m) && d >= 1 && (d as i64) <= month_len(y as i64, m as i64);
        c.count(if valid { "ymd:valid" } else { "ymd:invalid" });
        match r {
            Ok(Some(x)) => {
                if !valid || (x.year(), x.month(), x.day()) != (y, m, d) || x.num_days_from_ce() as i64 != day_num(y as i64, m as i64, d as i64) {
                    c.fail("from_ymd_opt accepts a non-date or yields a different date", &format!("d.ymd {y} {m} {d} -> {}", show_obs(&x)));
                }
            }
            Ok(None) => {
                if valid {
                    c.fail("from_ymd_opt rejects an existing in-range date", &format!("d.ymd {y} {m} {d}"));
                }
            }
            Err(()) => c.fail("from_ymd_opt panicked", &format!("d.ymd {y} {m} {d}")),
        }
        // year-ordinal
        let o = match c.rng.below(6) { 0 => *c.rng.pick(&ext_u32), 1 => c.rng.range(364, 368) as u32, 2 => c.rng.below(3) as u32, _ => c.rng.range(1, 366) as u32 };
        let r = guard(|| NaiveDate::from_yo_opt(y, o));
        c.op(&format!("d.yo {y} {o}"), &match r { Ok(o) => sod(o), Err(()) => "panic".into() });
        let valid = (MIN_YEAR..=MAX_YEAR).contains(&y) && o >= 1 && (o as i64) <= 365 + is_leap(y as i64) as i64;
        match r {
            Ok(Some(x)) => {
                if !valid || x.year() != y || x.ordinal() != o || x.num_days_from_ce() as i64 != day_num(y as i64, 1, 0) + o as i64 {
                    c.fail("from_yo_opt accepts a non-date or yields a different date", &format!("d.yo {y} {o}"));
                }
            }
            Ok(None) => {
                if valid {
                    c.fail("from_yo_opt rejects an existing in-range date", &format!("d.yo {y} {o}"));
                }
            }
            Err(()) => c.fail("from_yo_opt panicked", &format!("d.yo {y} {o}")),
        }
        // ISO year-week-weekday
        let w = match c.rng.below(6) { 0 => *c.rng.pick(&ext_u32), 1 => c.rng.range(51, 54) as u32, 2 => c.rng.below(3) as u32, _ => c.rng.range(1, 53) as u32 };
        let wd = c.rng.below(7) as usize;
        let yi = if c.rng.chance(1, 10) { *c.rng.pick(&[MIN_YEAR - 1, MIN_YEAR, MAX_YEAR, MAX_YEAR + 1, i32::MIN, i32::MAX]) } else { y };
        check_isoywd(c, yi, w, wd);
        // day number
        let n: i32 = match c.rng.below(5) {
            0 => *c.rng.pick(&ext_i32),
            1 => (-95746129i64 + c.rng.range(-3, 3)) as i32,
            2 => (95745399i64 + c.rng.range(-3, 3)) as i32,
            3 => c.rng.range(-400, 800) as i32,
            _ => c.rng.range(-95746129, 95745399) as i32,
        };
        let r = guard(|| NaiveDate::from_num_days_from_ce_opt(n));
        c.op(&format!("d.days {n}"), &match r { Ok(o) => sod(o), Err(()) => "panic".into() });
        match r {
            Ok(Some(x)) => {
                if x.num_days_from_ce() != n || day_num(x.year() as i64, x.month() as i64, x.day() as i64) != n as i64 {
                    c.fail("from_num_days_from_ce_opt yields a date with a different day number", &format!("d.days {n} -> {}", show_obs(&x)));
                }
            }
            Ok(None) => {
                if (-95746129..=95745399).contains(&n) {
                    c.fail("from_num_days_from_ce_opt rejects an in-range day number", &format!("d.days {n}"));
                }
            }
            Err(()) => c.fail("from_num_days_from_ce_opt panicked", &format!("d.days {n}")),
        }
    }
    // every ISO week date of the quick window: each date is reached from its own iso week date
    let iso_years: Vec<i32> = if c.tier == Tier::Quick { (1990..2032).chain([MIN_YEAR - 1, MIN_YEAR, MIN_YEAR + 1, MAX_YEAR, MAX_YEAR + 1, MAX_YEAR + 2, -1, 0, 1, i32::MIN, i32::MIN + 1, i32::MAX, i32::MAX - 1]).collect() } else { (1600..2400).chain([MIN_YEAR - 1, MIN_YEAR, MIN_YEAR + 1, MAX_YEAR, MAX_YEAR + 1, MAX_YEAR + 2, -1, 0, 1, i32::MIN, i32::MIN + 1, i32::MAX, i32::MAX - 1]).collect() };
    for y in iso_years {
        for w in 0..=54u32 {
            for i in 0..7usize {
                check_isoywd(c, y, w, i);
            }
        }
    }
    // ---- successor / predecessor / order / accessors on sampled dates ---------------------------
    let n_dates = c.n(40000, 600000);
    let mut prev: Option<NaiveDate> = None;
    for i in 0..n_dates {
        let d = match i {
            0 => NaiveDate::MIN,
            1 => NaiveDate::MAX,
            // a near neighbour of the previous date (same or adjacent ISO week, year boundaries)
            _ if prev.is_some() && c.rng.chance(1, 4) => {
                let n = prev.unwrap().num_days_from_ce() as i64 + c.rng.range(-8, 8);
                NaiveDate::from_num_days_from_ce_opt(n as i32).unwrap_or(NaiveDate::MIN)
            }
            _ => gen_date(c),
        };
        let y = yof(&d);
        c.op(&format!("d.obs {y}"), &gs(|| show_obs(&d), |s| s));
        let s = guard(|| d.succ_opt());
        let p = guard(|| d.pred_opt());
        c.op(&format!("d.succ {y}"), &match s { Ok(o) => syof(o), Err(()) => "panic".into() });
        c.op(&format!("d.pred {y}"), &match p { Ok(o) => syof(o), Err(()) => "panic".into() });
        let days: i32 = match c.rng.below(5) {
            0 => *c.rng.pick(&[0, 1, -1, 365, 366, -365, -366, 146097, -146097, i32::MAX, i32::MIN]),
            1 => c.rng.range(-400, 400) as i32,
            2 => (95745399i64 - d.num_days_from_ce() as i64 + c.rng.range(-2, 2)) as i32,
            3 => (-95746129i64 - d.num_days_from_ce() as i64 + c.rng.range(-2, 2)) as i32,
            _ => c.rng.log_i64().clamp(i32::MIN as i64, i32::MAX as i64) as i32,
        };
        // add_days is reached through the public checked_add_days / checked_sub_days
        let r = guard(|| {
            if days >= 0 {
                d.checked_add_days(chrono::Days::new(days as u64))
            } else {
                d.checked_sub_days(chrono::Days::new((-(days as i64)) as u64))
            }
        });
        if days != i32::MIN {
            c.op(&format!("d.add {y} {days}"), &match r { Ok(o) => syof(o), Err(()) => "panic".into() });
        }
        check_iso_views(c, &d);
        // direct oracles
        if let Err(e) = derived_views(&d) {
            c.fail("a derived view (0-based twin, trait copy, year_ce, own-field constructor) disagrees", &e);
        }
        let n = d.num_days_from_ce() as i64;
        if n != day_num(d.year() as i64, d.month() as i64, d.day() as i64) {
            c.fail("num_days_from_ce disagrees with the Gregorian day number of (year, month, day)", &show_obs(&d));
        }
        if d.weekday().num_days_from_monday() as i64 != (n + 6).rem_euclid(7) {
            c.fail("weekday disagrees with the day number", &show_obs(&d));
        }
        match s {
            Ok(Some(x)) => {
                if x.num_days_from_ce() as i64 != n + 1 || x.weekday() != d.weekday().succ() || !(x > d) {
                    c.fail("successor is not the next day with the next weekday", &show_obs(&d));
                }
            }
            Ok(None) => {
                if d != NaiveDate::MAX {
                    c.fail("succ_opt fails before the range end", &show_obs(&d));
                }
            }
            Err(()) => c.fail("succ_opt panicked", &show_obs(&d)),
        }
        match p {
            Ok(Some(x)) => {
                if x.num_days_from_ce() as i64 != n - 1 || x.weekday() != d.weekday().pred() || !(x < d) {
                    c.fail("predecessor is not the previous day with the previous weekday", &show_obs(&d));
                }
            }
            Ok(None) => {
                if d != NaiveDate::MIN {
                    c.fail("pred_opt fails before the range start", &show_obs(&d));
                }
            }
            Err(()) => c.fail("pred_opt panicked", &show_obs(&d)),
        }
        if guard(|| NaiveDate::from_num_days_from_ce_opt(d.num_days_from_ce())) != Ok(Some(d)) {
            c.fail("from_num_days_from_ce_opt(num_days_from_ce(d)) is not d", &show_obs(&d));
        }
        // ISO week spec: the Thursday of the date's Monday-based week decides year and week
        let thu = n - (n + 6).rem_euclid(7) + 3;
        {
            let iw = d.iso_week();
            c.count(match iw.year().cmp(&d.year()) {
                std::cmp::Ordering::Less => "isoweek:iso-year-before-calendar-year",
                std::cmp::Ordering::Equal => if iw.week() == 53 { "isoweek:same-year-week53" } else { "isoweek:same-year" },
                std::cmp::Ordering::Greater => "isoweek:iso-year-after-calendar-year",
            });
        }
        if let Ok(Some(t)) = guard(|| NaiveDate::from_num_days_from_ce_opt(thu as i32)) {
            let iw = d.iso_week();
            if iw.year() != t.year() || iw.week() != (t.ordinal() - 1) / 7 + 1 {
                c.fail("iso_week disagrees with the week of its Thursday", &show_obs(&d));
            }
        }
        if let Some(q) = prev {
            let (a, b) = (yof(&q), yof(&d));
            c.op(&format!("d.cmp {a} {b}"), &gs(|| q.cmp(&d) as i32, |x| x.to_string()));
            if (q.cmp(&d) as i32) != ((q.num_days_from_ce().cmp(&d.num_days_from_ce())) as i32) {
                c.fail("date order differs from day-number order", &format!("{} vs {}", show_obs(&q), show_obs(&d)));
            }
            // the derived `Ord` of `IsoWeek`, against the model's order of the packed `ywf`
            c.op(&format!("di.isocmp {a} {b}"), &gs(|| q.iso_week().cmp(&d.iso_week()) as i32, |x| x.to_string()));
            if (q.iso_week().cmp(&d.iso_week()) as i32) * ((q.cmp(&d)) as i32) < 0 {
                c.fail("ISO weeks compare against chronological order", &format!("{} vs {}", show_obs(&q), show_obs(&d)));
            }
            // stronger: ISO weeks order exactly like the Thursdays of the two Monday-based weeks
            let nq = q.num_days_from_ce() as i64;
            let thu_q = nq - (nq + 6).rem_euclid(7) + 3;
            if q.iso_week().cmp(&d.iso_week()) != thu_q.cmp(&thu) {
                c.fail("ISO week order differs from the order of the weeks' Thursdays", &format!("{} vs {}", show_obs(&q), show_obs(&d)));
            }
            c.count(match thu_q.cmp(&thu) {
                std::cmp::Ordering::Equal => "isoweek-order:same-week",
                _ => "isoweek-order:different-week",
            });
        }
        prev = Some(d);
        if i < 4 {
            c.sample(&format!("d.obs {} = {}", y, show_obs(&d)));
        }
    }
}
