//! C08 — month stepping, field replacement and week helpers follow calendar rules.
//!
//! Correspondence (`c.op`): every date-side function against the Lean model, as single operations
//! (packed word in, packed word out) and as per-block digests over every date of a block of years.
//! Direct oracles (`c.fail`): every evaluated case, single or inside a digest, is also judged against
//! an independent reference calendar (c01::{is_leap, month_len, day_num}) that shares no code with
//! chrono.  The date-time forms (NaiveTime::with_*, the NaiveDateTime and DateTime<Utc>/<FixedOffset>
//! forms of month stepping and of all eleven field replacements, DateTime::years_since) are compared
//! with the Lean model too (ops `dto.*`, lean/Chrono/Drv/DateTimeOps.lean) and keep their direct oracles
//! (NaiveDateTime: the date/time-level result with the other part kept; zone-aware: the naive result on
//! the wall clock at the same offset, nothing only outside MIN_UTC..=MAX_UTC).
use super::c01::{day_num, gen_date, is_leap, month_len, yof, MAX_YEAR, MIN_YEAR};
use crate::ctx::*;
use chrono::{
    DateTime, Datelike, FixedOffset, Month, Months, NaiveDate, NaiveDateTime, NaiveTime, Offset, TimeDelta, TimeZone,
    Timelike, Utc, Weekday,
};

const WD: [Weekday; 7] =
    [Weekday::Mon, Weekday::Tue, Weekday::Wed, Weekday::Thu, Weekday::Fri, Weekday::Sat, Weekday::Sun];
const SEED: u64 = 14695981039346656037;

fn mix(h: u64, v: i64) -> u64 {
    (h ^ (v as u64)).wrapping_mul(1099511628211)
}
fn mix_r(h: u64, r: &Result<Option<NaiveDate>, ()>) -> u64 {
    match r {
        Ok(Some(d)) => mix(h, yof(d)),
        Ok(None) => mix(h, -1),
        Err(()) => mix(h, -2),
    }
}
fn show_r(r: &Result<Option<NaiveDate>, ()>) -> String {
    match r {
        Ok(Some(d)) => yof(d).to_string(),
        Ok(None) => "none".into(),
        Err(()) => "panic".into(),
    }
}
fn show_d(r: &Result<NaiveDate, ()>) -> String {
    match r {
        Ok(d) => yof(d).to_string(),
        Err(()) => "panic".into(),
    }
}
fn ymd(d: &NaiveDate) -> (i64, i64, i64) {
    (d.year() as i64, d.month() as i64, d.day() as i64)
}
/// day number of a date through the independent closed form
fn dn(d: &NaiveDate) -> i64 {
    day_num(d.year() as i64, d.month() as i64, d.day() as i64)
}
fn min_dn() -> i64 {
    day_num(MIN_YEAR as i64, 1, 1)
}
fn max_dn() -> i64 {
    day_num(MAX_YEAR as i64, 12, 31)
}
fn in_range(y: i64) -> bool {
    (MIN_YEAR as i64..=MAX_YEAR as i64).contains(&y)
}
fn desc(d: &NaiveDate) -> String {
    format!("{}-{}-{} (yof {})", d.year(), d.month(), d.day(), yof(d))
}

// ---- encodings of the `dto.*` correspondence: time `secs frac`, naive `yof secs frac`, zoned `yof secs frac off`
fn enc_t(t: &NaiveTime) -> String {
    format!("{} {}", t.num_seconds_from_midnight(), t.nanosecond())
}
fn enc_n(n: &NaiveDateTime) -> String {
    format!("{} {}", yof(&n.date()), enc_t(&n.time()))
}
fn enc_z<Tz: TimeZone>(z: &DateTime<Tz>) -> String {
    format!("{} {}", enc_n(&z.naive_utc()), z.offset().fix().local_minus_utc())
}
fn show_ot(r: &Result<Option<NaiveTime>, ()>) -> String {
    match r {
        Ok(Some(t)) => enc_t(t),
        Ok(None) => "none".into(),
        Err(()) => "panic".into(),
    }
}
fn show_on(r: &Result<Option<NaiveDateTime>, ()>) -> String {
    match r {
        Ok(Some(n)) => enc_n(n),
        Ok(None) => "none".into(),
        Err(()) => "panic".into(),
    }
}
fn show_oz<Tz: TimeZone>(r: &Result<Option<DateTime<Tz>>, ()>) -> String {
    match r {
        Ok(Some(z)) => enc_z(z),
        Ok(None) => "none".into(),
        Err(()) => "panic".into(),
    }
}
const DIR: [&str; 2] = ["add", "sub"];
const DFIELD: [&str; 6] = ["month", "month0", "day", "day0", "ordinal", "ordinal0"];
const TFIELD: [&str; 4] = ["hour", "minute", "second", "nano"];

/// the property's reading of "add `n` months" (n signed), independent of chrono
fn ref_months(d: &NaiveDate, n: i128) -> Option<(i64, i64, i64)> {
    ref_months_ymd(ymd(d), n)
}
fn ref_months_ymd((y, m, dd): (i64, i64, i64), n: i128) -> Option<(i64, i64, i64)> {
    let total = y as i128 * 12 + (m as i128 - 1) + n;
    let ty = total.div_euclid(12);
    let tm = total.rem_euclid(12) as i64 + 1;
    if ty < MIN_YEAR as i128 || ty > MAX_YEAR as i128 {
        return None;
    }
    let ty = ty as i64;
    Some((ty, tm, dd.min(month_len(ty, tm))))
}

// ---- month stepping ------------------------------------------------------------------------------
fn months_eval(c: &mut Ctx, d: &NaiveDate, n: u32, sub: bool) -> Result<Option<NaiveDate>, ()> {
    let r = guard(|| if sub { d.checked_sub_months(Months::new(n)) } else { d.checked_add_months(Months::new(n)) });
    let want = ref_months(d, if sub { -(n as i128) } else { n as i128 });
    let name = if sub { "checked_sub_months" } else { "checked_add_months" };
    match (&r, want) {
        (Ok(Some(x)), Some(w)) => {
            if ymd(x) != w {
                c.fail(&format!("{name}: result is not the clamped day of the target month"), &format!("{} n={n} -> {} want {:?}", desc(d), desc(x), w));
            }
            let clamped = w.2 != d.day() as i64;
            c.count(if clamped { "months:clamped" } else { "months:day-kept" });
            if clamped && w.1 == 2 {
                c.count(if w.2 == 29 { "months:clamped-to-feb29" } else { "months:clamped-to-feb28" });
            }
            if w.0 != d.year() as i64 {
                c.count("months:year-changed");
            }
        }
        (Ok(None), None) => c.count(if n > i32::MAX as u32 { "months:none:n>i32max" } else { "months:none:year-out-of-range" }),
        (Ok(Some(x)), None) => c.fail(&format!("{name}: yields a date although the target year is out of range"), &format!("{} n={n} -> {}", desc(d), desc(x))),
        (Ok(None), Some(w)) => c.fail(&format!("{name}: fails although the target month is in range"), &format!("{} n={n} want {:?}", desc(d), w)),
        (Err(()), _) => c.fail(&format!("{name}: panicked"), &format!("{} n={n}", desc(d))),
    }
    r
}
fn months_single(c: &mut Ctx, d: &NaiveDate, n: u32) {
    let y = yof(d);
    let a = months_eval(c, d, n, false);
    c.op(&format!("do.addm {y} {n}"), &show_r(&a));
    let s = months_eval(c, d, n, true);
    c.op(&format!("do.subm {y} {n}"), &show_r(&s));
    // operator forms `NaiveDate + Months` / `- Months`: the value, or a panic exactly when the target year
    // is out of range (judged against the reference calendar, not against the checked form)
    for sub in [false, true] {
        let r = guard(|| if sub { *d - Months::new(n) } else { *d + Months::new(n) });
        c.op(&format!("dox.dm {} {y} {n}", DIR[sub as usize]), &show_d(&r));
        let want = ref_months(d, if sub { -(n as i128) } else { n as i128 });
        let name = if sub { "NaiveDate - Months" } else { "NaiveDate + Months" };
        match (&r, want) {
            (Ok(x), Some(w)) => {
                if ymd(x) != w {
                    c.fail(&format!("{name}: result is not the clamped day of the target month"), &format!("{} n={n} -> {} want {:?}", desc(d), desc(x), w));
                }
                c.count("months-op:date:value");
            }
            (Err(()), None) => c.count("months-op:date:panic-year-out-of-range"),
            (Ok(x), None) => c.fail(&format!("{name}: yields a date although the target year is out of range"), &format!("{} n={n} -> {}", desc(d), desc(x))),
            (Err(()), Some(w)) => c.fail(&format!("{name}: panics although the target month is in range"), &format!("{} n={n} want {:?}", desc(d), w)),
        }
    }
    c.op(&format!("dox.months {n}"), &Months::new(n).as_u32().to_string());
    if Months::new(n).as_u32() != n {
        c.fail("Months::new / as_u32 do not carry the count unchanged", &format!("n={n}"));
    }
    // one month forward / back lands in Month::succ / Month::pred of the month, in a February of the right length
    {
        let mo = Month::try_from(d.month() as u8).unwrap();
        for (sub, step) in [(false, mo.succ()), (true, mo.pred())] {
            if let Ok(Some(x)) = guard(|| if sub { d.checked_sub_months(Months::new(1)) } else { d.checked_add_months(Months::new(1)) }) {
                let len = step.num_days(x.year());
                if x.month() != step.number_from_month() || len != Some(month_len(x.year() as i64, x.month() as i64) as u8) || x.day() > len.unwrap_or(0) as u32 {
                    c.fail("one month away is not Month::succ / Month::pred with its calendar length", &format!("{} sub={sub} -> {}", desc(d), desc(&x)));
                }
                if step == Month::February {
                    c.count(if len == Some(29) { "months:succ-pred:february-29" } else { "months:succ-pred:february-28" });
                }
            }
        }
    }
    // delegations: NaiveDateTime keeps the time, DateTime<Utc>/<FixedOffset> go through the local value
    let t = gen_time(c);
    let ndt = d.and_time(t);
    for (sub, r) in [(false, &a), (true, &s)] {
        let got = guard(|| if sub { ndt.checked_sub_months(Months::new(n)) } else { ndt.checked_add_months(Months::new(n)) });
        c.op(&format!("dto.nm {} {} {n}", DIR[sub as usize], enc_n(&ndt)), &show_on(&got));
        // `NaiveDateTime ± Months`: the reference date with the time kept, a panic exactly when there is none
        {
            let gop = guard(|| if sub { ndt - Months::new(n) } else { ndt + Months::new(n) });
            c.op(&format!("dox.nm {} {} {n}", DIR[sub as usize], enc_n(&ndt)), &match &gop { Ok(x) => enc_n(x), Err(()) => "panic".into() });
            let want = ref_months(d, if sub { -(n as i128) } else { n as i128 });
            match (&gop, want) {
                (Ok(x), Some(w)) if ymd(&x.date()) == w && x.time() == t => c.count("months-op:naive:value"),
                (Err(()), None) => c.count("months-op:naive:panic-year-out-of-range"),
                _ => c.fail("NaiveDateTime +/- Months: not (the clamped day of the target month, time kept) / panic exactly when the target year is out of range", &format!("{ndt:?} n={n} sub={sub} -> {gop:?} want {want:?}")),
            }
        }
        let want = r.clone().map(|o| o.map(|x| x.and_time(t)));
        if got != want {
            c.fail("NaiveDateTime month stepping differs from stepping the date and keeping the time", &format!("{ndt:?} n={n} sub={sub}"));
        }
        let off = gen_offset(c);
        if let Some(dt) = off.from_local_datetime(&ndt).single() {
            let got = guard(|| if sub { dt.checked_sub_months(Months::new(n)) } else { dt.checked_add_months(Months::new(n)) });
            c.op(&format!("dto.zm {} {} {n}", DIR[sub as usize], enc_z(&dt)), &show_oz(&got));
            zoned_oracle(c, "month stepping", &format!("{dt:?} n={n} sub={sub}"), &dt, got.clone(), want.clone());
            zoned_months_op(c, &dt, n, sub, &got);
        }
        if in_utc(&ndt) {
            let dt = ndt.and_utc();
            let got = guard(|| if sub { dt.checked_sub_months(Months::new(n)) } else { dt.checked_add_months(Months::new(n)) });
            c.op(&format!("dto.zm {} {} {n}", DIR[sub as usize], enc_z(&dt)), &show_oz(&got));
            {
                // `DateTime<Utc> ± Months`: the naive reference value, a panic exactly when there is none
                let gop = guard(|| if sub { dt - Months::new(n) } else { dt + Months::new(n) });
                c.op(&format!("dox.zm {} {} {n}", DIR[sub as usize], enc_z(&dt)), &match &gop { Ok(x) => enc_z(x), Err(()) => "panic".into() });
                match (&gop, &want) {
                    (Ok(x), Ok(Some(w))) if x.naive_utc() == *w => c.count("months-op:utc:value"),
                    (Err(()), Ok(None)) => c.count("months-op:utc:panic"),
                    _ => c.fail("DateTime<Utc> +/- Months: not the naive value / a panic exactly when there is none", &format!("{dt:?} n={n} sub={sub} -> {gop:?}")),
                }
            }
            match (got, &want) {
                (Ok(g), Ok(w)) if g.map(|x| x.naive_utc()) == *w => c.count("deleg:utc-ok"),
                _ => c.fail("DateTime<Utc> month stepping differs from the naive value", &format!("{dt:?} n={n} sub={sub}")),
            }
        }
    }
}
/// `DateTime<FixedOffset> ± Months`: correspondence, and the oracle "the checked result, a panic exactly on
/// None" plus, independently of the checked form, "a value has the same offset and the reference wall clock"
fn zoned_months_op(c: &mut Ctx, dt: &DateTime<FixedOffset>, n: u32, sub: bool, checked: &Result<Option<DateTime<FixedOffset>>, ()>) {
    let gop = guard(|| if sub { *dt - Months::new(n) } else { *dt + Months::new(n) });
    c.op(&format!("dox.zm {} {} {n}", DIR[sub as usize], enc_z(dt)), &match &gop { Ok(x) => enc_z(x), Err(()) => "panic".into() });
    let detail = format!("{dt:?} n={n} sub={sub} -> {gop:?}");
    match (&gop, checked) {
        (Ok(x), Ok(Some(w))) if x == w && x.offset() == w.offset() => c.count("months-op:zoned:value"),
        (Err(()), Ok(None)) => c.count("months-op:zoned:panic"),
        _ => c.fail("DateTime +/- Months: not the checked result / a panic exactly when the checked form is None", &detail),
    }
    if let Ok(x) = &gop {
        if x.offset() != dt.offset() {
            c.fail("DateTime +/- Months changed the offset", &detail);
        }
        if n == 0 && (x != dt) {
            c.fail("DateTime +/- Months(0) is not the value itself", &detail);
        }
    }
    // reference wall clocks, computed from the UTC readings' day numbers and the offset, so that wall clocks
    // in the day before MIN / after MAX (not NaiveDateTimes) are judged too
    if n > 0 {
        let (wy, wm, wd, sod) = wall_ymd(dt);
        let want = ref_months_ymd((wy, wm, wd), if sub { -(n as i128) } else { n as i128 });
        // the instant of the stepped wall clock must be representable (its date in NaiveDate::MIN..=MAX)
        let want = want.filter(|w| {
            let inst = day_num(w.0, w.1, w.2) * 86400 + sod - dt.offset().local_minus_utc() as i64;
            inst >= min_dn() * 86400 && inst <= max_dn() * 86400 + 86399
        });
        let headroom = { let n0 = day_num(wy, wm, wd); n0 < min_dn() || n0 > max_dn() };
        match (&gop, want) {
            (Ok(x), Some(w)) => {
                let (xy, xm, xd, xsod) = wall_ymd(x);
                if (xy, xm, xd) != w || xsod != sod || x.nanosecond() != dt.nanosecond() {
                    c.fail("DateTime +/- Months: the wall clock of the result is not the clamped day of the target month with the time of day kept", &format!("{detail} want {w:?}"));
                }
                c.count(if headroom { "months-op:zoned:headroom-wall-clock:value" } else { "months-op:zoned:wall-clock-ok" });
            }
            (Err(()), None) => c.count(if headroom { "months-op:zoned:headroom-wall-clock:panic" } else { "months-op:zoned:wall-clock-none" }),
            (Ok(x), None) => c.fail("DateTime +/- Months: yields a value although the target month is out of range or its instant not representable", &format!("{detail} -> {x:?}")),
            (Err(()), Some(w)) => c.fail("DateTime +/- Months: panics although the stepped wall clock is representable", &format!("{detail} want {w:?}")),
        }
    }
}
/// (year, month, day, second of day) of the wall clock of a zone-aware value, from the day number of its UTC
/// reading (independent closed form) and its offset — defined also in the day before MIN / after MAX
fn wall_ymd(z: &DateTime<FixedOffset>) -> (i64, i64, i64, i64) {
    let u = z.naive_utc();
    let wall = dn(&u.date()) * 86400 + u.time().num_seconds_from_midnight() as i64 + z.offset().local_minus_utc() as i64;
    let day = wall.div_euclid(86400);
    let (y, m) = ym_of_day_num(day);
    (y, m, day - day_num(y, m, 1) + 1, wall.rem_euclid(86400))
}
fn in_utc(x: &NaiveDateTime) -> bool {
    *x >= DateTime::<Utc>::MIN_UTC.naive_utc() && *x <= DateTime::<Utc>::MAX_UTC.naive_utc()
}
/// a zone-aware result must be the naive result at the same offset, or nothing when that instant is
/// not representable
fn zoned_oracle(
    c: &mut Ctx,
    what: &str,
    detail: &str,
    dt: &DateTime<FixedOffset>,
    got: Result<Option<DateTime<FixedOffset>>, ()>,
    want: Result<Option<NaiveDateTime>, ()>,
) {
    match (got, want) {
        (Ok(Some(g)), Ok(Some(w))) => {
            if g.naive_local() != w || g.offset() != dt.offset() {
                c.fail(&format!("DateTime<FixedOffset> {what}: not the naive result at the same offset"), detail);
            }
            c.count("deleg:fixed-some");
        }
        (Ok(None), Ok(None)) => c.count("deleg:fixed-none"),
        (Ok(None), Ok(Some(w))) => {
            // allowed only when the instant leaves MIN_UTC..=MAX_UTC
            let utc = w.checked_sub_offset(*dt.offset());
            let ok = match utc {
                None => true,
                Some(u) => u < DateTime::<Utc>::MIN_UTC.naive_utc() || u > DateTime::<Utc>::MAX_UTC.naive_utc(),
            };
            if !ok {
                c.fail(&format!("DateTime<FixedOffset> {what}: fails although the result is representable"), detail);
            }
            c.count("deleg:fixed-none-at-range-end");
        }
        (Ok(Some(_)), Ok(None)) => c.fail(&format!("DateTime<FixedOffset> {what}: yields a value although the naive operation fails"), detail),
        _ => c.fail(&format!("DateTime<FixedOffset> {what}: panicked"), detail),
    }
}
fn block_months(c: &mut Ctx, y0: i32, y1: i32, ns: &[u32]) {
    let mut h = SEED;
    for y in y0..=y1 {
        for o in 0..367u32 {
            if let Some(d) = NaiveDate::from_yo_opt(y, o) {
                for n in ns {
                    h = mix_r(h, &months_eval(c, &d, *n, false));
                    h = mix_r(h, &months_eval(c, &d, *n, true));
                }
            }
        }
    }
    let list = ns.iter().map(|n| n.to_string()).collect::<Vec<_>>().join(" ");
    c.op(&format!("do.blockm {y0} {y1} {list}"), &h.to_string());
    c.count_n("block:months:dates", ((y1 - y0 + 1) as u64) * 365);
}

// ---- field replacement ---------------------------------------------------------------------------
const FIELDS: [&str; 6] = ["wm", "wm0", "wd", "wd0", "wo", "wo0"];
fn with_eval(c: &mut Ctx, d: &NaiveDate, field: usize, v: u32) -> Result<Option<NaiveDate>, ()> {
    let r = guard(|| match field {
        0 => d.with_month(v),
        1 => d.with_month0(v),
        2 => d.with_day(v),
        3 => d.with_day0(v),
        4 => d.with_ordinal(v),
        _ => d.with_ordinal0(v),
    });
    let (y, m, dd) = ymd(d);
    let one = v as i64 + (field % 2) as i64; // the 1-based value the call denotes
    // the date the property asks for, as (year, month, day) or (year, ordinal)
    let want: Option<(i64, i64, i64)> = match field {
        0 | 1 => if (1..=12).contains(&one) && dd <= month_len(y, one) { Some((y, one, dd)) } else { None },
        2 | 3 => if one >= 1 && one <= month_len(y, m) { Some((y, m, one)) } else { None },
        _ => {
            if one >= 1 && one <= 365 + is_leap(y) as i64 {
                // month/day of the ordinal by walking the reference month lengths
                let (mut mm, mut rest) = (1, one);
                while rest > month_len(y, mm) {
                    rest -= month_len(y, mm);
                    mm += 1;
                }
                Some((y, mm, rest))
            } else {
                None
            }
        }
    };
    let name = format!("with_{}", ["month", "month0", "day", "day0", "ordinal", "ordinal0"][field]);
    match (&r, want) {
        (Ok(Some(x)), Some(w)) => {
            if ymd(x) != w || (field >= 4 && x.ordinal() as i64 != one) {
                c.fail(&format!("{name}: result is not the date with that field replaced and the others kept"), &format!("{} v={v} -> {} want {:?}", desc(d), desc(x), w));
            }
            c.count(&format!("{}:some", FIELDS[field]));
        }
        (Ok(None), None) => {
            let class = match field {
                0 | 1 => if (1..=12).contains(&one) { "none:day-not-in-month" } else { "none:month-out-of-1..12" },
                2 | 3 => if (1..=31).contains(&one) { "none:day-not-in-month" } else { "none:day-out-of-1..31" },
                _ => if one == 366 { "none:ordinal-366-common-year" } else { "none:ordinal-out-of-range" },
            };
            c.count(&format!("{}:{}", FIELDS[field], class));
            if v == u32::MAX && field % 2 == 1 {
                c.count(&format!("{}:none:u32max+1", FIELDS[field]));
            }
        }
        (Ok(Some(x)), None) => c.fail(&format!("{name}: yields a date although no such date exists"), &format!("{} v={v} -> {}", desc(d), desc(x))),
        (Ok(None), Some(w)) => c.fail(&format!("{name}: fails although the date exists"), &format!("{} v={v} want {:?}", desc(d), w)),
        (Err(()), _) => c.fail(&format!("{name}: panicked"), &format!("{} v={v}", desc(d))),
    }
    r
}
fn with_year_eval(c: &mut Ctx, d: &NaiveDate, y2: i32) -> Result<Option<NaiveDate>, ()> {
    let r = guard(|| d.with_year(y2));
    let (_, m, dd) = ymd(d);
    let want = if in_range(y2 as i64) && dd <= month_len(y2 as i64, m) { Some((y2 as i64, m, dd)) } else { None };
    match (&r, want) {
        (Ok(Some(x)), Some(w)) => {
            if ymd(x) != w {
                c.fail("with_year: result is not the same month and day in the new year", &format!("{} y={y2} -> {}", desc(d), desc(x)));
            }
            c.count("wy:some");
        }
        (Ok(None), None) => c.count(if in_range(y2 as i64) { "wy:none:feb29-in-common-year" } else { "wy:none:year-out-of-range" }),
        (Ok(Some(x)), None) => c.fail("with_year: yields a date although no such date exists", &format!("{} y={y2} -> {}", desc(d), desc(x))),
        (Ok(None), Some(w)) => c.fail("with_year: fails although the date exists", &format!("{} y={y2} want {:?}", desc(d), w)),
        (Err(()), _) => c.fail("with_year: panicked", &format!("{} y={y2}", desc(d))),
    }
    r
}
fn block_with(c: &mut Ctx, y0: i32, y1: i32, vs: &[u32]) {
    let mut h = SEED;
    for y in y0..=y1 {
        for o in 0..367u32 {
            if let Some(d) = NaiveDate::from_yo_opt(y, o) {
                for v in vs {
                    for f in 0..6 {
                        h = mix_r(h, &with_eval(c, &d, f, *v));
                    }
                }
            }
        }
    }
    let list = vs.iter().map(|n| n.to_string()).collect::<Vec<_>>().join(" ");
    c.op(&format!("do.blockw {y0} {y1} {list}"), &h.to_string());
    c.count_n("block:with:dates", ((y1 - y0 + 1) as u64) * 365);
}
fn block_with_year(c: &mut Ctx, y0: i32, y1: i32, abs: &[i32], rel: &[i32]) {
    let mut h = SEED;
    let mut hr = SEED;
    for y in y0..=y1 {
        for o in 0..367u32 {
            if let Some(d) = NaiveDate::from_yo_opt(y, o) {
                for v in abs {
                    h = mix_r(h, &with_year_eval(c, &d, *v));
                }
                for v in rel {
                    hr = mix_r(hr, &with_year_eval(c, &d, y + *v));
                }
            }
        }
    }
    let list = abs.iter().map(|n| n.to_string()).collect::<Vec<_>>().join(" ");
    c.op(&format!("do.blocky {y0} {y1} {list}"), &h.to_string());
    let list = rel.iter().map(|n| n.to_string()).collect::<Vec<_>>().join(" ");
    c.op(&format!("do.blockyr {y0} {y1} {list}"), &hr.to_string());
}

// ---- weeks ---------------------------------------------------------------------------------------
struct WeekRes {
    first: Result<Option<NaiveDate>, ()>,
    last: Result<Option<NaiveDate>, ()>,
}
fn week_eval(c: &mut Ctx, d: &NaiveDate, s: usize) -> WeekRes {
    let w = d.week(WD[s]);
    let first = guard(|| w.checked_first_day());
    let last = guard(|| w.checked_last_day());
    let n = dn(d);
    let wd = (n + 6).rem_euclid(7); // weekday of the day number, Monday = 0 (0001-01-01 is a Monday)
    let k = (wd - s as i64).rem_euclid(7);
    let (fdn, ldn) = (n - k, n - k + 6);
    match &first {
        Ok(Some(f)) => {
            if fdn < min_dn() || dn(f) != fdn || f.weekday() != WD[s] || !(f <= d) || n - dn(f) > 6 {
                c.fail("week: first day is not the chosen weekday at most six days earlier", &format!("{} start={s} -> {}", desc(d), desc(f)));
            }
            c.count(&format!("week:first:{}-days-back", k));
        }
        Ok(None) => {
            if fdn >= min_dn() {
                c.fail("week: first day refused although it is in range", &format!("{} start={s}", desc(d)));
            }
            c.count("week:first:none-before-MIN");
        }
        Err(()) => c.fail("week: checked_first_day panicked", &format!("{} start={s}", desc(d))),
    }
    match &last {
        Ok(Some(l)) => {
            if ldn > max_dn() || dn(l) != ldn || l.weekday() != WD[s].pred() || !(l >= d) {
                c.fail("week: last day is not six days after the first day", &format!("{} start={s} -> {}", desc(d), desc(l)));
            }
        }
        Ok(None) => {
            if ldn <= max_dn() {
                c.fail("week: last day refused although it is in range", &format!("{} start={s}", desc(d)));
            }
            c.count("week:last:none-after-MAX");
        }
        Err(()) => c.fail("week: checked_last_day panicked", &format!("{} start={s}", desc(d))),
    }
    WeekRes { first, last }
}
fn week_single(c: &mut Ctx, d: &NaiveDate, s: usize) {
    let r = week_eval(c, d, s);
    let w = d.week(WD[s]);
    let cd = guard(|| w.checked_days());
    let fd = guard(|| w.first_day());
    let ld = guard(|| w.last_day());
    let ds = guard(|| w.days());
    let show_range = |a: &NaiveDate, b: &NaiveDate| format!("{}..{}", yof(a), yof(b));
    let cds = match &cd {
        Ok(Some(r)) => show_range(r.start(), r.end()),
        Ok(None) => "none".into(),
        Err(()) => "panic".into(),
    };
    let dss = match &ds {
        Ok(r) => show_range(r.start(), r.end()),
        Err(()) => "panic".into(),
    };
    c.op(
        &format!("do.wk {} {s}", yof(d)),
        &format!("{} {} {} {} {} {}", show_r(&r.first), show_r(&r.last), cds, show_d(&fd), show_d(&ld), dss),
    );
    // the panicking / combined forms agree with the checked ones
    let both = match (&r.first, &r.last) {
        (Ok(Some(a)), Ok(Some(b))) => Some((*a, *b)),
        _ => None,
    };
    if cd.clone().ok().flatten().map(|x| (*x.start(), *x.end())) != both || (cd.is_err()) {
        c.fail("week: checked_days is not (first day ..= last day) exactly when both exist", &format!("{} start={s}", desc(d)));
    }
    if fd.clone().ok() != r.first.clone().ok().flatten() || ld.clone().ok() != r.last.clone().ok().flatten() || ds.ok().map(|x| (*x.start(), *x.end())) != both {
        c.fail("week: first_day/last_day/days disagree with the checked forms (must panic exactly on None)", &format!("{} start={s}", desc(d)));
    }
    if both.is_none() {
        c.count("week:days:none");
    }
}
fn block_week(c: &mut Ctx, y0: i32, y1: i32) {
    let mut h = SEED;
    for y in y0..=y1 {
        for o in 0..367u32 {
            if let Some(d) = NaiveDate::from_yo_opt(y, o) {
                for s in 0..7 {
                    let r = week_eval(c, &d, s);
                    h = mix_r(h, &r.first);
                    h = mix_r(h, &r.last);
                }
                let m = misc_eval(c, &d);
                h = match m.0 { Ok(q) => mix(h, q as i64), Err(()) => mix(h, -2) };
                h = match m.1 { Ok((b, y)) => mix(mix(h, b as i64), y as i64), Err(()) => mix(h, -2) };
                h = match m.2 { Ok(n) => mix(h, n as i64), Err(()) => mix(h, -2) };
            }
        }
    }
    c.op(&format!("do.blockk {y0} {y1}"), &h.to_string());
    c.count_n("block:week+misc:dates", ((y1 - y0 + 1) as u64) * 365);
}

// ---- quarter, year_ce, num_days_in_month -----------------------------------------------------------
type Misc = (Result<u32, ()>, Result<(bool, u32), ()>, Result<u8, ()>);
fn misc_eval(c: &mut Ctx, d: &NaiveDate) -> Misc {
    let q = guard(|| d.quarter());
    let ce = guard(|| d.year_ce());
    let nd = guard(|| d.num_days_in_month());
    let (y, m, _) = ymd(d);
    if q != Ok(((m + 2) / 3) as u32) {
        c.fail("quarter is not ceil(month / 3)", &desc(d));
    }
    let want_ce = if y >= 1 { (true, y as u32) } else { (false, (1 - y) as u32) };
    if ce != Ok(want_ce) {
        c.fail("year_ce is not (CE?, year counted from 1 in its era)", &desc(d));
    }
    if nd != Ok(month_len(y, m) as u8) {
        c.fail("num_days_in_month is not the length of the month", &desc(d));
    }
    (q, ce, nd)
}
fn misc_single(c: &mut Ctx, d: &NaiveDate) {
    let m = misc_eval(c, d);
    let qs = match m.0 { Ok(q) => q.to_string(), Err(()) => "panic".into() };
    let ces = match m.1 { Ok((b, y)) => format!("{} {}", b01(b), y), Err(()) => "panic".into() };
    let ns = match m.2 { Ok(n) => n.to_string(), Err(()) => "panic".into() };
    c.op(&format!("do.misc {}", yof(d)), &format!("{qs} {ces} {ns}"));
    c.count(&format!("misc:quarter-{}", qs));
    let t = gen_time(c);
    naive_misc(c, &d.and_time(t));
}
/// (year, month) of a day number, by search on the independent closed form `day_num`
fn ym_of_day_num(n: i64) -> (i64, i64) {
    let mut y = n.div_euclid(366) + 1;
    while day_num(y + 1, 1, 1) <= n {
        y += 1;
    }
    while day_num(y, 1, 1) > n {
        y -= 1;
    }
    let mut m = 1;
    while m < 12 && day_num(y, m + 1, 1) <= n {
        m += 1;
    }
    (y, m)
}
fn show_misc(m: &Misc) -> String {
    let qs = match m.0 { Ok(q) => q.to_string(), Err(()) => "panic".into() };
    let ces = match m.1 { Ok((b, y)) => format!("{} {}", b01(b), y), Err(()) => "panic".into() };
    let ns = match m.2 { Ok(n) => n.to_string(), Err(()) => "panic".into() };
    format!("{qs} {ces} {ns}")
}
fn judge_misc(c: &mut Ctx, what: &str, detail: &str, m: &Misc, y: i64, mo: i64) {
    let want_ce = if y >= 1 { (true, y as u32) } else { (false, (1 - y) as u32) };
    if m.0 != Ok(((mo + 2) / 3) as u32) || m.1 != Ok(want_ce) || m.2 != Ok(month_len(y, mo) as u8) {
        c.fail(&format!("{what}: quarter / year_ce / num_days_in_month disagree with the calendar"), &format!("{detail} -> {} want year {y} month {mo}", show_misc(m)));
    }
}
/// the inherited `Datelike` defaults on `NaiveDateTime`
fn naive_misc(c: &mut Ctx, ndt: &NaiveDateTime) {
    let m: Misc = (guard(|| ndt.quarter()), guard(|| ndt.year_ce()), guard(|| ndt.num_days_in_month()));
    c.op(&format!("dox.nmisc {}", enc_n(ndt)), &show_misc(&m));
    let (y, mo, _) = ymd(&ndt.date());
    judge_misc(c, "NaiveDateTime", &format!("{ndt:?}"), &m, y, mo);
    c.count("misc:naive-datetime");
}
/// … and on `DateTime<FixedOffset>`: they read the wall clock, which may lie in the day before MIN / after
/// MAX; the reference wall clock is computed from the UTC reading's day number and the offset
fn zoned_misc(c: &mut Ctx, z: &DateTime<FixedOffset>) {
    let m: Misc = (guard(|| z.quarter()), guard(|| z.year_ce()), guard(|| z.num_days_in_month()));
    c.op(&format!("dox.zmisc {}", enc_z(z)), &show_misc(&m));
    let u = z.naive_utc();
    let wall = dn(&u.date()) * 86400 + u.time().num_seconds_from_midnight() as i64 + z.offset().local_minus_utc() as i64;
    let wall_day = wall.div_euclid(86400);
    let (y, mo) = ym_of_day_num(wall_day);
    judge_misc(c, "DateTime<FixedOffset>", &format!("{z:?}"), &m, y, mo);
    c.count(if wall_day < min_dn() || wall_day > max_dn() { "misc:zoned:headroom-wall-clock" } else { "misc:zoned" });
}
fn month_num_days(c: &mut Ctx, m0: u32, year: i32) {
    let mo = Month::try_from((m0 + 1) as u8).unwrap();
    let r = guard(|| mo.num_days(year));
    c.op(&format!("do.mnd {m0} {year}"), &match r { Ok(o) => opt(o), Err(()) => "panic".into() });
    match r {
        Ok(Some(v)) => {
            if v as i64 != month_len(year as i64, m0 as i64 + 1) {
                c.fail("Month::num_days is not the length of that month in that year", &format!("month0={m0} year={year} -> {v}"));
            }
            c.count(if m0 == 1 { "mnd:feb" } else { "mnd:other" });
        }
        Ok(None) => {
            if in_range(year as i64) {
                c.fail("Month::num_days fails for a year of the supported range", &format!("month0={m0} year={year}"));
            }
            c.count("mnd:none");
        }
        Err(()) => c.fail("Month::num_days panicked", &format!("month0={m0} year={year}")),
    }
}

// ---- n-th weekday of a month -------------------------------------------------------------------------
fn nth_single(c: &mut Ctx, y: i32, m: u32, wd: usize, n: u8) {
    let r = guard(|| NaiveDate::from_weekday_of_month_opt(y, m, WD[wd], n));
    c.op(&format!("do.nth {y} {m} {wd} {n}"), &show_r(&r));
    // the deprecated panicking alias: the same date, a panic exactly on None
    #[allow(deprecated)]
    let rp = guard(|| NaiveDate::from_weekday_of_month(y, m, WD[wd], n));
    c.op(&format!("dox.nthp {y} {m} {wd} {n}"), &show_d(&rp));
    if rp.clone().ok() != r.clone().ok().flatten() || r.is_err() {
        c.fail("from_weekday_of_month: not the value of from_weekday_of_month_opt / a panic exactly on None", &format!("{y} {m} wd={wd} n={n}"));
    }
    // reference: walk the month and count occurrences of the weekday
    let mut want: Option<(i64, i64, i64)> = None;
    if n >= 1 && in_range(y as i64) && (1..=12).contains(&m) {
        let mut seen = 0u32;
        for dd in 1..=month_len(y as i64, m as i64) {
            if (day_num(y as i64, m as i64, dd) + 6).rem_euclid(7) == wd as i64 {
                seen += 1;
                if seen == n as u32 {
                    want = Some((y as i64, m as i64, dd));
                }
            }
        }
    }
    match (&r, want) {
        (Ok(Some(x)), Some(w)) => {
            if ymd(x) != w || x.weekday() != WD[wd] {
                c.fail("from_weekday_of_month_opt: not the n-th such weekday of the month", &format!("{y} {m} wd={wd} n={n} -> {}", desc(x)));
            }
            c.count(&format!("nth:some:n={}", n));
        }
        (Ok(None), None) => c.count(if n == 0 { "nth:none:n=0" } else if n <= 5 { "nth:none:n<=5" } else { "nth:none:n>5" }),
        (Ok(Some(x)), None) => c.fail("from_weekday_of_month_opt: yields a date although the month has no such weekday", &format!("{y} {m} wd={wd} n={n} -> {}", desc(x))),
        (Ok(None), Some(w)) => c.fail("from_weekday_of_month_opt: fails although the weekday exists", &format!("{y} {m} wd={wd} n={n} want {:?}", w)),
        (Err(()), _) => c.fail("from_weekday_of_month_opt: panicked", &format!("{y} {m} wd={wd} n={n}")),
    }
}

// ---- whole years elapsed -------------------------------------------------------------------------------
fn years_single(c: &mut Ctx, a: &NaiveDate, b: &NaiveDate) {
    let r = guard(|| a.years_since(*b));
    c.op(&format!("do.ys {} {}", yof(a), yof(b)), &match r { Ok(o) => opt(o), Err(()) => "panic".into() });
    let (ya, ma, da) = ymd(a);
    let (yb, mb, db) = ymd(b);
    match r {
        Ok(Some(k)) => {
            // base advanced by k calendar years is not after self, by k+1 years it is
            let k = k as i64;
            if !((yb + k, mb, db) <= (ya, ma, da) && (ya, ma, da) < (yb + k + 1, mb, db)) {
                c.fail("years_since: not the number of whole years elapsed", &format!("{} since {} -> {k}", desc(a), desc(b)));
            }
            c.count(if (ma, da) < (mb, db) { "years:some:anniversary-not-reached" } else if (ma, da) == (mb, db) { "years:some:on-anniversary" } else { "years:some:after-anniversary" });
        }
        Ok(None) => {
            if !(a < b) || !((ya, ma, da) < (yb, mb, db)) {
                c.fail("years_since: fails although base is not after self", &format!("{} since {}", desc(a), desc(b)));
            }
            c.count("years:none");
        }
        Err(()) => c.fail("years_since: panicked", &format!("{} since {}", desc(a), desc(b))),
    }
    // zone-aware form: the time of day takes part in the comparison
    let ta = gen_time(c);
    // the same month and day are frequent here, so times next to each other reach the tie-break
    let tb = if c.rng.chance(1, 2) { gen_time_near(c, &ta) } else { gen_time(c) };
    let (xa, xb) = (a.and_time(ta).and_utc(), b.and_time(tb).and_utc());
    let ru = guard(|| xa.years_since(xb));
    c.op(&format!("dto.zys {} {}", enc_z(&xa), enc_z(&xb)), &match ru { Ok(o) => opt(o), Err(()) => "panic".into() });
    // each value at its own fixed offset: the wall clocks are compared
    if in_utc(&a.and_time(ta)) && in_utc(&b.and_time(tb)) {
        let (oa, ob) = (gen_offset(c), if c.rng.chance(1, 2) { gen_offset(c) } else { FixedOffset::east_opt(0).unwrap() });
        years_zoned(c, &oa.from_utc_datetime(&a.and_time(ta)), &ob.from_utc_datetime(&b.and_time(tb)));
    }
    match ru {
        Ok(Some(k)) => {
            let k = k as i64;
            if !((yb + k, mb, db, tb) <= (ya, ma, da, ta) && (ya, ma, da, ta) < (yb + k + 1, mb, db, tb)) {
                c.fail("DateTime::years_since: not the number of whole years elapsed", &format!("{xa:?} since {xb:?} -> {k}"));
            }
        }
        Ok(None) => {
            if !((ya, ma, da, ta) < (yb, mb, db, tb)) {
                c.fail("DateTime::years_since: fails although base is not after self", &format!("{xa:?} since {xb:?}"));
            }
        }
        Err(()) => c.fail("DateTime::years_since: panicked", &format!("{xa:?} since {xb:?}")),
    }
}

// ---- generators ----------------------------------------------------------------------------------------
fn gen_time(c: &mut Ctx) -> NaiveTime {
    let secs = match c.rng.below(4) {
        0 => *c.rng.pick(&[0u32, 1, 59, 60, 3599, 3600, 43199, 43200, 86399, 86340]),
        _ => c.rng.below(86400) as u32,
    };
    let nano = match c.rng.below(4) {
        0 => *c.rng.pick(&[0u32, 1, 999_999_999, 1_000_000_000, 1_999_999_999, 500_000_000]),
        1 => c.rng.range(1_000_000_000, 1_999_999_999) as u32,
        _ => c.rng.nanos(),
    };
    // a leap-second fraction is only representable in second 59
    let secs = if nano >= 1_000_000_000 { secs - secs % 60 + 59 } else { secs };
    NaiveTime::from_num_seconds_from_midnight_opt(secs, nano).unwrap()
}
fn gen_offset(c: &mut Ctx) -> FixedOffset {
    let s = match c.rng.below(3) {
        0 => *c.rng.pick(&[0i32, 1, -1, 3600, -3600, 86399, -86399, 19800]),
        _ => c.rng.range(-86399, 86399) as i32,
    };
    FixedOffset::east_opt(s).unwrap()
}
/// a time of day equal or next to `t` in the derived order (second, then nanosecond field)
fn gen_time_near(c: &mut Ctx, t: &NaiveTime) -> NaiveTime {
    let (s, f) = (t.num_seconds_from_midnight() as i64, t.nanosecond() as i64);
    let (s2, f2) = match c.rng.below(5) {
        0 => (s, f),
        1 => (s, f + 1),
        2 => (s, f - 1),
        3 => (s + 1, f),
        _ => (s - 1, f),
    };
    let s2 = s2.clamp(0, 86399) as u32;
    let f2 = f2.clamp(0, 1_999_999_999) as u32;
    NaiveTime::from_num_seconds_from_midnight_opt(s2, 0).unwrap().with_nanosecond(f2).unwrap()
}
/// a time of day with the leap-second representation on ANY second (reachable through with_nanosecond)
fn gen_time_any(c: &mut Ctx) -> NaiveTime {
    let t = gen_time(c);
    if c.rng.chance(1, 3) {
        let secs = match c.rng.below(3) {
            0 => *c.rng.pick(&[0u32, 1, 58, 59, 60, 3599, 3600, 86398, 86399]),
            _ => c.rng.below(86400) as u32,
        };
        let nano = match c.rng.below(3) {
            0 => *c.rng.pick(&[1_000_000_000u32, 1_999_999_999, 1_500_000_000]),
            _ => c.rng.range(1_000_000_000, 1_999_999_999) as u32,
        };
        NaiveTime::from_num_seconds_from_midnight_opt(secs, 0).unwrap().with_nanosecond(nano).unwrap()
    } else {
        t
    }
}
/// a zone-aware value; one in three within two days of a range end, where the wall clock can fall in
/// the day before MIN / after MAX
fn gen_zoned(c: &mut Ctx) -> DateTime<FixedOffset> {
    let off = gen_offset(c);
    let (lo, hi) = (DateTime::<Utc>::MIN_UTC.naive_utc(), DateTime::<Utc>::MAX_UTC.naive_utc());
    let u = match c.rng.below(6) {
        0 => lo.checked_add_signed(TimeDelta::seconds(c.rng.below(2 * 86400) as i64)).unwrap(),
        1 => hi.checked_sub_signed(TimeDelta::seconds(c.rng.below(2 * 86400) as i64)).unwrap(),
        _ => {
            let x = gen_date8(c).and_time(gen_time_any(c));
            if in_utc(&x) { x } else { hi }
        }
    };
    off.from_utc_datetime(&u)
}

/// dates concentrated on month ends, leap days and both range ends
fn gen_date8(c: &mut Ctx) -> NaiveDate {
    loop {
        let d = match c.rng.below(6) {
            0 | 1 => gen_date(c),
            2 => {
                let y = super::c01::gen_year(c);
                let m = c.rng.range(1, 12) as u32;
                let dd = c.rng.range(28, 31) as u32;
                match NaiveDate::from_ymd_opt(y, m, dd) { Some(d) => d, None => continue }
            }
            3 => {
                let y = *c.rng.pick(&[MIN_YEAR, MIN_YEAR + 1, MAX_YEAR - 1, MAX_YEAR]);
                match NaiveDate::from_yo_opt(y, *c.rng.pick(&[1u32, 2, 3, 4, 5, 6, 7, 8, 31, 32, 59, 60, 358, 359, 360, 361, 362, 363, 364, 365, 366])) { Some(d) => d, None => continue }
            }
            4 => {
                let y = c.rng.range(-3, 3) as i32 * 4 + *c.rng.pick(&[1896, 1900, 1904, 2000, 2096, 2100, 0, 4, -4, 400, -400]);
                match NaiveDate::from_ymd_opt(y, *c.rng.pick(&[1u32, 2, 3, 12]), *c.rng.pick(&[1u32, 28, 29, 30, 31])) { Some(d) => d, None => continue }
            }
            _ => {
                let y = c.rng.range(1600, 2400) as i32;
                match NaiveDate::from_yo_opt(y, c.rng.range(1, 366) as u32) { Some(d) => d, None => continue }
            }
        };
        return d;
    }
}
fn gen_months(c: &mut Ctx, d: &NaiveDate) -> u32 {
    let (y, m, _) = ymd(d);
    let cur = y * 12 + m - 1;
    let to_max = (MAX_YEAR as i64 * 12 + 11 - cur) as i64; // months to the last month of the range
    let to_min = (cur - MIN_YEAR as i64 * 12) as i64; // months back to the first month of the range
    let v: i64 = match c.rng.below(8) {
        0 => *c.rng.pick(&[0i64, 1, 11, 12, 13, 1199, 1200, 4800, 4799, 24, 48]),
        1 => *c.rng.pick(&[i32::MAX as i64 - 1, i32::MAX as i64, i32::MAX as i64 + 1, u32::MAX as i64 - 1, u32::MAX as i64, 1 << 31, (1 << 31) + 12]),
        2 => to_max + c.rng.range(-13, 13),
        3 => to_min + c.rng.range(-13, 13),
        4 => c.rng.range(0, 7_000_000),
        5 => c.rng.range(0, 60),
        6 => c.rng.range(0, 5000),
        _ => (c.rng.log_i64().unsigned_abs() % (1u64 << 32)) as i64,
    };
    v.clamp(0, u32::MAX as i64) as u32
}
fn gen_u32_field(c: &mut Ctx, d: &NaiveDate) -> u32 {
    let (y, m, _) = ymd(d);
    match c.rng.below(8) {
        // a value that a narrowing cast (u8 / u16 / i32 / the 5-, 9- or 4-bit fields of the packed
        // words) would fold onto a small one: 2^j * k + small
        7 => {
            let j = *c.rng.pick(&[4u32, 5, 8, 9, 13, 16, 24, 31]);
            let k = c.rng.range(1, 3) as u64;
            let small = match c.rng.below(3) { 0 => c.rng.below(33), 1 => *c.rng.pick(&[59u64, 60, 365, 366]), _ => c.rng.below(13) };
            (((k << j) + small) % (1u64 << 32)) as u32
        }
        0 => *c.rng.pick(&[0u32, 1, 2, 11, 12, 13, 27, 28, 29, 30, 31, 32, 33, 58, 59, 60, 61, 364, 365, 366, 367, 511, 512, 1023]),
        1 => *c.rng.pick(&[u32::MAX, u32::MAX - 1, 1 << 31, (1 << 31) - 1, 1 << 16, 256, 255, 1 << 9, (1 << 9) + 1, (1u32 << 5) + 1, u32::MAX - 11, u32::MAX - 30, (1 << 4) + (1 << 9)]),
        2 => (month_len(y, m) + c.rng.range(-2, 1)) as u32,
        3 => (365 + is_leap(y) as i64 + c.rng.range(-2, 1)) as u32,
        4 => c.rng.below(14) as u32,
        5 => c.rng.below(400) as u32,
        _ => (c.rng.log_i64().unsigned_abs() % (1u64 << 32)) as u32,
    }
}
fn gen_target_year(c: &mut Ctx, d: &NaiveDate) -> i32 {
    match c.rng.below(6) {
        0 => *c.rng.pick(&[MIN_YEAR - 1, MIN_YEAR, MIN_YEAR + 1, MAX_YEAR - 1, MAX_YEAR, MAX_YEAR + 1, i32::MIN, i32::MAX, i32::MIN + 1, 0, 1, -1]),
        1 => d.year() + c.rng.range(-8, 8) as i32,
        2 => c.rng.range(-5, 5) as i32 * 100 + *c.rng.pick(&[1900, 2000, 2100, 0]),
        3 => c.rng.range(MIN_YEAR as i64 - 3, MAX_YEAR as i64 + 3) as i32,
        4 => c.rng.range(1600, 2400) as i32,
        _ => c.rng.log_i64().clamp(i32::MIN as i64, i32::MAX as i64) as i32,
    }
}

// ---- time-of-day replacement: direct oracles only (the model is C07's) ---------------------------------
fn time_fields(c: &mut Ctx) {
    let t = gen_time_any(c);
    let (h, mi, s, n) = (t.hour(), t.minute(), t.second(), t.nanosecond());
    let field = c.rng.below(4) as usize;
    let bound: u32 = [24, 60, 60, 2_000_000_000][field];
    let v = match c.rng.below(5) {
        0 => bound - 1,
        1 => bound,
        2 => *c.rng.pick(&[0u32, 1, 23, 24, 25, 59, 60, 61, 999_999_999, 1_000_000_000, 1_999_999_999, 2_000_000_000, u32::MAX, u32::MAX - 1, 1 << 31, 1193046, 86400, 3600, 4294967]),
        3 => c.rng.below(bound as u64 + 3) as u32,
        _ => (c.rng.log_i64().unsigned_abs() % (1u64 << 32)) as u32,
    };
    let name = ["with_hour", "with_minute", "with_second", "with_nanosecond"][field];
    let apply = |t: &NaiveTime| match field {
        0 => t.with_hour(v),
        1 => t.with_minute(v),
        2 => t.with_second(v),
        _ => t.with_nanosecond(v),
    };
    let r = guard(|| apply(&t));
    c.op(&format!("dto.tw {} {} {v}", TFIELD[field], enc_t(&t)), &show_ot(&r));
    let mut want = [h, mi, s, n];
    want[field] = v;
    match r {
        Ok(Some(x)) => {
            if v >= bound || [x.hour(), x.minute(), x.second(), x.nanosecond()] != want {
                c.fail(&format!("NaiveTime::{name}: result is not the time with that field replaced and the others kept"), &format!("{t:?} v={v} -> {x:?}"));
            }
            c.count(&format!("time:{name}:some"));
        }
        Ok(None) => {
            if v < bound {
                c.fail(&format!("NaiveTime::{name}: fails although the time exists"), &format!("{t:?} v={v}"));
            }
            c.count(&format!("time:{name}:none"));
        }
        Err(()) => c.fail(&format!("NaiveTime::{name}: panicked"), &format!("{t:?} v={v}")),
    }
    // the constructors' view: on a constructor-built time the result IS from_hms_nano_opt of the new fields,
    // except that a leap representation may be carried off second :59 (with_second) or put on another second
    // (with_nanosecond) — the documented "leap second on any second"; exactly those cases are counted apart
    let strict = n < 1_000_000_000 || s == 59;
    if strict {
        let ctor = guard(|| NaiveTime::from_hms_nano_opt(want[0], want[1], want[2], want[3]));
        match (&r, &ctor) {
            (Ok(a), Ok(b)) if a == b => c.count("time:ctor-view:agrees"),
            (Ok(Some(x)), Ok(None)) => {
                let deviation = (field == 2 && n >= 1_000_000_000 && v < 59) || (field == 3 && (1_000_000_000..2_000_000_000).contains(&v) && s != 59);
                if !deviation {
                    c.fail(&format!("NaiveTime::{name}: returns a time the constructor refuses, outside the documented leap-on-any-second cases"), &format!("{t:?} v={v} -> {x:?}"));
                }
                c.count(&format!("time:off59:{name} returns a leap representation off second :59 (from_hms_nano_opt refuses these fields)"));
                if x.nanosecond() < 1_000_000_000 || x.second() == 59 {
                    c.fail(&format!("NaiveTime::{name}: deviation case does not carry a leap representation off :59"), &format!("{t:?} v={v} -> {x:?}"));
                }
            }
            _ => c.fail(&format!("NaiveTime::{name}: differs from from_hms_nano_opt on the new fields"), &format!("{t:?} v={v} -> {r:?}, constructor {ctor:?}")),
        }
    }
    // NaiveDateTime and DateTime<Utc> delegate to the time and keep the date
    let d = gen_date8(c);
    let ndt = d.and_time(t);
    let rn = guard(|| match field {
        0 => ndt.with_hour(v),
        1 => ndt.with_minute(v),
        2 => ndt.with_second(v),
        _ => ndt.with_nanosecond(v),
    });
    c.op(&format!("dto.nw {} {} {v}", TFIELD[field], enc_n(&ndt)), &show_on(&rn));
    if rn != r.map(|o| o.map(|x| d.and_time(x))) {
        c.fail(&format!("NaiveDateTime::{name} differs from replacing the field of the time and keeping the date"), &format!("{ndt:?} v={v}"));
    }
    // zone-aware values end at MAX_UTC = …T23:59:59.999999999: a leap-second reading of the very last
    // second of the range is not a DateTime, neither as input nor as result
    if in_utc(&ndt) {
        let dt = ndt.and_utc();
        let ru = guard(|| match field {
            0 => dt.with_hour(v),
            1 => dt.with_minute(v),
            2 => dt.with_second(v),
            _ => dt.with_nanosecond(v),
        });
        c.op(&format!("dto.zw {} {} {v}", TFIELD[field], enc_z(&dt)), &show_oz(&ru));
        let want = rn.map(|o| o.filter(in_utc));
        if want != rn {
            c.count("time:utc:result-beyond-MAX_UTC");
        }
        if ru.map(|o| o.map(|x| x.naive_utc())) != want {
            c.fail(&format!("DateTime<Utc>::{name} differs from the naive value (restricted to MIN_UTC..=MAX_UTC)"), &format!("{dt:?} v={v}"));
        }
    }
    // any fixed offset (sub-minute ones included): the replaced field is the wall-clock one
    let off = gen_offset(c);
    if let Some(dt) = guard(|| off.from_local_datetime(&ndt).single()).ok().flatten() {
        let rf = guard(|| match field {
            0 => dt.with_hour(v),
            1 => dt.with_minute(v),
            2 => dt.with_second(v),
            _ => dt.with_nanosecond(v),
        });
        c.op(&format!("dto.zw {} {} {v}", TFIELD[field], enc_z(&dt)), &show_oz(&rf));
        zoned_oracle(c, name, &format!("{dt:?} v={v}"), &dt, rf, rn);
    }
}

/// date-time and zone-aware delegations of the date field replacements (oracles only)
fn with_delegations(c: &mut Ctx, d: &NaiveDate, field: usize, v: u32, r: &Result<Option<NaiveDate>, ()>) {
    let t = gen_time(c);
    let ndt = d.and_time(t);
    let got = guard(|| match field {
        0 => ndt.with_month(v),
        1 => ndt.with_month0(v),
        2 => ndt.with_day(v),
        3 => ndt.with_day0(v),
        4 => ndt.with_ordinal(v),
        _ => ndt.with_ordinal0(v),
    });
    c.op(&format!("dto.nw {} {} {v}", DFIELD[field], enc_n(&ndt)), &show_on(&got));
    let want = r.clone().map(|o| o.map(|x| x.and_time(t)));
    if got != want {
        c.fail("NaiveDateTime field replacement differs from replacing the field of the date and keeping the time", &format!("{ndt:?} field={} v={v}", FIELDS[field]));
    }
    let off = gen_offset(c);
    if let Some(dt) = off.from_local_datetime(&ndt).single() {
        let got = guard(|| match field {
            0 => dt.with_month(v),
            1 => dt.with_month0(v),
            2 => dt.with_day(v),
            3 => dt.with_day0(v),
            4 => dt.with_ordinal(v),
            _ => dt.with_ordinal0(v),
        });
        c.op(&format!("dto.zw {} {} {v}", DFIELD[field], enc_z(&dt)), &show_oz(&got));
        zoned_oracle(c, "field replacement", &format!("{dt:?} field={} v={v}", FIELDS[field]), &dt, got, want);
    }
}

/// `DateTime<FixedOffset>::years_since` with each value at its own offset: correspondence, and the
/// whole-years oracle on the two wall clocks.  The wall clocks are NOT taken from chrono's own offset addition
/// (`naive_local`, part of the code under test, and a panic in the headroom day): (year, month, day, second of
/// day) come from `wall_ymd` (UTC day number in closed form + offset), the nanosecond field from the UTC
/// reading — so pairs with a wall clock in the day before MIN / after MAX are judged too (audit2 M2).
fn years_zoned(c: &mut Ctx, xa: &DateTime<FixedOffset>, xb: &DateTime<FixedOffset>) {
    let r = guard(|| xa.years_since(*xb));
    c.op(&format!("dto.zys {} {}", enc_z(xa), enc_z(xb)), &match r { Ok(o) => opt(o), Err(()) => "panic".into() });
    let key = |z: &DateTime<FixedOffset>| {
        let (y, m, d, s) = wall_ymd(z);
        (y, m, d, s, z.naive_utc().time().nanosecond() as i64)
    };
    let (ka, kb) = (key(xa), key(xb));
    let headroom = !in_range(ka.0) || !in_range(kb.0);
    let detail = format!("{} since {} (wall clocks {ka:?} / {kb:?})", enc_z(xa), enc_z(xb));
    // reference count: whole years between the two wall-clock readings
    let want: Option<i64> = {
        let dy = ka.0 - kb.0 - if (ka.1, ka.2, ka.3, ka.4) < (kb.1, kb.2, kb.3, kb.4) { 1 } else { 0 };
        if dy >= 0 { Some(dy) } else { None }
    };
    match r {
        Ok(Some(k)) => {
            let k = k as i64;
            if !((kb.0 + k, kb.1, kb.2, kb.3, kb.4) <= ka && ka < (kb.0 + k + 1, kb.1, kb.2, kb.3, kb.4)) {
                c.fail("DateTime<FixedOffset>::years_since: not the number of whole years elapsed between the wall clocks", &format!("{detail} -> {k}"));
            }
            if want != Some(k) {
                c.fail("DateTime<FixedOffset>::years_since: not the reference count of whole years", &format!("{detail} -> {k}, want {want:?}"));
            }
            if k > 524286 {
                c.fail("DateTime<FixedOffset>::years_since: count above the widest possible pair (524286)", &format!("{detail} -> {k}"));
            }
            c.count(if headroom { "years:fixed:headroom-wall-clock:some" } else { "years:fixed:some" });
        }
        Ok(None) => {
            if !(ka < kb) || want.is_some() {
                c.fail("DateTime<FixedOffset>::years_since: fails although base's wall clock is not after self's", &detail);
            }
            c.count(if headroom { "years:fixed:headroom-wall-clock:none" } else { "years:fixed:none" });
        }
        Err(()) => c.fail("DateTime<FixedOffset>::years_since: panicked", &detail),
    }
    // the independent wall clock against chrono's own, where chrono has one
    if let Ok(la) = guard(|| xa.naive_local()) {
        if (la.year() as i64, la.month() as i64, la.day() as i64, la.time().num_seconds_from_midnight() as i64, la.time().nanosecond() as i64) != ka {
            c.fail("DateTime<FixedOffset>::naive_local: not instant + offset read on the calendar", &detail);
        }
    }
}

/// one operation (`kind`: 0/1 add/sub months, 2 with_year, 3..=8 the six u32 date fields, 9..=12 the four
/// time fields) on a zone-aware value: correspondence always, oracle against the naive operation on the
/// wall clock when that is a NaiveDateTime (it is not when it falls in the day before MIN / after MAX)
fn zoned_case(c: &mut Ctx, z: &DateTime<FixedOffset>, kind: usize, arg: i64) {
    let local = guard(|| z.naive_local());
    let v = arg as u32;
    let (line, got, want): (String, Result<Option<DateTime<FixedOffset>>, ()>, Option<Result<Option<NaiveDateTime>, ()>>) = match kind {
        0 | 1 => {
            let sub = kind == 1;
            let got = guard(|| if sub { z.checked_sub_months(Months::new(v)) } else { z.checked_add_months(Months::new(v)) });
            let want = local.clone().ok().map(|l| guard(|| if sub { l.checked_sub_months(Months::new(v)) } else { l.checked_add_months(Months::new(v)) }));
            zoned_months_op(c, z, v, sub, &got);
            (format!("dto.zm {} {} {v}", DIR[sub as usize], enc_z(z)), got, want)
        }
        2 => {
            let y = arg as i32;
            let got = guard(|| z.with_year(y));
            let want = local.clone().ok().map(|l| guard(|| l.with_year(y)));
            (format!("dto.zw year {} {y}", enc_z(z)), got, want)
        }
        3..=8 => {
            let f = kind - 3;
            let got = guard(|| match f {
                0 => z.with_month(v),
                1 => z.with_month0(v),
                2 => z.with_day(v),
                3 => z.with_day0(v),
                4 => z.with_ordinal(v),
                _ => z.with_ordinal0(v),
            });
            let want = local.clone().ok().map(|l| guard(|| match f {
                0 => l.with_month(v),
                1 => l.with_month0(v),
                2 => l.with_day(v),
                3 => l.with_day0(v),
                4 => l.with_ordinal(v),
                _ => l.with_ordinal0(v),
            }));
            (format!("dto.zw {} {} {v}", DFIELD[f], enc_z(z)), got, want)
        }
        _ => {
            let f = (kind - 9).min(3);
            let got = guard(|| match f {
                0 => z.with_hour(v),
                1 => z.with_minute(v),
                2 => z.with_second(v),
                _ => z.with_nanosecond(v),
            });
            let want = local.clone().ok().map(|l| guard(|| match f {
                0 => l.with_hour(v),
                1 => l.with_minute(v),
                2 => l.with_second(v),
                _ => l.with_nanosecond(v),
            }));
            (format!("dto.zw {} {} {v}", TFIELD[f], enc_z(z)), got, want)
        }
    };
    c.op(&line, &show_oz(&got));
    if let Ok(Some(g)) = &got {
        if g.offset() != z.offset() {
            c.fail("zone-aware operation changed the offset", &line);
        }
        // map_local-based operations never return a value outside MIN_UTC..=MAX_UTC
        if kind >= 2 && !in_utc(&g.naive_utc()) {
            c.fail("zone-aware field replacement returned a value outside MIN_UTC..=MAX_UTC", &line);
        }
    }
    if kind >= 2 {
        zoned_field_ref_oracle(c, z, kind, arg, &got, &line);
    }
    match want {
        Some(w) => zoned_oracle(c, "operation at a range end / sub-minute offset", &line, z, got, w),
        None => c.count("zoned:headroom-wall-clock"),
    }
}
/// Independent judgement of a field replacement on a zone-aware value (kinds 2..=12 of `zoned_case`), also
/// when the wall clock lies in the day before MIN / after MAX: the wall clock is computed from the UTC
/// reading's day number and the offset, the field is replaced on it by reference arithmetic, and the result
/// must be exactly that wall clock at the same offset if it exists and its instant lies in MIN_UTC..=MAX_UTC,
/// nothing otherwise.
fn zoned_field_ref_oracle(c: &mut Ctx, z: &DateTime<FixedOffset>, kind: usize, arg: i64, got: &Result<Option<DateTime<FixedOffset>>, ()>, line: &str) {
    let (y, m, d, sod) = wall_ymd(z);
    let nano = z.naive_utc().time().nanosecond() as i64;
    let v = arg as u32 as i64;
    let one = v + ((kind == 4 || kind == 6 || kind == 8) as i64);
    let target: Option<(i64, i64, i64, i64, i64)> = match kind {
        2 => {
            if arg == y { Some((y, m, d, sod, nano)) } else if in_range(arg) && d <= month_len(arg, m) { Some((arg, m, d, sod, nano)) } else { None }
        }
        3 | 4 => if (1..=12).contains(&one) && d <= month_len(y, one) { Some((y, one, d, sod, nano)) } else { None },
        5 | 6 => if one >= 1 && one <= month_len(y, m) { Some((y, m, one, sod, nano)) } else { None },
        7 | 8 => {
            if one >= 1 && one <= 365 + is_leap(y) as i64 {
                let (mut mm, mut rest) = (1, one);
                while rest > month_len(y, mm) {
                    rest -= month_len(y, mm);
                    mm += 1;
                }
                Some((y, mm, rest, sod, nano))
            } else {
                None
            }
        }
        9 => if v < 24 { Some((y, m, d, v * 3600 + sod % 3600, nano)) } else { None },
        10 => if v < 60 { Some((y, m, d, sod / 3600 * 3600 + v * 60 + sod % 60, nano)) } else { None },
        11 => if v < 60 { Some((y, m, d, sod / 60 * 60 + v, nano)) } else { None },
        _ => if v < 2_000_000_000 { Some((y, m, d, sod, v)) } else { None },
    };
    // MIN_UTC ..= MAX_UTC on the instant of the new wall clock
    let want = target.filter(|w| {
        let inst = day_num(w.0, w.1, w.2) * 86400 + w.3 - z.offset().local_minus_utc() as i64;
        let last = max_dn() * 86400 + 86399;
        inst >= min_dn() * 86400 && (inst < last || (inst == last && w.4 < 1_000_000_000))
    });
    let headroom = { let n0 = day_num(y, m, d); n0 < min_dn() || n0 > max_dn() };
    match (got, want) {
        (Ok(Some(g)), Some(w)) => {
            let (gy, gm, gd, gsod) = wall_ymd(g);
            if (gy, gm, gd, gsod, g.naive_utc().time().nanosecond() as i64) != w || g.offset() != z.offset() {
                c.fail("zone-aware field replacement: the result's wall clock is not the wall clock with that field replaced and the others kept", &format!("{line} want {w:?}"));
            }
            c.count(if headroom { "zoned-ref:headroom-wall-clock:some" } else { "zoned-ref:some" });
        }
        (Ok(None), None) => c.count(if headroom { "zoned-ref:headroom-wall-clock:none" } else { "zoned-ref:none" }),
        (Ok(Some(g)), None) => c.fail("zone-aware field replacement: yields a value although no such wall clock exists or its instant is outside MIN_UTC..=MAX_UTC", &format!("{line} -> {g:?}")),
        (Ok(None), Some(w)) => c.fail("zone-aware field replacement: fails although the wall clock exists and its instant is in range", &format!("{line} want {w:?}")),
        (Err(()), _) => c.fail("zone-aware field replacement: panicked", line),
    }
}

/// a random operation on a zone-aware value that may sit at a range end; `time()`; `years_since`
fn zoned_ops(c: &mut Ctx) {
    let z = gen_zoned(c);
    let d = z.naive_utc().date();
    let kind = c.rng.below(13) as usize;
    let arg: i64 = match kind {
        0 | 1 => (match c.rng.below(3) { 0 => gen_months(c, &d), 1 => c.rng.below(14) as u32, _ => 0 }) as i64,
        2 => (match c.rng.below(3) { 0 => z.year(), _ => gen_target_year(c, &d) }) as i64,
        3..=8 => (match c.rng.below(3) {
            0 => gen_u32_field(c, &d),
            1 => [z.month(), z.month0(), z.day(), z.day0(), z.ordinal(), z.ordinal0()][kind - 3],
            _ => c.rng.below(33) as u32,
        }) as i64,
        _ => {
            let bound: u32 = [24, 60, 60, 2_000_000_000][kind - 9];
            (match c.rng.below(4) {
                0 => bound - 1,
                1 => bound,
                2 => *c.rng.pick(&[0u32, 1, 23, 59, 999_999_999, 1_000_000_000, 1_999_999_999, u32::MAX]),
                _ => c.rng.below(bound as u64 + 2) as u32,
            }) as i64
        }
    };
    zoned_case(c, &z, kind, arg);
    zoned_misc(c, &z);
    // time(): the time of day of the wall clock
    let tm = guard(|| z.time());
    c.op(&format!("dto.zt {}", enc_z(&z)), &match &tm { Ok(t) => enc_t(t), Err(()) => "panic".into() });
    if let (Ok(t), Ok(l)) = (&tm, guard(|| z.naive_local())) {
        if *t != l.time() {
            c.fail("DateTime::time is not the time of day of the wall clock", &format!("{z:?}"));
        }
    }
    let other = gen_zoned(c);
    years_zoned(c, &z, &other);
}

/// exhaustive: the four UTC readings nearest the range ends x boundary offsets x every operation with its
/// boundary arguments (wall clocks in the headroom day, results leaving MIN_UTC..=MAX_UTC, a leap-second
/// reading of the very last second)
fn zoned_edges(c: &mut Ctx) {
    let (lo, hi) = (DateTime::<Utc>::MIN_UTC.naive_utc(), DateTime::<Utc>::MAX_UTC.naive_utc());
    let day = TimeDelta::seconds(86400);
    let us = [lo, lo.checked_add_signed(day).unwrap(), lo.checked_add_signed(TimeDelta::seconds(3599)).unwrap(),
        hi.checked_sub_signed(day).unwrap(), hi.checked_sub_signed(TimeDelta::seconds(3599)).unwrap(), hi];
    let mut vals: Vec<DateTime<FixedOffset>> = vec![];
    for u in us.iter() {
        for off in [0i32, 1, -1, 17, -17, 3600, -3600, 86399, -86399] {
            vals.push(FixedOffset::east_opt(off).unwrap().from_utc_datetime(u));
        }
    }
    for z in vals.iter() {
        zoned_misc(c, z);
        for n in [0i64, 1, 12, 13, u32::MAX as i64] {
            zoned_case(c, z, 0, n);
            zoned_case(c, z, 1, n);
        }
        for y in [z.year() as i64, MIN_YEAR as i64 - 1, MIN_YEAR as i64, MIN_YEAR as i64 + 1, MAX_YEAR as i64 - 1, MAX_YEAR as i64, MAX_YEAR as i64 + 1, 2024] {
            zoned_case(c, z, 2, y);
        }
        for (k, vs) in [(3usize, vec![0i64, 1, 2, 11, 12, 13]), (4, vec![0, 1, 10, 11, 12]), (5, vec![0, 1, 2, 30, 31, 32]), (6, vec![0, 1, 29, 30, 31]),
            (7, vec![0, 1, 2, 364, 365, 366, 367]), (8, vec![0, 1, 363, 364, 365, 366]),
            (9, vec![0, 1, 22, 23, 24]), (10, vec![0, 59, 60]), (11, vec![0, 58, 59, 60]),
            (12, vec![0, 999_999_999, 1_000_000_000, 1_999_999_999, 2_000_000_000])] {
            for v in vs {
                zoned_case(c, z, k, v);
            }
            zoned_case(c, z, k, u32::MAX as i64);
        }
        for b in vals.iter().step_by(7) {
            years_zoned(c, z, b);
            years_zoned(c, b, z);
        }
    }
    // the last month steps into a leap-second reading of the very last second (no MIN_UTC..=MAX_UTC filter
    // in month stepping) and the replacements that refuse it
    let leap = NaiveTime::from_hms_nano_opt(23, 59, 59, 1_500_000_000).unwrap();
    for (m, d) in [(10u32, 31u32), (11, 30), (12, 30)] {
        let u = NaiveDate::from_ymd_opt(MAX_YEAR, m, d).unwrap().and_time(leap);
        for off in [0i32, -1, 1] {
            let z = FixedOffset::east_opt(off).unwrap().from_utc_datetime(&u);
            for n in [0i64, 1, 2] {
                zoned_case(c, &z, 0, n);
            }
            zoned_case(c, &z, 5, 31);
            zoned_case(c, &z, 7, 365);
            zoned_case(c, &z, 12, 999_999_999);
        }
    }
}

/// Field replacement and month stepping of zone-aware values in a zone whose offset changes (one
/// transition: a fold or a gap; `super::c14::StepZone`): the operation acts on the wall clock and the
/// result is the zone's own reading of the new wall clock — the offset is looked up again, a wall
/// clock in the gap or in the fold has no single reading.
fn run_step_zone(c: &mut Ctx) {
    use super::c14::gen_step_zone;
    use chrono::LocalResult;
    let n = c.n(6000, 80000);
    for i in 0..n {
        let (zone, kind) = gen_step_zone(c);
        let u = match c.rng.below(4) {
            0 => zone.t.saturating_add(c.rng.range(-200_000, 200_000)),
            1 => zone.t.saturating_add(c.rng.range(-40_000_000, 40_000_000)),
            2 => zone.t.saturating_add(c.rng.range(-7300, 7300)),
            _ => c.rng.range(-60_000_000_000, 200_000_000_000),
        };
        let Ok(LocalResult::Single(dt)) = guard(|| zone.timestamp_opt(u, c.rng.nanos())) else { continue };
        let Ok(local) = guard(|| dt.naive_local()) else { continue };
        // the replacement value: mostly a field of an instant near the transition, so that results land
        // before it, after it, in the gap and in the fold
        let probe = chrono::DateTime::from_timestamp(zone.t.saturating_add(c.rng.range(-90_000, 90_000)), 0).map(|x| x.naive_utc()).unwrap_or(local);
        let op = c.rng.below(13);
        let v: u32 = match op {
            0 => 0,
            1 | 2 => if c.rng.chance(2, 3) { probe.month() } else { c.rng.below(14) as u32 },
            3 | 4 => if c.rng.chance(2, 3) { probe.day() } else { c.rng.below(33) as u32 },
            5 | 6 => if c.rng.chance(2, 3) { probe.ordinal() } else { c.rng.below(368) as u32 },
            7 => if c.rng.chance(2, 3) { (probe.hour() + c.rng.below(3) as u32) % 24 } else { c.rng.below(26) as u32 },
            8 => c.rng.below(62) as u32,
            9 => c.rng.below(62) as u32,
            10 => c.rng.nanos(),
            _ => c.rng.below(30) as u32,
        };
        let year = if c.rng.chance(2, 3) { probe.year() } else { local.year() + c.rng.range(-2, 2) as i32 };
        let months = Months::new(v);
        let (name, got, want): (&str, Result<Option<chrono::DateTime<super::c14::StepZone>>, ()>, Result<Option<NaiveDateTime>, ()>) = match op {
            0 => ("with_year", guard(|| dt.with_year(year)), guard(|| local.with_year(year))),
            1 => ("with_month", guard(|| dt.with_month(v)), guard(|| local.with_month(v))),
            2 => ("with_month0", guard(|| dt.with_month0(v)), guard(|| local.with_month0(v))),
            3 => ("with_day", guard(|| dt.with_day(v)), guard(|| local.with_day(v))),
            4 => ("with_day0", guard(|| dt.with_day0(v)), guard(|| local.with_day0(v))),
            5 => ("with_ordinal", guard(|| dt.with_ordinal(v)), guard(|| local.with_ordinal(v))),
            6 => ("with_ordinal0", guard(|| dt.with_ordinal0(v)), guard(|| local.with_ordinal0(v))),
            7 => ("with_hour", guard(|| dt.with_hour(v)), guard(|| local.with_hour(v))),
            8 => ("with_minute", guard(|| dt.with_minute(v)), guard(|| local.with_minute(v))),
            9 => ("with_second", guard(|| dt.with_second(v)), guard(|| local.with_second(v))),
            10 => ("with_nanosecond", guard(|| dt.with_nanosecond(v)), guard(|| local.with_nanosecond(v))),
            11 => ("checked_add_months", guard(|| dt.checked_add_months(months)), guard(|| local.checked_add_months(months))),
            _ => ("checked_sub_months", guard(|| dt.checked_sub_months(months)), guard(|| local.checked_sub_months(months))),
        };
        let detail = format!("zone [{} -> {} at {}] ({kind}) value {:?} {name} {}", zone.o1, zone.o2, zone.t, dt, if op == 0 { year as i64 } else { v as i64 });
        let (Ok(got), Ok(want)) = (got, want) else {
            c.fail("zone with a transition: field replacement / month stepping panicked", &detail);
            continue;
        };
        // the zone's own reading of the new wall clock
        let reading = match want {
            None => None,
            Some(l) => match guard(|| zone.from_local_datetime(&l)) {
                Ok(LocalResult::Single(x)) => Some(x),
                _ => None,
            },
        };
        c.count(&format!("stepzone:{kind}:{}", match (&got, &reading) { (Some(_), _) => "some", (None, None) => "none", (None, Some(_)) => "none-but-reading" }));
        match (got, reading) {
            (Some(g), Some(r)) => {
                if g != r || g.offset().fix() != r.offset().fix() || g.naive_local() != r.naive_local() {
                    c.fail(
                        "zone with a transition: the result is not the zone's reading of the new wall clock (instant or offset differ)",
                        &format!("{detail} -> {:?} (offset {}), the zone reads {:?} (offset {})", g, g.offset().fix(), r, r.offset().fix()),
                    );
                }
            }
            (None, None) => {}
            (Some(g), None) => c.fail("zone with a transition: a value is returned although the new wall clock has no single reading in the zone", &format!("{detail} -> {:?}", g)),
            (None, Some(r)) => {
                // refused although the wall clock has a reading: only at the ends of the instant range
                if r >= chrono::DateTime::<Utc>::MIN_UTC && r <= chrono::DateTime::<Utc>::MAX_UTC {
                    c.fail("zone with a transition: refused although the new wall clock has a single reading in range", &format!("{detail}; the zone reads {:?}", r));
                }
            }
        }
        if i < 2 {
            c.sample(&format!("step zone: {detail}"));
        }
    }
}

pub fn run(c: &mut Ctx) {
    crate::aliases::c08(c);
    run_step_zone(c);
    // ---- block plan (digests over every date of a block of years) -------------------------------------
    let month_counts: Vec<u32> = vec![0, 1, 11, 12, 13, 1199, 4800, 3_121_700, i32::MAX as u32, i32::MAX as u32 + 1, u32::MAX];
    let field_values: Vec<u32> = vec![0, 1, 2, 3, 11, 12, 13, 28, 29, 30, 31, 32, 59, 60, 61, 365, 366, 367, 257, 512, 65537, 65536 + 366, (1 << 31) - 1, 1 << 31, u32::MAX - 1, u32::MAX];
    let abs_years: Vec<i32> = vec![MIN_YEAR - 1, MIN_YEAR, MAX_YEAR, MAX_YEAR + 1, i32::MIN, i32::MAX, 0, 1900, 2000, 2023, 2024];
    let rel_years: Vec<i32> = vec![-4, -1, 0, 1, 3, 4, 100, 400];
    enum B {
        M(i32, i32),
        W(i32, i32),
        Y(i32, i32),
        K(i32, i32),
    }
    let mut blocks: Vec<B> = vec![];
    let ends = [(MIN_YEAR, MIN_YEAR + 2), (MAX_YEAR - 2, MAX_YEAR), (-2, 2)];
    let (cyc0, cyc1) = if c.tier == Tier::Quick { (1800, 2199) } else { (1600, 2399) };
    let mut y = cyc0;
    while y <= cyc1 {
        blocks.push(B::M(y, y + 19));
        blocks.push(B::K(y, y + 19));
        y += 20;
    }
    let windows: Vec<(i32, i32)> = if c.tier == Tier::Quick {
        vec![(1896, 1905), (1996, 2005), (2096, 2104)]
    } else {
        let mut v = vec![];
        let mut y = 1800;
        while y < 2200 {
            v.push((y, y + 9));
            y += 10;
        }
        v
    };
    for (a, b) in windows.iter().chain(ends.iter()) {
        blocks.push(B::W(*a, *b));
        blocks.push(B::Y(*a, *b));
    }
    for (a, b) in ends.iter() {
        blocks.push(B::M(*a, *b));
        blocks.push(B::K(*a, *b));
    }
    // ---- exhaustive: zone-aware values at the range ends x boundary offsets x every operation ----------
    zoned_edges(c);
    // ---- exhaustive: all 7 first weekdays x the 14 days nearest each range end -------------------------
    for i in 0..14 {
        let lo = NaiveDate::MIN.checked_add_days(chrono::Days::new(i)).unwrap();
        let hi = NaiveDate::MAX.checked_sub_days(chrono::Days::new(i)).unwrap();
        for s in 0..7 {
            week_single(c, &lo, s);
            week_single(c, &hi, s);
        }
    }
    // ---- exhaustive: Month::num_days on boundary years; n-th weekday on a year sample --------------------
    for m0 in 0..12u32 {
        for y in [MIN_YEAR - 1, MIN_YEAR, MAX_YEAR, MAX_YEAR + 1, i32::MIN, i32::MAX, 0, 1, -1, 4, 100, 400, 1900, 2000, 2023, 2024, 2100] {
            month_num_days(c, m0, y);
        }
    }
    let nth_years: Vec<i32> = if c.tier == Tier::Quick {
        (2000..2029).chain([MIN_YEAR - 1, MIN_YEAR, MAX_YEAR, MAX_YEAR + 1, 1900, 0]).collect()
    } else {
        (1800..2200).chain([MIN_YEAR - 1, MIN_YEAR, MAX_YEAR, MAX_YEAR + 1, 0, i32::MIN, i32::MAX]).collect()
    };
    for y in &nth_years {
        for m in 0..=13u32 {
            for wd in 0..7 {
                for n in 0..=6u8 {
                    nth_single(c, *y, m, wd, n);
                }
            }
        }
    }
    // ---- sampled single operations, with the blocks spread between them ---------------------------------
    let n_singles = c.n(30000, 400000);
    let every = (n_singles / blocks.len().max(1)).max(1);
    let mut next_block = 0usize;
    let mut prev = NaiveDate::MIN;
    for i in 0..n_singles {
        if i % every == 0 && next_block < blocks.len() {
            match blocks[next_block] {
                B::M(a, b) => block_months(c, a, b, &month_counts),
                B::W(a, b) => block_with(c, a, b, &field_values),
                B::Y(a, b) => block_with_year(c, a, b, &abs_years, &rel_years),
                B::K(a, b) => block_week(c, a, b),
            }
            next_block += 1;
        }
        let d = match i {
            0 => NaiveDate::MIN,
            1 => NaiveDate::MAX,
            _ => gen_date8(c),
        };
        // months
        let n = gen_months(c, &d);
        months_single(c, &d, n);
        // the six u32 field replacements
        let field = c.rng.below(6) as usize;
        let v = gen_u32_field(c, &d);
        let r = with_eval(c, &d, field, v);
        c.op(&format!("do.{} {} {v}", FIELDS[field], yof(&d)), &show_r(&r));
        with_delegations(c, &d, field, v, &r);
        if v == u32::MAX {
            c.count("with:arg=u32::MAX");
        }
        // year replacement
        let y2 = gen_target_year(c, &d);
        let r = with_year_eval(c, &d, y2);
        c.op(&format!("do.wy {} {y2}", yof(&d)), &show_r(&r));
        {
            let t = gen_time(c);
            let ndt = d.and_time(t);
            let want = r.clone().map(|o| o.map(|x| x.and_time(t)));
            let gotn = guard(|| ndt.with_year(y2));
            c.op(&format!("dto.nw year {} {y2}", enc_n(&ndt)), &show_on(&gotn));
            if gotn != want {
                c.fail("NaiveDateTime::with_year differs from replacing the year of the date and keeping the time", &format!("{ndt:?} y={y2}"));
            }
            let off = gen_offset(c);
            if let Some(dt) = off.from_local_datetime(&ndt).single() {
                let got = guard(|| dt.with_year(y2));
                c.op(&format!("dto.zw year {} {y2}", enc_z(&dt)), &show_oz(&got));
                zoned_oracle(c, "with_year", &format!("{dt:?} y={y2}"), &dt, got, want);
            }
        }
        // week
        let s = c.rng.below(7) as usize;
        week_single(c, &d, s);
        // misc accessors
        misc_single(c, &d);
        // whole years elapsed: against the previous date, a near anniversary, itself
        let other = match c.rng.below(4) {
            0 => prev,
            1 => d,
            _ => {
                let yy = (d.year() as i64 + c.rng.range(-5, 5)).clamp(MIN_YEAR as i64, MAX_YEAR as i64) as i32;
                let dd = (d.day() as i64 + c.rng.range(-1, 1)).clamp(1, 31) as u32;
                let mm = (d.month() as i64 + if c.rng.chance(1, 4) { c.rng.range(-1, 1) } else { 0 }).clamp(1, 12) as u32;
                NaiveDate::from_ymd_opt(yy, mm, dd).unwrap_or(prev)
            }
        };
        years_single(c, &d, &other);
        years_single(c, &other, &d);
        // n-th weekday with the full u8 / u32 / i32 argument ranges
        {
            let y = gen_target_year(c, &d);
            let m = match c.rng.below(5) { 0 => gen_u32_field(c, &d), _ => c.rng.range(1, 12) as u32 };
            let n = match c.rng.below(4) { 0 => *c.rng.pick(&[0u8, 1, 4, 5, 6, 7, 36, 37, 255, 254, 128]), _ => c.rng.range(1, 5) as u8 };
            let wd = c.rng.below(7) as usize;
            nth_single(c, y, m, wd, n);
        }
        // Month::num_days
        if i % 4 == 0 {
            let y = gen_target_year(c, &d);
            let m0 = c.rng.below(12) as u32;
            month_num_days(c, m0, y);
        }
        time_fields(c);
        zoned_ops(c);
        if i < 3 {
            c.sample(&format!("do.addm {} {n} = {}", yof(&d), show_r(&guard(|| d.checked_add_months(Months::new(n))))));
        }
        prev = d;
    }
    while next_block < blocks.len() {
        match blocks[next_block] {
            B::M(a, b) => block_months(c, a, b, &month_counts),
            B::W(a, b) => block_with(c, a, b, &field_values),
            B::Y(a, b) => block_with_year(c, a, b, &abs_years, &rel_years),
            B::K(a, b) => block_week(c, a, b),
        }
        next_block += 1;
    }
}
