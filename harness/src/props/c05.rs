//! C05 — local time follows the zone data: offsets, gaps and folds.
//!
//! Implementation side of the correspondence (ops `tzl.at`, `tzl.loc`, `tzl.cache` incl. the
//! `earliest()` / `latest()` of `Local.from_local_datetime`; hypothesis evaluators `tzl.sep`,
//! `tzl.yearly`; the brute-force wall sets `tzl.wall`) and the direct oracles on the implementation,
//! which share no code with the model:
//!   O1  offset_at(t) is what the zone data prescribe (table: last transition <= t / first type;
//!       rule: an independent evaluation with Hinnant's civil-day algorithm)
//!   O1s offset_at(t) under a footer / POSIX rule is what the rule's transition SEQUENCE prescribes: the
//!       latest start or end instant of ANY year at or before t decides (`Spec.Zone.ruleDstSeq`), not
//!       the two transitions of t's calendar year; where the start/end order flips between the years
//!       around t the code (per-year decision) differs: failures carry F30's prefix there, none elsewhere
//!   O2  round trip: offsets_for_local(t + offset_at(t)) contains offset_at(t)
//!   O3  0/1/2 candidates = brute-force wall set computed from offset_at over the zone's offsets,
//!       candidates distinct and ordered earliest instant first
//! O2/O3 skip the one excepted boundary second per transition (T + prevOff) and rules whose
//! transitions are not more than a day inside the calendar year (outside the property's quantifier).
//! Every other reading is judged, in one of three classes (`judge_wall`):
//!   * zone `WellSeparated ∧ JoinSeparated`, rule regular in the years around the reading
//!     (`Spec.Zone.RuleYearly` at y-1, y, y+1): the domain of the composed theorem; plain messages;
//!   * zone NOT separated (wall-clock windows of consecutive transitions, or of the last transition
//!     and the footer rule, overlap): the property is FALSE there in model and code
//!     (`Props.C05.not_separated_counterexample`); failures carry the prefix
//!     `zone with overlapping wall-clock windows: `;
//!   * rule inside the quantifier but not regular (start/end order flips between years, the two
//!     transitions closer than twice the offset jump, a wall-clock image of a transition outside the
//!     year): failures carry the prefix `rule outside the yearly-regular class: `.
use crate::ctx::*;
use chrono::__verif_tz as vt;
use chrono::{DateTime, Local, MappedLocalTime, NaiveDateTime, TimeZone};
use std::collections::BTreeSet;

// ------------------------------------------------------------------------------------------------
// parsed form of the hook's dump

#[derive(Clone, Debug, PartialEq)]
struct Ltt {
    off: i64,
    dst: bool,
    name: String,
}
#[derive(Clone, Copy, Debug, PartialEq)]
enum Day {
    J1(i64),
    J0(i64),
    Mwd(i64, i64, i64),
}
#[derive(Clone, Debug)]
struct Alt {
    std: Ltt,
    dst: Ltt,
    start: Day,
    start_time: i64,
    end: Day,
    end_time: i64,
}
#[derive(Clone, Debug)]
enum Rule {
    None,
    Fixed(Ltt),
    Alt(Alt),
}
#[derive(Clone, Debug)]
struct Pz {
    types: Vec<Ltt>,
    trans: Vec<(i64, usize)>,
    leaps: usize,
    rule: Rule,
}

fn p_ltt(s: &str) -> Ltt {
    let v: Vec<&str> = s.split(',').collect();
    Ltt { off: v[0].parse().unwrap(), dst: v[1] == "1", name: v[2].to_string() }
}
fn p_day(s: &str) -> (Day, i64) {
    let (d, t) = s.split_once('/').unwrap();
    let t: i64 = t.parse().unwrap();
    let day = if let Some(r) = d.strip_prefix('J') {
        Day::J1(r.parse().unwrap())
    } else if let Some(r) = d.strip_prefix('M') {
        let v: Vec<i64> = r.split('.').map(|x| x.parse().unwrap()).collect();
        Day::Mwd(v[0], v[1], v[2])
    } else {
        Day::J0(d.parse().unwrap())
    };
    (day, t)
}
fn parse_dump(d: &str) -> Pz {
    let tok: Vec<&str> = d.split(' ').collect();
    assert_eq!(tok.len(), 4, "dump shape: {d}");
    let inner = |t: &str, pre: &str| t[pre.len()..t.len() - 1].to_string();
    let ty = inner(tok[0], "types=[");
    let tr = inner(tok[1], "trans=[");
    let lp = inner(tok[2], "leaps=[");
    let types = ty.split(';').filter(|s| !s.is_empty()).map(p_ltt).collect();
    let trans = tr
        .split(',')
        .filter(|s| !s.is_empty())
        .map(|s| {
            let (a, b) = s.split_once(':').unwrap();
            (a.parse().unwrap(), b.parse().unwrap())
        })
        .collect();
    let leaps = lp.split(',').filter(|s| !s.is_empty()).count();
    let r = &tok[3]["rule=".len()..];
    let rule = if r == "none" {
        Rule::None
    } else if let Some(x) = r.strip_prefix("fixed(") {
        Rule::Fixed(p_ltt(&x[..x.len() - 1]))
    } else {
        let x = &r["alt(".len()..r.len() - 1];
        let parts: Vec<&str> = x.split("),").collect();
        let std = p_ltt(&parts[0]["std=(".len()..]);
        let dst = p_ltt(&parts[1]["dst=(".len()..]);
        let (s, e) = parts[2].split_once(',').unwrap();
        let (start, start_time) = p_day(&s["start=".len()..]);
        let (end, end_time) = p_day(&e["end=".len()..]);
        Rule::Alt(Alt { std, dst, start, start_time, end, end_time })
    };
    Pz { types, trans, leaps, rule }
}

// ------------------------------------------------------------------------------------------------
// independent calendar (H. Hinnant, "chrono-compatible low-level date algorithms"), i128 arithmetic

fn days_from_civil(y: i64, m: i64, d: i64) -> i64 {
    let y = (if m <= 2 { y - 1 } else { y }) as i128;
    let era = y.div_euclid(400);
    let yoe = y - era * 400;
    let mp = ((m + 9) % 12) as i128;
    let doy = (153 * mp + 2) / 5 + d as i128 - 1;
    let doe = yoe * 365 + yoe / 4 - yoe / 100 + doy;
    (era * 146097 + doe - 719468) as i64
}
fn year_of_day(z: i64) -> i64 {
    let z = z as i128 + 719468;
    let era = z.div_euclid(146097);
    let doe = z - era * 146097;
    let yoe = (doe - doe / 1460 + doe / 36524 - doe / 146096) / 365;
    let y = yoe + era * 400;
    let doy = doe - (365 * yoe + yoe / 4 - yoe / 100);
    let mp = (5 * doy + 2) / 153;
    let m = if mp < 10 { mp + 3 } else { mp - 9 };
    (if m <= 2 { y + 1 } else { y }) as i64
}
fn is_leap(y: i64) -> bool {
    y.rem_euclid(4) == 0 && (y.rem_euclid(100) != 0 || y.rem_euclid(400) == 0)
}
fn month_len(y: i64, m: i64) -> i64 {
    match m {
        2 => 28 + is_leap(y) as i64,
        4 | 6 | 9 | 11 => 30,
        _ => 31,
    }
}
/// day number of a POSIX rule day in year y
fn rule_day(d: Day, y: i64) -> i64 {
    let jan1 = days_from_civil(y, 1, 1);
    match d {
        Day::J1(n) => jan1 + n - 1 + (is_leap(y) && n >= 60) as i64,
        Day::J0(n) => jan1 + n,
        Day::Mwd(m, w, wd) => {
            let first = days_from_civil(y, m, 1);
            let ml = month_len(y, m);
            // enumerate the days of the month that fall on weekday wd (0 = Sunday)
            let hits: Vec<i64> = (0..ml).map(|k| first + k).filter(|x| (x + 4).rem_euclid(7) == wd).collect();
            if w >= 5 {
                *hits.last().unwrap()
            } else {
                hits[(w - 1) as usize]
            }
        }
    }
}
fn start_at(a: &Alt, y: i64) -> i64 {
    rule_day(a.start, y) * 86400 + a.start_time - a.std.off
}
fn end_at(a: &Alt, y: i64) -> i64 {
    rule_day(a.end, y) * 86400 + a.end_time - a.dst.off
}
/// more than one day inside the calendar year, in UT and on both wall clocks
fn inside_year(a: &Alt, y: i64) -> bool {
    let lo = days_from_civil(y, 1, 1) * 86400 + 86400;
    let hi = days_from_civil(y + 1, 1, 1) * 86400 - 86400;
    [start_at(a, y), end_at(a, y)].iter().all(|&x| {
        [0, a.std.off, a.dst.off].iter().all(|&o| lo < x + o && x + o < hi)
    })
}
/// is DST in force at t under the rule: the rule of the calendar year containing t decides
/// (`Spec.Zone.ruleDstIn`): on [start, end) when the start precedes the end in that year, outside
/// [end, start) otherwise
fn rule_is_dst(a: &Alt, t: i64) -> bool {
    let y = year_of_day(t.div_euclid(86400));
    let (s, e) = (start_at(a, y), end_at(a, y));
    if s <= e {
        s <= t && t < e
    } else {
        !(e <= t && t < s)
    }
}
const YEAR_LIM: i64 = 2_000_000_000; // rule evaluation only for years well inside i32

/// `Spec.Zone.InsideYear` at year y: both rule transitions (UT) more than one day inside the year —
/// the restriction the property's quantifier puts on rules
fn inside_year_ut(a: &Alt, y: i64) -> bool {
    let lo = days_from_civil(y, 1, 1) * 86400 + 86400;
    let hi = days_from_civil(y + 1, 1, 1) * 86400 - 86400;
    [start_at(a, y), end_at(a, y)].iter().all(|&x| lo < x && x < hi)
}
fn in_year(y: i64, x: i64) -> bool {
    days_from_civil(y, 1, 1) * 86400 < x && x < days_from_civil(y + 1, 1, 1) * 86400
}
/// `Spec.Zone.RuleSeparated` on the wall-clock start S / end E of daylight time
fn rule_separated(a: &Alt, s: i64, e: i64) -> bool {
    let d = a.dst.off - a.std.off;
    let gap = if s < e { e - s } else { s - e };
    2 * d < gap && -2 * d < gap
}
/// `Spec.Zone.RuleYearly` at year y: each transition and its two wall-clock images inside the year,
/// the same start/end order next year, the two transitions of the year `RuleSeparated`
fn rule_yearly_at(a: &Alt, y: i64) -> bool {
    let (s, e) = (start_at(a, y), end_at(a, y));
    [s, s + a.std.off, s + a.dst.off, e, e + a.std.off, e + a.dst.off].iter().all(|&x| in_year(y, x))
        && ((s <= e) == (start_at(a, y + 1) <= end_at(a, y + 1)))
        && rule_separated(a, s + a.std.off, e + a.dst.off)
}

pub const PFX_ZONE: &str = "zone with overlapping wall-clock windows: ";
pub const PFX_RULE: &str = "rule outside the yearly-regular class: ";

/// how O2/O3 judge a wall-clock reading
enum Judge {
    /// outside the property (excepted second, rule outside the quantifier, year out of range)
    Skip(&'static str),
    /// judged by the brute-force wall set; `Some(prefix)` = a class in which the property is known to fail
    Check(Option<&'static str>),
}

// ------------------------------------------------------------------------------------------------
// zone under test

struct Zc {
    class: &'static str,
    label: String,
    zone: vt::Zone,
    dump: String,
    pz: Pz,
    sep: bool,
}

fn prev_off(pz: &Pz, i: usize) -> i64 {
    if i == 0 {
        pz.types[0].off
    } else {
        pz.types[pz.trans[i - 1].1].off
    }
}

/// `Spec.Zone.zoneSeparatedB` = `WellSeparated` (the wall-clock windows of consecutive transitions are
/// disjoint and in order) and `JoinSeparated` (last table transition vs footer rule)
fn well_separated(pz: &Pz) -> bool {
    let mut hi_prev: Option<i64> = None;
    for (i, &(t, idx)) in pz.trans.iter().enumerate() {
        let (p, a) = (prev_off(pz, i), pz.types[idx].off);
        let (lo, hi) = (t.saturating_add(p.min(a)), t.saturating_add(p.max(a)));
        if let Some(h) = hi_prev {
            if !(h < lo) {
                return false;
            }
        }
        hi_prev = Some(hi);
    }
    // `Spec.Zone.joinSeparatedB`: separation between the last table transition and the footer rule
    if let Some(&(t, idx)) = pz.trans.last() {
        let n = pz.trans.len();
        let (p, af) = (prev_off(pz, n - 1), pz.types[idx].off);
        let hi = t.saturating_add(p.max(af));
        match &pz.rule {
            Rule::None => {}
            Rule::Fixed(l) => {
                if l.off != af {
                    return false;
                }
            }
            Rule::Alt(a) => {
                let y0 = year_of_day(t.div_euclid(86400));
                if y0.abs() > YEAR_LIM {
                    return false;
                }
                // the rule prescribes at T the offset the table switches to (what `TimeZone::new` validates)
                let at_t = if rule_is_dst(a, t) { a.dst.off } else { a.std.off };
                if at_t != af {
                    return false;
                }
                let (omin, omax) = (a.std.off.min(a.dst.off), a.std.off.max(a.dst.off));
                for y in y0 - 1..=y0 + 1 {
                    for x in [start_at(a, y), end_at(a, y)] {
                        let ok = (x <= t && x + omax <= hi) || (t < x && hi < x + omin);
                        if !ok {
                            return false;
                        }
                    }
                }
            }
        }
    }
    true
}

/// zones on which the harness's evaluation of the separation hypotheses can be compared with the
/// model's (`tzl.sep`): no saturation, years well inside the range of the rule arithmetic
fn sep_comparable(pz: &Pz) -> bool {
    pz.trans.iter().all(|&(t, _)| t > -(1i64 << 55) && t < (1i64 << 55))
}

fn mk(class: &'static str, label: String, zone: vt::Zone) -> Zc {
    let dump = zone.dump();
    let pz = parse_dump(&dump);
    let sep = well_separated(&pz);
    Zc { class, label, zone, dump, pz, sep }
}

fn all_offsets(pz: &Pz) -> Vec<i64> {
    let mut s: BTreeSet<i64> = pz.types.iter().map(|t| t.off).collect();
    match &pz.rule {
        Rule::Fixed(l) => {
            s.insert(l.off);
        }
        Rule::Alt(a) => {
            s.insert(a.std.off);
            s.insert(a.dst.off);
        }
        Rule::None => {}
    }
    s.into_iter().collect()
}

fn naive(l: i64) -> Option<NaiveDateTime> {
    DateTime::from_timestamp(l, 0).map(|d| d.naive_utc())
}

fn show_at(r: &Result<(i32, bool), String>) -> String {
    match r {
        Ok((o, d)) => format!("o{}:{}", o, b01(*d)),
        Err(_) => "err".into(),
    }
}
fn show_loc(r: &Result<MappedLocalTime<i32>, String>) -> String {
    match r {
        Ok(MappedLocalTime::None) => "n".into(),
        Ok(MappedLocalTime::Single(o)) => format!("s{o}"),
        Ok(MappedLocalTime::Ambiguous(a, b)) => format!("a{a}/{b}"),
        Err(_) => "err".into(),
    }
}

/// what the zone data prescribe for instant t (None = outside what the oracle evaluates)
fn spec_at(pz: &Pz, t: i64) -> Option<(i64, bool)> {
    let ty = |i: usize| (pz.types[i].off, pz.types[i].dst);
    let after_last = match pz.trans.last() {
        None => true,
        Some(&(lt, _)) => t >= lt,
    };
    let table = || {
        let k = pz.trans.partition_point(|&(x, _)| x <= t);
        if k == 0 {
            ty(0)
        } else {
            ty(pz.trans[k - 1].1)
        }
    };
    if !after_last {
        return Some(table());
    }
    match &pz.rule {
        Rule::None => Some(table()),
        Rule::Fixed(l) => Some((l.off, l.dst)),
        Rule::Alt(a) => {
            let y = year_of_day(t.div_euclid(86400));
            if y.abs() > YEAR_LIM || !(y - 1..=y + 1).all(|k| inside_year(a, k)) {
                return None;
            }
            let l = if rule_is_dst(a, t) { &a.dst } else { &a.std };
            Some((l.off, l.dst))
        }
    }
}

/// O1s — the rule as the SEQUENCE of its transitions (`Spec.Zone.ruleDstSeq`), not decided year by year:
/// the start and end instants of the years y-2 ..= y+1 (y = calendar year of t) are put in one list, sorted by
/// instant (an end coinciding with a start sorts after it), and the LATEST one at or before t decides:
/// daylight time iff it is a start.  `None` = not evaluated (before the last table transition, no
/// alternate-time rule, year outside the rule arithmetic, or a transition of y-2 ..= y+1 within a day of its
/// year boundary: outside the property's quantifier — with those four years inside, no transition of any
/// other year can be the latest one at or before t).  The third component says whether the start/end order
/// differs between two of those years (`¬ OrderStable`): there the per-year decision of the code (and of
/// glibc) manufactures a change of offset at the year boundary (`Props.C05.order_flip_phantom`, finding F30).
fn seq_at(pz: &Pz, t: i64) -> Option<(i64, bool, bool)> {
    let after_last = match pz.trans.last() {
        None => true,
        Some(&(lt, _)) => t >= lt,
    };
    let Rule::Alt(a) = &pz.rule else { return None };
    if !after_last {
        return None;
    }
    let y = year_of_day(t.div_euclid(86400));
    if y.abs() > YEAR_LIM || !(y - 2..=y + 1).all(|k| inside_year_ut(a, k)) {
        return None;
    }
    // (instant, is_end): sorted ascending, so of two transitions at the same instant the end comes last
    let mut seq: Vec<(i64, bool)> = vec![];
    for k in y - 2..=y + 1 {
        seq.push((start_at(a, k), false));
        seq.push((end_at(a, k), true));
    }
    seq.sort();
    let mut latest: Option<bool> = None; // is_end of the latest transition at or before t
    for &(x, is_end) in &seq {
        if x <= t {
            latest = Some(is_end);
        } else {
            break;
        }
    }
    let dst = latest == Some(false);
    let north = |k: i64| start_at(a, k) <= end_at(a, k);
    let flips = (y - 2..=y).any(|k| north(k) != north(k + 1));
    let l = if dst { &a.dst } else { &a.std };
    Some((l.off, l.dst, flips))
}

/// classify a wall-clock reading for O2/O3.  Excepted by the property: T + prevOff for table
/// transitions that change the offset, the rule's own start/end wall-clock second in the neighbouring
/// years when the rule changes the offset.
fn judge_wall(pz: &Pz, sep: bool, offs: &[i64], l: i64) -> Judge {
    // (`NoBoundary'`: only transitions that change the offset end a skipped or repeated interval)
    for (i, &(t, idx)) in pz.trans.iter().enumerate() {
        if prev_off(pz, i) != pz.types[idx].off && t.saturating_add(prev_off(pz, i)) == l {
            return Judge::Skip("excepted boundary second");
        }
    }
    let mut class = if sep { None } else { Some(PFX_ZONE) };
    if let Rule::Alt(a) = &pz.rule {
        // the rule plays a part only if some candidate instant l - o lies at or after the last transition
        let relevant = match (pz.trans.last(), offs.first()) {
            (Some(&(t, _)), Some(&omin)) => l >= t.saturating_add(omin),
            _ => true,
        };
        if relevant {
            let y = year_of_day(l.div_euclid(86400));
            if y.abs() > YEAR_LIM {
                return Judge::Skip("year out of the range of the rule arithmetic");
            }
            for k in y - 1..=y + 1 {
                if !inside_year_ut(a, k) {
                    return Judge::Skip("rule transition within a day of the year boundary (outside the quantifier)");
                }
                if a.std.off != a.dst.off && (start_at(a, k) + a.std.off == l || end_at(a, k) + a.dst.off == l) {
                    return Judge::Skip("excepted boundary second");
                }
            }
            if class.is_none() && !(y - 1..=y + 1).all(|k| rule_yearly_at(a, k)) {
                class = Some(PFX_RULE);
            }
        }
    }
    Judge::Check(class)
}

/// month of a rule day in year y, as the code compares them
fn month_of(d: Day, y: i64) -> i64 {
    let dn = rule_day(d, y);
    let jan1 = days_from_civil(y, 1, 1);
    let mut m = 1;
    while m < 12 && days_from_civil(y, m + 1, 1) <= dn.max(jan1) {
        m += 1;
    }
    m
}
fn same_month(pz: &Pz, x: i64) -> bool {
    match &pz.rule {
        Rule::Alt(a) => {
            let y = year_of_day(x.div_euclid(86400));
            y.abs() <= YEAR_LIM && month_of(a.start, y) == month_of(a.end, y)
        }
        _ => false,
    }
}
fn rule_branch(a: &Alt, y: i64) -> &'static str {
    // the hemisphere test of the code: local start time before local end time within the year
    let north = rule_day(a.start, y) * 86400 + a.start_time < rule_day(a.end, y) * 86400 + a.end_time;
    match (a.std.off.cmp(&a.dst.off), north) {
        (std::cmp::Ordering::Equal, _) => "equal",
        (std::cmp::Ordering::Less, true) => "north.regular",
        (std::cmp::Ordering::Less, false) => "south.regular",
        (std::cmp::Ordering::Greater, true) => "south.reverse",
        (std::cmp::Ordering::Greater, false) => "north.reverse",
    }
}

// ------------------------------------------------------------------------------------------------
// query sets

fn push_pm(v: &mut Vec<i64>, x: i64) {
    for d in -2i64..=2 {
        v.push(x.saturating_add(d));
    }
}

fn queries(c: &mut Ctx, z: &Zc) -> (Vec<i64>, Vec<i64>) {
    let pz = &z.pz;
    let mut at: Vec<i64> = vec![];
    let mut loc: Vec<i64> = vec![];
    // transitions of the table: all in thorough, a boundary-directed subset in quick
    let n = pz.trans.len();
    let cap = c.n(36, usize::MAX);
    let mut idxs: Vec<usize> = (0..n).collect();
    if n > cap {
        idxs = (0..6).chain(n - 8..n).collect();
        while idxs.len() < cap {
            idxs.push(c.rng.below(n as u64) as usize);
        }
        idxs.sort();
        idxs.dedup();
    }
    for &i in &idxs {
        let (t, idx) = pz.trans[i];
        let (p, a) = (prev_off(pz, i), pz.types[idx].off);
        for x in [t, t.saturating_add(p), t.saturating_add(a), t.saturating_sub(p), t.saturating_sub(a)] {
            push_pm(&mut at, x);
        }
        for x in [t.saturating_add(p), t.saturating_add(a), t] {
            push_pm(&mut loc, x);
        }
        // middle of the segment that follows
        if i + 1 < n {
            let m = ((t as i128 + pz.trans[i + 1].0 as i128) / 2) as i64;
            at.push(m);
            loc.push(m.saturating_add(a));
        }
    }
    // rule transitions in chosen years
    if let Rule::Alt(a) = &pz.rule {
        let base = match pz.trans.last() {
            Some(&(t, _)) => year_of_day(t.div_euclid(86400)).clamp(-YEAR_LIM, YEAR_LIM),
            None => 1970,
        };
        let mut years: Vec<i64> = vec![base - 1, base, base + 1, base + 2, 2037, 2038, 2100, 2400, 9999, 10000, 262000];
        if pz.trans.is_empty() {
            years.extend_from_slice(&[1969, 1970, 1971, 1900, 1600, 1, 0, -1, -4, -100, -400, -262000, 2000, 2024]);
        }
        for _ in 0..c.n(3, 10) {
            years.push(c.rng.range(-3000, 12000));
        }
        for _ in 0..c.n(1, 3) {
            years.push(c.rng.range(-262_000, 262_000));
        }
        for y in years {
            if !pz.trans.is_empty() && y < base - 1 {
                continue;
            }
            let (s, e) = (start_at(a, y), end_at(a, y));
            for x in [s, e] {
                push_pm(&mut at, x);
                push_pm(&mut at, x + a.std.off);
                push_pm(&mut at, x + a.dst.off);
                push_pm(&mut loc, x + a.std.off);
                push_pm(&mut loc, x + a.dst.off);
                push_pm(&mut loc, x);
            }
            // mid-season points and the year boundary
            at.push(s + (e - s) / 2);
            loc.push(s + (e - s) / 2 + a.dst.off);
            let jan1 = days_from_civil(y, 1, 1) * 86400;
            push_pm(&mut at, jan1);
            push_pm(&mut loc, jan1);
            at.push(jan1 - a.std.off);
            at.push(jan1 - a.dst.off);
            loc.push(jan1 + 43200);
            loc.push(jan1 - 43200);
        }
    }
    // sparse instants: random, log-uniform, far past / future, representable extremes
    for _ in 0..c.n(12, 40) {
        let t = match c.rng.below(4) {
            0 => c.rng.range(-2_500_000_000, 5_000_000_000),
            1 => c.rng.log_i64().clamp(-8_000_000_000_000, 8_000_000_000_000),
            2 => c.rng.range(-8_000_000_000_000, 8_000_000_000_000),
            _ => match (pz.trans.first(), pz.trans.last()) {
                (Some(&(a, _)), Some(&(b, _))) if a < b => c.rng.range(a, b),
                _ => c.rng.range(-1_000_000_000, 3_000_000_000),
            },
        };
        at.push(t);
        loc.push(t);
    }
    for x in [
        0i64,
        -1,
        951_868_800,
        951_868_799,
        -3_155_760_000_000,
        3_155_760_000_000,
        -8_334_601_228_800,
        8_210_266_876_799,
        i64::MAX,
        i64::MIN,
        i64::MIN + 951_868_800,
        i64::MIN + 951_868_799,
        67_767_976_233_532_799,
        67_767_976_233_532_800,
        -67_768_040_609_740_800,
        -67_768_040_609_740_801,
        67_767_976_170_460_799,
        67_767_976_170_460_800,
        67_767_976_138_924_799,
        67_767_976_138_924_800,
        -67_768_040_546_668_800,
        -67_768_040_546_668_801,
        -67_768_040_515_132_800,
        -67_768_040_515_132_801,
    ] {
        at.push(x);
        loc.push(x);
    }
    // wall-clock images of the instants
    loc.retain(|&l| naive(l).is_some());
    (at, loc)
}

// ------------------------------------------------------------------------------------------------
// run one zone: correspondence ops + oracles

/// report the first failing input per zone and oracle, count the rest
fn fail1(c: &mut Ctx, seen: &mut BTreeSet<String>, pz: &Pz, wall: i64, what: &str, detail: &str) {
    fail1c(c, seen, pz, wall, None, what, detail)
}
fn fail1c(c: &mut Ctx, seen: &mut BTreeSet<String>, pz: &Pz, wall: i64, class: Option<&str>, what: &str, detail: &str) {
    let what = if same_month(pz, wall) { format!("same-month rule: {what}") } else { what.to_string() };
    let what = format!("{}{}", class.unwrap_or(""), what);
    if seen.insert(what.clone()) {
        c.fail(&what, detail);
    } else {
        c.count(&format!("further failing inputs of a reported zone: {what}"));
    }
}

fn run_zone(c: &mut Ctx, z: &Zc) {
    let (at, loc) = queries(c, z);
    let pz = &z.pz;
    let mut seen: BTreeSet<String> = BTreeSet::new();
    c.count(&format!("zone.{}", z.class));
    c.count(if z.sep { "zone.well_separated" } else { "zone.not_well_separated" });
    c.count(&format!("zone.{}.{}", z.class, if z.sep { "separated(composed theorem applies)" } else { "not_separated" }));
    if pz.leaps > 0 {
        c.count("zone.with_leap_records(correspondence only)");
    }
    c.count(&format!(
        "zone.rule.{}",
        match pz.rule {
            Rule::None => "none",
            Rule::Fixed(_) => "fixed",
            Rule::Alt(_) => "alt",
        }
    ));
    let oracles = pz.leaps == 0;
    let offs = all_offsets(pz);
    // the decidable hypotheses of the composed theorem, evaluated here and by the model
    if sep_comparable(pz) {
        c.op(&format!("tzl.sep {}", z.dump), b01(z.sep));
    }
    // the year-by-year hypotheses on the rule (`RuleYearly`, `InsideYear`), evaluated here on one
    // Gregorian cycle with the harness's own calendar and by the model (`ruleYearlyB`, `insideYearB`;
    // `Props.C05.ruleYearly_of_B`: the 400-year check decides the statement for every year)
    // `spec_everywhere`: the specification's step function `offAt` is what the code's lookup by instant
    // must return at EVERY instant (`offAt_ok`: any table; alternate-time rules need `InsideYear`, which
    // the 400-year check decides) — the condition under which the harness's brute-force wall set, which
    // is built from the code's `offset_at`, can be compared with the model's `Spec.Zone.wallSet`
    let mut spec_everywhere = oracles;
    if let Rule::Alt(a) = &pz.rule {
        let yearly = (2000..2400).all(|y| rule_yearly_at(a, y));
        let inside = (2000..2400).all(|y| inside_year_ut(a, y));
        c.op(&format!("tzl.yearly {}", z.dump), &format!("{}{}", b01(yearly), b01(inside)));
        c.count(&format!("zone.rule.alt.yearly={}.inside={}", b01(yearly), b01(inside)));
        spec_everywhere &= inside;
    }
    // ---- lookup by instant
    for chunk in at.chunks(400) {
        let res: Vec<Result<(i32, bool), String>> =
            chunk.iter().map(|&t| guard(|| z.zone.offset_at(t)).unwrap_or(Err("panic".into()))).collect();
        let line = format!("tzl.at {} {}", z.dump, chunk.iter().map(|t| t.to_string()).collect::<Vec<_>>().join(","));
        c.op(&line, &res.iter().map(show_at).collect::<Vec<_>>().join(","));
        for (&t, r) in chunk.iter().zip(&res) {
            c.count(if r.is_ok() { "at.ok" } else { "at.err" });
            if !oracles {
                continue;
            }
            let Ok((o, d)) = r else { continue };
            // O1
            match spec_at(pz, t) {
                Some((eo, ed)) => {
                    c.count("O1.checked");
                    if (eo, ed) != (*o as i64, *d) {
                        fail1(
                            c, &mut seen, pz, i64::MAX,
                            "offset_at differs from what the zone data prescribe",
                            &format!("{} [{}] t={} got=({},{}) expected=({},{}) dump={}", z.class, z.label, t, o, d, eo, ed, short(&z.dump)),
                        );
                    }
                }
                None => c.count("O1.skipped(rule transition near year boundary or year out of range)"),
            }
            // O1s: the same instant against the rule's transition SEQUENCE (independent of the per-year
            // decision that `spec_at`, the Lean spec `offAt` and the code share).  Where the start/end
            // order is the same in the years around t a difference is a plain failure; where it flips
            // the code is known to differ (F30 widened to the lookup by instant): F30's prefix.
            if let Some((so, sd, flips)) = seq_at(pz, t) {
                c.count(if flips { "O1s.checked[rule start/end order flips]" } else { "O1s.checked" });
                if (so, sd) != (*o as i64, *d) {
                    fail1c(
                        c, &mut seen, pz, i64::MAX, if flips { Some(PFX_RULE) } else { None },
                        "offset_at differs from the rule's transition sequence (the latest start/end instant of any year at or before t decides)",
                        &format!("{} [{}] t={} got=({},{}) expected=({},{}) dump={}", z.class, z.label, t, o, d, so, sd, short(&z.dump)),
                    );
                }
            }
            // O2
            let l = t.saturating_add(*o as i64);
            if let Some(nd) = naive(l) {
                let class = match judge_wall(pz, z.sep, &offs, l) {
                    Judge::Skip(why) => {
                        c.count(&format!("O2.skipped({why})"));
                        None
                    }
                    Judge::Check(class) => Some(class),
                };
                if let Some(class) = class {
                    c.count(&format!("O2.checked{}", class_tag(class)));
                    let back = guard(|| z.zone.offsets_for_local(nd)).unwrap_or(Err("panic".into()));
                    let has = match &back {
                        Ok(MappedLocalTime::Single(x)) => x == o,
                        Ok(MappedLocalTime::Ambiguous(x, y)) => x == o || y == o,
                        _ => false,
                    };
                    if !has {
                        fail1c(
                            c, &mut seen, pz, l, class,
                            "round trip: the instant is not among the candidates of its own wall-clock time",
                            &format!("{} [{}] t={} off={} local={} candidates={} dump={}", z.class, z.label, t, o, l, show_loc(&back), short(&z.dump)),
                        );
                    }
                }
            }
        }
    }
    // ---- lookup by wall clock
    for chunk in loc.chunks(400) {
        let res: Vec<Result<MappedLocalTime<i32>, String>> = chunk
            .iter()
            .map(|&l| {
                let nd = naive(l).unwrap();
                guard(|| z.zone.offsets_for_local(nd)).unwrap_or(Err("panic".into()))
            })
            .collect();
        let line = format!("tzl.loc {} {}", z.dump, chunk.iter().map(|t| t.to_string()).collect::<Vec<_>>().join(","));
        c.op(&line, &res.iter().map(show_loc).collect::<Vec<_>>().join(","));
        let mut walls: Vec<(i64, String)> = vec![];
        for (&l, r) in chunk.iter().zip(&res) {
            let kind = match r {
                Ok(MappedLocalTime::None) => "none",
                Ok(MappedLocalTime::Single(_)) => "single",
                Ok(MappedLocalTime::Ambiguous(..)) => "ambiguous",
                Err(_) => "err",
            };
            c.count(&format!("loc.{}.{}", z.class, kind));
            if let Rule::Alt(a) = &pz.rule {
                let after = pz.trans.last().map(|&(t, _)| l > t.saturating_add(200_000)).unwrap_or(true);
                if after {
                    let y = year_of_day(l.div_euclid(86400));
                    c.count(&format!("loc.rule.{}.{}", rule_branch(a, y), kind));
                }
            }
            if let Ok(MappedLocalTime::Ambiguous(x, y)) = r {
                // ordered earliest instant first and distinct: l - x < l - y
                if !(x > y) {
                    fail1(
                        c, &mut seen, pz, i64::MAX,
                        "ambiguous candidates are not distinct and ordered earliest first",
                        &format!("{} [{}] local={} got={} dump={}", z.class, z.label, l, show_loc(r), short(&z.dump)),
                    );
                }
            }
            if !oracles {
                continue;
            }
            let class = match judge_wall(pz, z.sep, &offs, l) {
                Judge::Skip(why) => {
                    c.count(&format!("O3.skipped({why})"));
                    continue;
                }
                Judge::Check(class) => class,
            };
            // O3: brute-force wall set from offset_at
            let mut w: Vec<i64> = vec![];
            let mut bad = false;
            for &o in &offs {
                let t = l - o;
                match guard(|| z.zone.offset_at(t)) {
                    Ok(Ok((oo, _))) => {
                        if oo as i64 == o {
                            w.push(t);
                        }
                    }
                    _ => bad = true,
                }
            }
            if bad {
                c.count("O3.skipped(offset_at refused a candidate instant)");
                continue;
            }
            w.sort();
            w.dedup();
            if spec_everywhere && l.abs() < (1i64 << 54) {
                let txt = if w.is_empty() { "-".to_string() } else { w.iter().map(|t| t.to_string()).collect::<Vec<_>>().join("/") };
                walls.push((l, txt));
            }
            let got: Option<Vec<i64>> = match r {
                Ok(MappedLocalTime::None) => Some(vec![]),
                Ok(MappedLocalTime::Single(o)) => Some(vec![l - *o as i64]),
                Ok(MappedLocalTime::Ambiguous(x, y)) => Some(vec![l - *x as i64, l - *y as i64]),
                Err(_) => None,
            };
            c.count(&format!("O3.checked{}.wallset{}", class_tag(class), w.len().min(3)));
            if got.as_ref() != Some(&w) {
                fail1c(
                    c, &mut seen, pz, l, class,
                    "candidates differ from the instants that read this wall-clock time",
                    &format!("{} [{}] local={} got={} wall_set={:?} dump={}", z.class, z.label, l, show_loc(r), w, short(&z.dump)),
                );
            }
        }
        // the harness's brute-force wall sets (from the code's lookup by instant) against the model's
        // `Spec.Zone.wallSet` (from the specification's step function): ties O3's yardstick to the
        // `wallSet` that `Props.C05.wallSet_mem` is about
        if !walls.is_empty() {
            c.count("wall.sets-compared-with-Spec.wallSet");
            c.op(
                &format!("tzl.wall {} {}", z.dump, walls.iter().map(|(l, _)| l.to_string()).collect::<Vec<_>>().join(",")),
                &walls.iter().map(|(_, w)| w.as_str()).collect::<Vec<_>>().join(","),
            );
        }
    }
}

fn class_tag(class: Option<&str>) -> &'static str {
    match class {
        None => "",
        Some(PFX_ZONE) => "[zone not separated]",
        Some(_) => "[rule not yearly-regular]",
    }
}

fn short(d: &str) -> String {
    if d.len() > 600 {
        format!("{}…({} bytes)", &d[..600], d.len())
    } else {
        d.to_string()
    }
}

// ------------------------------------------------------------------------------------------------
// zone sources

fn system_files() -> Vec<String> {
    let mut out = vec![];
    let mut stack = vec![std::path::PathBuf::from("/usr/share/zoneinfo")];
    while let Some(d) = stack.pop() {
        let Ok(rd) = std::fs::read_dir(&d) else { continue };
        for e in rd.flatten() {
            let p = e.path();
            match std::fs::metadata(&p) {
                Ok(m) if m.is_dir() => stack.push(p),
                Ok(m) if m.is_file() => out.push(p.to_string_lossy().into_owned()),
                _ => {}
            }
        }
    }
    out.sort();
    out
}

const KEY_ZONES: &[&str] = &[
    "America/New_York", "Europe/London", "Europe/Dublin", "Australia/Lord_Howe", "Africa/Casablanca",
    "America/Sao_Paulo", "Pacific/Apia", "Asia/Kathmandu", "Antarctica/Troll", "America/St_Johns",
    "Africa/Monrovia", "Asia/Tehran", "Pacific/Kiritimati", "America/Nuuk", "America/Godthab", "Asia/Gaza",
    "Australia/Sydney", "Pacific/Auckland", "Pacific/Chatham", "America/Santiago", "Europe/Lisbon",
    "Asia/Kolkata", "Etc/UTC", "Etc/GMT+12", "Etc/GMT-14", "America/Caracas", "Asia/Pyongyang",
    "Europe/Moscow", "Africa/Cairo", "Africa/El_Aaiun", "America/Havana", "Pacific/Norfolk", "Pacific/Fiji",
    "America/Scoresbysund", "Asia/Jerusalem", "America/Anchorage", "America/Juneau", "Asia/Manila",
    "Antarctica/Casey", "Europe/Amsterdam", "Factory", "EST5EDT", "right/America/New_York", "right/Europe/London",
    "right/UTC", "posix/Australia/Hobart",
];

/// big-endian TZif writer (v1 stub block, v2/v3 data block, footer)
fn write_tzif(ver: u8, types: &[(i32, bool, &str)], trans: &[(i64, u8)], footer: &str) -> Vec<u8> {
    fn header(ver: u8, leap: u32, time: u32, typ: u32, chr: u32) -> Vec<u8> {
        let mut h = b"TZif".to_vec();
        h.push(ver);
        h.extend_from_slice(&[0u8; 15]);
        for x in [0u32, 0, leap, time, typ, chr] {
            h.extend_from_slice(&x.to_be_bytes());
        }
        h
    }
    let mut names: Vec<u8> = vec![];
    let mut name_idx: Vec<u8> = vec![];
    for (_, _, n) in types {
        // share identical names
        let pat: Vec<u8> = n.bytes().chain(std::iter::once(0)).collect();
        let pos = names.windows(pat.len()).position(|w| w == &pat[..]).filter(|&p| p == 0 || names[p - 1] == 0);
        match pos {
            Some(p) => name_idx.push(p as u8),
            None => {
                name_idx.push(names.len() as u8);
                names.extend_from_slice(&pat);
            }
        }
    }
    let mut types_b = vec![];
    for (i, (off, dst, _)) in types.iter().enumerate() {
        types_b.extend_from_slice(&off.to_be_bytes());
        types_b.push(*dst as u8);
        types_b.push(name_idx[i]);
    }
    let mut out = vec![];
    if ver == 0 {
        out.extend(header(0, 0, trans.len() as u32, types.len() as u32, names.len() as u32));
        for (t, _) in trans {
            out.extend_from_slice(&(*t as i32).to_be_bytes());
        }
        for (_, i) in trans {
            out.push(*i);
        }
        out.extend(&types_b);
        out.extend(&names);
        return out;
    }
    // v1 stub: one type, no transitions
    out.extend(header(ver, 0, 0, 1, 4));
    out.extend_from_slice(&[0, 0, 0, 0, 0, 0]);
    out.extend_from_slice(b"UTC\0");
    out.extend(header(ver, 0, trans.len() as u32, types.len() as u32, names.len() as u32));
    for (t, _) in trans {
        out.extend_from_slice(&t.to_be_bytes());
    }
    for (_, i) in trans {
        out.push(*i);
    }
    out.extend(&types_b);
    out.extend(&names);
    out.push(b'\n');
    out.extend_from_slice(footer.as_bytes());
    out.push(b'\n');
    out
}

fn hms(c: &mut Ctx, max_h: i64) -> (String, i64) {
    let h = c.rng.range(0, max_h);
    match c.rng.below(4) {
        0 => (format!("{h}"), h * 3600),
        1 => {
            let m = *c.rng.pick(&[0i64, 30, 45, 15, 59]);
            (format!("{h}:{m:02}"), h * 3600 + m * 60)
        }
        2 => {
            let (m, s) = (c.rng.range(0, 59), c.rng.range(0, 59));
            (format!("{h}:{m:02}:{s:02}"), h * 3600 + m * 60 + s)
        }
        _ => (format!("{h:02}"), h * 3600),
    }
}

fn gen_day(c: &mut Ctx, kind: u64, early: bool) -> String {
    // early = first half of the year; rule days kept a few days away from the year boundary
    match kind {
        0 => {
            let m = if early { c.rng.range(1, 6) } else { c.rng.range(7, 12) };
            let (w, d) = (c.rng.range(1, 5), c.rng.range(0, 6));
            // January week 1 / December week 5 can fall within a day of the boundary: generated too (excluded by the oracles, compared with the model)
            format!("M{m}.{w}.{d}")
        }
        1 => {
            let n = if early { c.rng.range(1, 181) } else { c.rng.range(182, 365) };
            let n = if c.rng.chance(1, 6) { *c.rng.pick(&[1i64, 2, 3, 59, 60, 61, 363, 364, 365]) } else { n };
            format!("J{n}")
        }
        _ => {
            let n = if early { c.rng.range(0, 180) } else { c.rng.range(181, 365) };
            let n = if c.rng.chance(1, 6) { *c.rng.pick(&[0i64, 1, 2, 58, 59, 60, 363, 364, 365]) } else { n };
            format!("{n}")
        }
    }
}

/// a random POSIX TZ rule string; `ext` allows the v3 footer extensions (signed / large rule times)
fn gen_posix(c: &mut Ctx, ext: bool) -> String {
    let name = |c: &mut Ctx, dst: bool| -> String {
        match c.rng.below(3) {
            0 => (if dst { "DDD" } else { "SSS" }).to_string(),
            1 => (if dst { "<+D1>" } else { "<-S1>" }).to_string(),
            _ => (if dst { "Dayl" } else { "Stand" }).to_string(),
        }
    };
    let (so_s, so) = {
        let mh = if c.rng.chance(1, 8) { 24 } else { 14 };
        let (s, v) = hms(c, mh);
        if c.rng.chance(1, 2) {
            (format!("-{s}"), -v)
        } else if c.rng.chance(1, 4) {
            (format!("+{s}"), v)
        } else {
            (s, v)
        }
    };
    if c.rng.chance(1, 12) {
        return format!("{}{}", name(c, false), so_s);
    }
    // dst offset: default (std-1h), explicit +1h/+30m/+2h, negative DST (Dublin style), equal, arbitrary
    let (do_s, _dov) = match c.rng.below(6) {
        0 => (String::new(), so - 3600),
        1 => {
            let d = *c.rng.pick(&[1800i64, 3600, 7200, 1200]);
            let v = so - d;
            (posix_off(v), v)
        }
        2 => {
            let d = *c.rng.pick(&[1800i64, 3600, 7200]);
            let v = so + d; // negative DST: daylight time is behind standard time
            (posix_off(v), v)
        }
        3 => (posix_off(so), so),
        _ => {
            let v = c.rng.range(-14 * 3600, 14 * 3600);
            (posix_off(v), v)
        }
    };
    let north = c.rng.chance(1, 2);
    let (k1, k2) = (c.rng.below(3), c.rng.below(3));
    let (d1, d2) = if c.rng.chance(1, 25) {
        // both in the same half (and possibly the same month)
        let e = c.rng.chance(1, 2);
        (gen_day(c, k1, e), gen_day(c, k2, e))
    } else {
        (gen_day(c, k1, north), gen_day(c, k2, !north))
    };
    let time = |c: &mut Ctx| -> String {
        if c.rng.chance(1, 4) {
            String::new()
        } else if ext && c.rng.chance(1, 2) {
            let (s, _) = hms(c, 167);
            if c.rng.chance(1, 2) {
                format!("/-{s}")
            } else {
                format!("/{s}")
            }
        } else {
            let (s, _) = hms(c, 24);
            format!("/{s}")
        }
    };
    let (t1, t2) = (time(c), time(c));
    format!("{}{}{}{},{}{},{}{}", name(c, false), so_s, name(c, true), do_s, d1, t1, d2, t2)
}

/// does a rule text use the RFC 8536 extensions (a signed rule time, or rule hours beyond 24)?
fn posix_uses_extensions(rule: &str) -> bool {
    rule.split(',').skip(1).any(|part| match part.split_once('/') {
        Some((_, t)) => {
            t.starts_with('-') || t.starts_with('+') || t.split(':').next().and_then(|h| h.parse::<u32>().ok()).map_or(true, |h| h > 24)
        }
        None => false,
    })
}

/// Independent reading of the standard / daylight offsets a POSIX TZ string states, in seconds EAST of UT
/// (POSIX writes them west-positive).  `None` when the string is not of the plain shape this reader knows.
fn ref_posix_offsets(rule: &str) -> Option<(i64, Option<i64>)> {
    let b = rule.as_bytes();
    let mut i = 0usize;
    fn name(b: &[u8], i: &mut usize) -> Option<()> {
        if *i < b.len() && b[*i] == b'<' {
            while *i < b.len() && b[*i] != b'>' {
                *i += 1;
            }
            if *i >= b.len() {
                return None;
            }
            *i += 1;
            Some(())
        } else {
            let s = *i;
            while *i < b.len() && b[*i].is_ascii_alphabetic() {
                *i += 1;
            }
            if *i - s >= 3 { Some(()) } else { None }
        }
    }
    fn off(b: &[u8], i: &mut usize) -> Option<i64> {
        let mut sign = 1i64;
        if *i < b.len() && (b[*i] == b'+' || b[*i] == b'-') {
            if b[*i] == b'-' {
                sign = -1;
            }
            *i += 1;
        }
        let mut parts = [0i64; 3];
        let mut k = 0;
        loop {
            let s = *i;
            let mut v = 0i64;
            while *i < b.len() && b[*i].is_ascii_digit() {
                v = v * 10 + (b[*i] - b'0') as i64;
                *i += 1;
            }
            if *i == s || *i - s > 3 {
                return None;
            }
            parts[k] = v;
            k += 1;
            if k < 3 && *i < b.len() && b[*i] == b':' {
                *i += 1;
            } else {
                break;
            }
        }
        // the whole hh:mm:ss quantity carries the sign
        Some(sign * (parts[0] * 3600 + parts[1] * 60 + parts[2]))
    }
    name(b, &mut i)?;
    let std_west = off(b, &mut i)?;
    if i == b.len() {
        return Some((-std_west, None));
    }
    name(b, &mut i)?;
    let dst_west = if i < b.len() && b[i] != b',' { off(b, &mut i)? } else { std_west - 3600 };
    if i < b.len() && b[i] != b',' {
        return None;
    }
    Some((-std_west, Some(-dst_west)))
}

/// POSIX offset text for a UT offset given in POSIX sign convention (west positive), |v| <= 24h59m59s
fn posix_off(v: i64) -> String {
    let v = v.clamp(-(24 * 3600 + 3599), 24 * 3600 + 3599);
    let (sign, a) = if v < 0 { ("-", -v) } else { ("", v) };
    let (h, m, s) = (a / 3600, (a / 60) % 60, a % 60);
    if s != 0 {
        format!("{sign}{h}:{m:02}:{s:02}")
    } else if m != 0 {
        format!("{sign}{h}:{m:02}")
    } else {
        format!("{sign}{h}")
    }
}

/// a synthetic TZif zone from a random zone model
/// what a synthetic file was written from: local time types, transitions (time, type index), footer
struct Written {
    types: Vec<(i32, bool, String)>,
    trans: Vec<(i64, u8)>,
    footer: Option<String>,
    v3: bool,
}
fn gen_synthetic(c: &mut Ctx) -> Option<(Vec<u8>, String, Written)> {
    let names = ["TAA", "TBB", "TCC", "TDD", "TEE", "TFF", "TGG", "THH", "LMT", "+0330"];
    let ntypes = c.rng.range(1, 8) as usize;
    let mut types: Vec<(i32, bool, String)> = vec![];
    for i in 0..ntypes {
        let off = match c.rng.below(5) {
            0 => c.rng.range(-93600, 93600),
            1 => *c.rng.pick(&[-93600i64, 93600, 86399, 86400, -86400, -86399, 0, 1, -1]),
            _ => c.rng.range(-52, 56) * 900,
        } as i32;
        // an offset-preserving partner of an earlier type (abbreviation / DST flag change only)
        let off = if i > 0 && c.rng.chance(1, 5) { types[c.rng.below(i as u64) as usize].0 } else { off };
        types.push((off, c.rng.chance(1, 3), names[c.rng.below(names.len() as u64) as usize].to_string()));
    }
    let n = match c.rng.below(6) {
        0 => c.rng.range(0, 3),
        1 => c.rng.range(4, 20),
        2 => c.rng.range(250, 300),
        _ => c.rng.range(20, 250),
    } as usize;
    let nonsep = c.rng.chance(1, 5);
    let extreme = c.rng.chance(1, 20);
    let ver = if extreme || c.rng.chance(5, 6) { *c.rng.pick(&[b'2', b'3']) } else { 0u8 };
    let mut t: i64 = if ver == 0 {
        c.rng.range(-2_000_000_000, -1_000_000_000)
    } else {
        match c.rng.below(4) {
            0 => c.rng.range(-60_000_000_000, -2_000_000_000),
            1 => c.rng.range(-2_000_000_000, 1_500_000_000),
            2 => c.rng.range(-4_000_000_000_000, 4_000_000_000_000),
            _ => c.rng.range(-3_000_000_000, 0),
        }
    };
    let mut trans: Vec<(i64, u8)> = vec![];
    for k in 0..n {
        let gap = if nonsep && c.rng.chance(1, 3) {
            *c.rng.pick(&[1i64, 2, 3600, 7200, 86400, 93600, 187200, 187201])
        } else if ver == 0 {
            c.rng.range(400_000, 12_000_000)
        } else {
            match c.rng.below(3) {
                0 => c.rng.range(374_401, 500_000),
                1 => c.rng.range(500_000, 40_000_000),
                _ => c.rng.range(10_000_000, 20_000_000),
            }
        };
        if k > 0 {
            t += gap;
        }
        if ver == 0 && t > i32::MAX as i64 {
            break;
        }
        trans.push((t, c.rng.below(ntypes as u64) as u8));
    }
    if extreme && ver != 0 {
        // transitions at the ends of i64 (saturating window arithmetic)
        let mut v = vec![];
        if c.rng.chance(1, 2) {
            v.push((i64::MIN + c.rng.range(0, 3), c.rng.below(ntypes as u64) as u8));
        }
        v.extend(trans.iter().copied().take(5));
        v.push((i64::MAX - c.rng.range(0, 100_000), c.rng.below(ntypes as u64) as u8));
        trans = v;
    }
    // footer
    let fk = if ver == 0 || extreme { 0 } else { c.rng.below(3) };
    let mut label = format!("v{} types={} trans={} nonsep={} extreme={}", if ver == 0 { '1' } else { ver as char }, ntypes, trans.len(), nonsep, extreme);
    let tref: Vec<(i32, bool, &str)> = types.iter().map(|(o, d, n)| (*o, *d, n.as_str())).collect();
    if fk == 0 {
        let w = Written { types: types.clone(), trans: trans.clone(), footer: None, v3: ver == b'3' };
        return Some((write_tzif(ver, &tref, &trans, ""), label, w));
    }
    let rule = if fk == 1 {
        let (s, _) = hms(c, 14);
        format!("FIX{}{}", if c.rng.chance(1, 2) { "-" } else { "" }, s)
    } else {
        gen_posix(c, ver == b'3')
    };
    label += &format!(" footer={rule}");
    // the last transition must carry the type the rule prescribes at that instant: append the
    // rule's types and try each of them
    let dumped = vt::rule_from_tz_string(rule.as_bytes(), ver == b'3').ok()?;
    let pr = parse_dump(&format!("types=[] trans=[] leaps=[] rule={dumped}"));
    let cands: Vec<Ltt> = match pr.rule {
        Rule::Fixed(l) => vec![l],
        Rule::Alt(a) => vec![a.std, a.dst],
        Rule::None => vec![],
    };
    if trans.is_empty() {
        let w = Written { types: types.clone(), trans: trans.clone(), footer: Some(rule.clone()), v3: ver == b'3' };
        return Some((write_tzif(ver, &tref, &trans, &rule), label, w));
    }
    for l in cands {
        let mut ty: Vec<(i32, bool, &str)> = tref.clone();
        ty.push((l.off as i32, l.dst, l.name.as_str()));
        let mut tr = trans.clone();
        let last = tr.len() - 1;
        tr[last].1 = (ty.len() - 1) as u8;
        let bytes = write_tzif(ver, &ty, &tr, &rule);
        if vt::from_tzif(&bytes).is_ok() {
            let w = Written {
                types: ty.iter().map(|(o, d, n)| (*o, *d, n.to_string())).collect(),
                trans: tr,
                footer: Some(rule.clone()),
                v3: ver == b'3',
            };
            return Some((bytes, label, w));
        }
    }
    None
}

// ------------------------------------------------------------------------------------------------

/// the same lookups through `Local` (TZ from the environment, a fresh thread = a fresh cache)
fn through_local(c: &mut Ctx, tz: &str, z: &Zc) {
    let (at, loc) = queries(c, z);
    let mut qs: Vec<String> = vec![];
    let mut pick = |v: &Vec<i64>, tag: char, c: &mut Ctx| {
        for _ in 0..60 {
            let x = v[c.rng.below(v.len() as u64) as usize];
            if naive(x).is_some() {
                qs.push(format!("{tag}{x}"));
            }
        }
    };
    pick(&at, 'u', c);
    pick(&loc, 'l', c);
    // the result contract: `Local.from_local_datetime(l).earliest()` / `.latest()`
    pick(&loc, 'e', c);
    pick(&loc, 'L', c);
    let old = std::env::var("TZ").ok();
    std::env::set_var("TZ", tz);
    let qs2 = qs.clone();
    let qs3 = qs.clone();
    // every way of reaching an instant from another zone-aware value reports the offset the zone
    // prescribes at the instant reached (the value is re-viewed in the zone, not just moved)
    let moved: Vec<String> = std::thread::spawn(move || {
        use chrono::{Offset, TimeDelta};
        let us: Vec<i64> = qs3.iter().filter(|q| q.starts_with('u')).map(|q| q[1..].parse().unwrap()).collect();
        let mut bad = vec![];
        for w in us.windows(2) {
            let (x, y) = (w[0], w[1]);
            let r = guard(|| {
                let (Some(a), Some(b)) = (Local.timestamp_opt(x, 0).single(), Local.timestamp_opt(y, 0).single()) else { return vec![] };
                let Some(d) = TimeDelta::try_seconds(y - x) else { return vec![] };
                let mut out: Vec<(&'static str, chrono::DateTime<Local>)> = vec![];
                if let Some(v) = a.checked_add_signed(d) {
                    out.push(("checked_add_signed", v));
                    out.push(("+", a + d));
                    let mut m = a;
                    m += d;
                    out.push(("+=", m));
                }
                if let Some(v) = a.checked_sub_signed(-d) {
                    out.push(("checked_sub_signed", v));
                    out.push(("-", a - (-d)));
                    let mut m = a;
                    m -= -d;
                    out.push(("-=", m));
                }
                if y >= x {
                    let sd = std::time::Duration::from_secs((y - x) as u64);
                    out.push(("+ std", a + sd));
                    let mut m = a;
                    m += sd;
                    out.push(("+= std", m));
                } else {
                    let sd = std::time::Duration::from_secs((x - y) as u64);
                    out.push(("- std", a - sd));
                    let mut m = a;
                    m -= sd;
                    out.push(("-= std", m));
                }
                out.push(("with_timezone", a.with_timezone(&chrono::Utc).with_timezone(&Local) + d));
                out.into_iter()
                    .filter(|(_, v)| v.timestamp() != b.timestamp() || v.offset().fix() != b.offset().fix() || v.naive_local() != b.naive_local())
                    .map(|(how, v)| format!("{x} {how} {}s -> offset {} (the zone prescribes {} at {y})", y - x, v.offset().fix(), b.offset().fix()))
                    .collect::<Vec<_>>()
            });
            match r {
                Ok(v) => bad.extend(v),
                Err(()) => {}
            }
        }
        bad
    })
    .join()
    .unwrap_or_default();
    let res: Vec<String> = std::thread::spawn(move || {
        qs2.iter()
            .map(|q| {
                let x: i64 = q[1..].parse().unwrap();
                let nd = naive(x).unwrap();
                if q.starts_with('u') {
                    gs(|| Local.offset_from_utc_datetime(&nd), |o| format!("s{}", o.local_minus_utc()))
                } else if q.starts_with('e') || q.starts_with('L') {
                    let first = q.starts_with('e');
                    gs(
                        || {
                            let m = Local.from_local_datetime(&nd);
                            if first { m.earliest() } else { m.latest() }
                        },
                        |d| match d {
                            None => "n".into(),
                            Some(d) => format!("{}/{}", d.timestamp(), d.offset().local_minus_utc()),
                        },
                    )
                } else {
                    gs(
                        || Local.offset_from_local_datetime(&nd),
                        |m| match m {
                            MappedLocalTime::None => "n".into(),
                            MappedLocalTime::Single(o) => format!("s{}", o.local_minus_utc()),
                            MappedLocalTime::Ambiguous(a, b) => format!("a{}/{}", a.local_minus_utc(), b.local_minus_utc()),
                        },
                    )
                }
            })
            .collect()
    })
    .join()
    .unwrap_or_default();
    match old {
        Some(v) => std::env::set_var("TZ", v),
        None => std::env::remove_var("TZ"),
    }
    for m in moved.iter().take(3) {
        c.fail("a zone-aware value moved to another instant does not report the offset the zone prescribes there", &format!("TZ={tz} {m}"));
    }
    c.count("local.moved-values-compared");
    if res.len() == qs.len() {
        c.count("local.glue.zones");
        c.op(&format!("tzl.cache {} {}", z.dump, qs.join(",")), &res.join(","));
    }
}

pub fn run(c: &mut Ctx) {
    crate::aliases::c05(c);
    if std::env::var("C05_DEBUG").is_ok() {
        let _ = std::panic::take_hook(); // loud panics while debugging the harness itself
    }
    // ---- A. system zone files
    let files = system_files();
    let mut chosen: Vec<String> = vec![];
    let quick = c.tier == Tier::Quick;
    if quick {
        for k in KEY_ZONES {
            let p = format!("/usr/share/zoneinfo/{k}");
            if files.contains(&p) {
                chosen.push(p);
            }
        }
        while chosen.len() < 60 && chosen.len() < files.len() {
            let p = c.rng.pick(&files).clone();
            if !chosen.contains(&p) {
                chosen.push(p);
            }
        }
    } else {
        chosen = files.clone();
    }
    let mut seen: BTreeSet<String> = BTreeSet::new();
    let mut glue: Vec<(String, String)> = vec![];
    for p in &chosen {
        let Ok(bytes) = std::fs::read(p) else { continue };
        if !bytes.starts_with(b"TZif") {
            c.count("sys.not_tzif");
            continue;
        }
        match guard(|| vt::from_tzif(&bytes)) {
            Ok(Ok(z)) => {
                let rel = p.trim_start_matches("/usr/share/zoneinfo/").to_string();
                let class = if rel.starts_with("right/") { "sys_right" } else { "sys" };
                let zc = mk(class, rel.clone(), z);
                if !seen.insert(zc.dump.clone()) {
                    c.count("sys.duplicate_content");
                    continue;
                }
                if class == "sys_right" && !quick && c.rng.chance(3, 4) {
                    c.count("sys_right.sampled_out");
                    continue;
                }
                c.sample(&format!("system zone {} ({} transitions, well separated: {})", rel, zc.pz.trans.len(), zc.sep));
                run_zone(c, &zc);
                if class == "sys" && glue.len() < c.n(16, 60) {
                    glue.push((format!(":{p}"), p.clone()));
                }
            }
            // a file compiled by zic is conforming zone data: a reader that refuses it makes `Local` fall back
            // to UTC silently (seed R4-C05-a: Asia/Kolkata's footer `IST-5:30` misread, then refused)
            Ok(Err(e)) => c.fail("a system zone file (written by zic) is rejected by the reader", &format!("{p}: {e}")),
            Err(()) => c.fail("the reader panicked on a system zone file", p),
        }
    }
    // ---- B0. directed synthetic zones
    let directed: &[(&str, &[(i32, bool, &str)], &[(i64, u8)], &str)] = &[
        // `Props.C05.nsZone` / `nsZone2`: the kernel-checked counterexamples outside `WellSeparated`
        ("nsZone", &[(0, false, "AAA"), (3600, true, "BBB")], &[(1_000_000, 1), (1_000_600, 0)], ""),
        ("nsZone2", &[(3600, true, "BBB"), (0, false, "AAA"), (7200, true, "CCC")], &[(1_000_000, 1), (1_000_600, 2)], ""),
        // the trivial zone shapes: one type and nothing else; no transitions + fixed rule; no transitions + rule
        ("one type", &[(3600, false, "AAA")], &[], ""),
        ("one type, 23:59:59 east", &[(86399, false, "AAA")], &[], ""),
        ("one type, 23:59:59 west", &[(-86399, false, "AAA")], &[], ""),
        ("two types, the unused one 23:59:59 east", &[(0, false, "AAA"), (86399, true, "BBB")], &[], ""),
        ("fixed rule only", &[(7200, false, "FIX")], &[], "FIX-2"),
        ("rule only", &[(-18000, false, "EST")], &[], "EST5EDT,M3.2.0,M11.1.0"),
        // `Props.C05.lonZone`: an offset-preserving transition (London 1968-10-27), no excepted second there
        ("lonZone", &[(0, false, "GMT"), (3600, true, "BST"), (3600, false, "BST")], &[(-59_004_000, 1), (-37_242_000, 2), (57_722_400, 0)], ""),
        // `Props.C05.exZoneUS`
        ("exZoneUS", &[(-18000, false, "EST"), (-14400, true, "EDT")], &[(-1_633_280_400, 1), (-1_615_140_000, 0), (1_710_054_000, 1)], "EST5EDT,M3.2.0,M11.1.0"),
    ];
    for (name, types, trans, footer) in directed {
        let bytes = write_tzif(b'2', types, trans, footer);
        match guard(|| vt::from_tzif(&bytes)) {
            Ok(Ok(z)) => {
                let zc = mk("directed", name.to_string(), z);
                c.sample(&format!("directed zone {} -> {}", name, short(&zc.dump)));
                run_zone(c, &zc);
            }
            _ => c.fail("from_tzif rejected or panicked on a directed synthetic zone", name),
        }
    }
    // F32 (repaired): a local time type 24 hours or more from UTC — used or not — is invalid zone data
    let refused: &[(&str, &[(i32, bool, &str)], &[(i64, u8)], &str)] = &[
        ("one type, 24:00:00 east", &[(86400, false, "AAA")], &[], ""),
        ("one type, 24:00:00 west", &[(-86400, false, "AAA")], &[], ""),
        ("one type, 24:00:01 east", &[(86401, false, "AAA")], &[], ""),
        ("one type, 24:00:01 west", &[(-86401, false, "AAA")], &[], ""),
        ("one type, far east", &[(93600, false, "AAA")], &[], ""),
        ("one type, i32::MAX", &[(i32::MAX, false, "AAA")], &[], ""),
        ("one type, i32::MIN", &[(i32::MIN, false, "AAA")], &[], ""),
        ("two types, the unused one 24:00:00 east", &[(0, false, "AAA"), (86400, true, "BBB")], &[], ""),
        ("a transition to 25:00:00 west", &[(0, false, "AAA"), (-90000, true, "BBB")], &[(1_000_000, 1)], ""),
    ];
    for (name, types, trans, footer) in refused {
        let bytes = write_tzif(b'2', types, trans, footer);
        match guard(|| vt::from_tzif(&bytes)) {
            Ok(Ok(z)) => c.fail("a TZif file with a UTC offset of 24 hours or more was accepted (F32)", &format!("{name} -> {}", z.dump())),
            Ok(Err(_)) => c.count("directed.refused: offset of 24 h or more"),
            Err(()) => c.fail("from_tzif panicked on a directed synthetic zone", name),
        }
    }
    // ---- B. synthetic TZif files from random zone models
    let nsyn = c.n(300, 2000);
    let (mut syn_glue_big, mut syn_glue_small) = (0usize, 0usize);
    let mut syn_files: Vec<String> = vec![];
    let mut made = 0;
    let mut tries = 0;
    while made < nsyn && tries < nsyn * 4 {
        tries += 1;
        let Some((bytes, label, written)) = gen_synthetic(c) else {
            c.count("syn.footer_inconsistent(regenerated)");
            continue;
        };
        match guard(|| vt::from_tzif(&bytes)) {
            Ok(Ok(z)) if written.types.iter().any(|t| (t.0 as i64).abs() >= 86400) => {
                c.fail("a TZif file with a UTC offset of 24 hours or more was accepted (F32)", &format!("syn [{label}] -> {}", short(&z.dump())));
            }
            Ok(Ok(z)) => {
                made += 1;
                let zc = mk("syn", label, z);
                // the zone handed to the lookups is the zone the file describes: every local time type,
                // every transition record (also those that repeat the type in effect), the footer rule
                let same_types = zc.pz.types.len() == written.types.len()
                    && zc.pz.types.iter().zip(&written.types).all(|(a, b)| a.off == b.0 as i64 && a.dst == b.1 && a.name == b.2);
                let same_trans = zc.pz.trans.len() == written.trans.len()
                    && zc.pz.trans.iter().zip(&written.trans).all(|(a, b)| a.0 == b.0 && a.1 == b.1 as usize);
                let rule_dump = match &written.footer {
                    None => "none".to_string(),
                    Some(r) => vt::rule_from_tz_string(r.as_bytes(), written.v3).unwrap_or_else(|e| format!("err {e}")),
                };
                let same_rule = zc.dump.split(' ').nth(3) == Some(&format!("rule={rule_dump}"));
                if !(same_types && same_trans && same_rule) {
                    c.fail(
                        "the zone read from a TZif file is not the zone the file describes (types, transition records, footer)",
                        &format!("syn [{}] types {} trans {} rule {} -> {}", zc.label, same_types, same_trans, same_rule, short(&zc.dump)),
                    );
                }
                c.count("syn.file-vs-zone-compared");
                if made <= 2 {
                    c.sample(&format!("synthetic zone {} -> {}", zc.label, short(&zc.dump)));
                }
                run_zone(c, &zc);
                // a few of them also through `Local` (TZ=:<file>): half of them zones with an offset that
                // `FixedOffset` cannot hold (the glue drops such answers: `Props.C05.cache_local_drops`)
                let big = zc.pz.types.iter().any(|t| t.off.abs() >= 86400);
                let quota = c.n(6, 24);
                if zc.pz.leaps == 0 && ((big && syn_glue_big < quota) || (!big && syn_glue_small < quota)) {
                    let path = std::env::temp_dir().join(format!("c05-{}-{}.tzif", std::process::id(), syn_files.len()));
                    if std::fs::write(&path, &bytes).is_ok() {
                        if big { syn_glue_big += 1 } else { syn_glue_small += 1 }
                        let p = path.to_string_lossy().into_owned();
                        glue.push((format!(":{p}"), p.clone()));
                        syn_files.push(p);
                    }
                }
            }
            Ok(Err(e)) => {
                c.count(&format!("syn.rejected.{}", e.split('(').next().unwrap_or("?")));
            }
            Err(()) => c.fail("from_tzif panicked on a synthetic file", &label),
        }
    }
    // ---- C. POSIX rules
    let fixed_rules = [
        "EST5EDT,M3.2.0,M11.1.0", "GMT0BST,M3.5.0/1,M10.5.0", "IST-1GMT0,M10.5.0,M3.5.0/1", "AEST-10AEDT,M10.1.0,M4.1.0/3",
        "NZST-12NZDT,M9.5.0,M4.1.0/3", "<-03>3<-02>,M3.5.0/-2,M10.5.0/-1", "CST6CDT,J60,J300", "CST6CDT,59,299",
        "AAA3BBB,J1/0,J365/24", "AAA-3BBB,0/0,365/0", "XXX-5:30", "UTC0", "NPT-5:45", "ACST-9:30ACDT,M10.1.0,M4.1.0/3",
        "<+0330>-3:30<+0430>,J79/24,J263/24", "NST3:30NDT,M3.2.0,M11.1.0", "AAA-0:30", "AAA-0:00:30BBB-1:00:30,M3.2.0,M11.1.0",
        "AAA+0:45BBB-0:15,M3.2.0,M11.1.0", "WET0WEST,M3.5.0,M10.5.0/3",
        "AAA0BBB-1,M3.1.0,M3.4.0", "AAA0BBB1,M10.1.0,M10.4.0", "AAA0BBB-2,M2.5.0/24,M9.1.6/0",
        // inside the quantifier but outside `RuleYearly`: the two transitions closer than twice the offset
        // jump; the start/end order flipping from year to year (judged under the prefix PFX_RULE)
        "AAA0BBB-2,M6.1.0/2,M6.1.0/3", "AAA0BBB-1,M6.2.0/2,J162/2", "AAA0BBB-1,J162/2,M6.2.0/2",
        // F32 (repaired): stated or defaulted offsets of exactly 86399 / 86400 / 86401 s, either sign —
        // below 24 h the zone must be read, from 24 h on it must be refused
        "AAA23:59:59", "AAA-23:59:59", "AAA24", "AAA-24", "AAA24:00:01", "AAA-24:00:01", "AAA24:59:59", "XXX-24:30",
        "AAA5BBB23:59:59,M3.2.0,M11.1.0", "AAA5BBB-23:59:59,M3.2.0,M11.1.0", "AAA5BBB24,M3.2.0,M11.1.0",
        "AAA5BBB-24,M3.2.0,M11.1.0", "AAA5BBB-24:00:01,M3.2.0,M11.1.0", "AAA24BBB5,M3.2.0,M11.1.0",
        "AAA-22:59:59BBB,J1,J365", "AAA-23BBB,J1,J365", "AAA-23:00:01BBB,J1,J365",
    ];
    let nposix = c.n(600, 5000);
    for i in 0..nposix {
        let rule = if i < fixed_rules.len() { fixed_rules[i].to_string() } else { gen_posix(c, false) };
        // F32 (repaired): the offsets the string states, read independently; 24 hours or more in
        // magnitude = invalid zone data (`Local` hands offsets out as `FixedOffset`)
        let stated = ref_posix_offsets(&rule);
        let over = stated.map(|(s, d)| s.abs() >= 86400 || d.map_or(false, |d| d.abs() >= 86400));
        match guard(|| vt::from_env_tz(Some(&rule))) {
            Ok(Ok(z)) if over == Some(true) => {
                c.fail("a TZ value stating a UTC offset of 24 hours or more was accepted (F32)",
                       &format!("TZ={rule}: states {stated:?} (seconds east), read as {}", z.dump()));
            }
            Ok(Ok(z)) => {
                let zc = mk("posix", rule.clone(), z);
                // the offsets the string states, read by an independent reader (POSIX: west positive,
                // [+-]hh[:mm[:ss]], DST defaults to one hour ahead of standard time)
                if let Some((std_ut, dst_ut)) = ref_posix_offsets(&rule) {
                    let got = match &zc.pz.rule {
                        Rule::Fixed(l) => Some((l.off, None)),
                        Rule::Alt(a) => Some((a.std.off, Some(a.dst.off))),
                        Rule::None => None,
                    };
                    if got != Some((std_ut, dst_ut)) {
                        c.fail("a POSIX TZ string is read with offsets other than the ones it states",
                               &format!("TZ={rule}: states std {std_ut} dst {dst_ut:?} (seconds east), read as {got:?}"));
                    }
                } else {
                    c.count("posix.ref_reader_declined");
                }
                if i < 3 {
                    c.sample(&format!("POSIX rule {} -> {}", rule, zc.dump));
                }
                run_zone(c, &zc);
                if i < c.n(8, 24) {
                    glue.push((rule.clone(), String::new()));
                }
            }
            // (a rule time with a sign or beyond 24 h is an RFC 8536 extension, which a TZ value may not use)
            Ok(Err(e)) if over == Some(false) && !posix_uses_extensions(&rule) => {
                c.fail("a well-formed POSIX TZ value whose offsets are below 24 hours was refused",
                       &format!("TZ={rule}: states {stated:?} (seconds east), error {e}"));
            }
            Ok(Err(_)) if over == Some(true) => c.count("posix.refused: offset of 24 h or more"),
            Ok(Err(e)) => c.count(&format!("posix.rejected.{}", e.split('(').next().unwrap_or("?"))),
            Err(()) => c.fail("from_env_tz panicked on a POSIX rule", &rule),
        }
    }
    // ---- D. the glue: the same lookups through `Local`
    for (tz, path) in glue {
        let z = if path.is_empty() {
            vt::from_env_tz(Some(&tz))
        } else {
            std::fs::read(&path).map_err(|e| e.to_string()).and_then(|b| vt::from_tzif(&b))
        };
        if let Ok(z) = z {
            let zc = mk("glue", tz.clone(), z);
            through_local(c, &tz, &zc);
        }
    }
    for p in syn_files {
        let _ = std::fs::remove_file(p);
    }
}
